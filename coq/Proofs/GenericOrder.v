(** The greedy detectors over an arbitrary number type: SIMULATION by the Z models.

    The loops [gmw], [gsbs], [gcbs] of Model/Generic.v only compare score values (and replace removed
    scores by the zero of the instance).  Hence, whenever a map [phi : T N -> Z] reflects and preserves
    the comparison [ltb N] on the values that occur ([embedding N ok phi], Proofs/GenericRank.v), the
    generic run and the Z run on the table [phi o CS] make the same decisions: same argmax positions,
    same changepoints / anomalies, values mapped by [phi].

      - Section Direct : facts that hold for every instance, without any law (what the reported value
                         of an argmax IS, extensionality);
      - Section Sim    : the simulation lemmas [gargmax_sim], [gmw_sim], [gsbs_sim], [gcbs_sim], and the
                         theorems of Properties/C07.v, C08.v, C09.v transferred through a given
                         embedding [phi] (E07_..., E08_..., E09_...).

    Proofs/GenericSpec.v removes [phi]: it exists as soon as [ltb N] is a strict weak order on the
    (finitely many) values a run reads. *)
From Coq Require Import ZArith List Bool Arith Lia Permutation Sorted.
From SK Require Import Lib.Base Model.Mw Model.Sbs Model.Capa Model.Cbs Model.Generic.
From SK Require Import Proofs.ArgmaxLemmas Proofs.MwProofs Proofs.SbsProofs Proofs.CbsProofs Proofs.GenericRank.
From SK Require Import Properties.C07 Properties.C08 Properties.C09.
Import ListNotations.
Open Scope Z_scope.

(** ---------- list helpers ---------- *)
Lemma Forall_firstn : forall {A} (P : A -> Prop) k l, Forall P l -> Forall P (firstn k l).
Proof.
  intros A P. induction k as [|k IH]; intros l H; [constructor|].
  destruct H as [|x t Hx Ht]; cbn [firstn]; constructor; [exact Hx | apply IH; exact Ht].
Qed.

Lemma Forall_skipn : forall {A} (P : A -> Prop) k l, Forall P l -> Forall P (skipn k l).
Proof.
  intros A P. induction k as [|k IH]; intros l H; [exact H|].
  destruct H as [|x t Hx Ht]; cbn [skipn]; [constructor | apply IH; exact Ht].
Qed.

Lemma Forall_slice : forall {A} (P : A -> Prop) s e l, Forall P l -> Forall P (slice s e l).
Proof. intros A P s e l H. unfold slice. apply Forall_firstn, Forall_skipn, H. Qed.

Lemma Forall_nth_default : forall {A} (P : A -> Prop) l d i, Forall P l -> P d -> P (nth i l d).
Proof.
  intros A P l d i Hl Hd. destruct (Nat.lt_ge_cases i (length l)) as [H | H].
  - apply Forall_nth; assumption.
  - rewrite nth_overflow by exact H. exact Hd.
Qed.

(** ======================= facts that need no law ======================= *)
Section Direct.
Variable N : num.
Notation V := (T N).

Lemma gargmax_from_shape : forall (d : V) l bi b i,
  gargmax_from N bi b i l = (bi, b) \/
  exists j, (j < length l)%nat /\ gargmax_from N bi b i l = ((i + j)%nat, nth j l d).
Proof.
  intros d. induction l as [|x t IH]; intros bi b i; cbn [gargmax_from]; [left; reflexivity|].
  destruct (ltb N b x).
  - right. destruct (IH i x (S i)) as [E | (j & Hj & E)].
    + exists 0%nat. cbn [length nth]. split; [lia|]. rewrite E. f_equal. lia.
    + exists (S j). cbn [length nth]. split; [lia|]. rewrite E. f_equal. lia.
  - destruct (IH bi b (S i)) as [E | (j & Hj & E)]; [left; exact E|].
    right. exists (S j). cbn [length nth]. split; [lia|]. rewrite E. f_equal. lia.
Qed.

(** the value reported by an argmax is the element at the reported position *)
Lemma gargmax_nth : forall (d : V) l j v, gargmax N l = Some (j, v) -> (j < length l)%nat /\ v = nth j l d.
Proof.
  intros d [|x t] j v H; cbn [gargmax] in H; [discriminate|].
  inversion H as [H0]. clear H.
  destruct (gargmax_from_shape d t 0%nat x 1%nat) as [E | (j' & Hj' & E)]; rewrite E in H0; inversion H0; subst.
  - cbn [length nth]. split; [lia | reflexivity].
  - cbn [length]. split; [lia|]. reflexivity.
Qed.

Lemma gargmax_In : forall l j (v : V), gargmax N l = Some (j, v) -> In v l.
Proof.
  intros l j v H. destruct (gargmax_nth v l j v H) as [Hj ->]. apply nth_In. exact Hj.
Qed.

Lemma gargmax_none : forall l, gargmax N l = None <-> l = [].
Proof. intros [|x t]; cbn [gargmax]; split; intro H; try reflexivity; discriminate. Qed.

(** ---- moving window ---- *)
Lemma gmw_scores_length : forall CS b n, length (gmw_scores N CS b n) = n.
Proof. intros. unfold gmw_scores. rewrite map_length, seq_length. reflexivity. Qed.

Lemma gmw_scores_nth : forall CS b n t, (t < n)%nat ->
  nthV N (gmw_scores N CS b n) t =
  if ((b <=? t)%nat && (t + b <=? n)%nat)%bool then CS (t - b)%nat t (t + b)%nat else zero N.
Proof.
  intros CS b n t Ht. unfold nthV, gmw_scores. rewrite nth_map_seq by exact Ht. reflexivity.
Qed.

Lemma gmw_scores_ext_valid : forall CS1 CS2 b n,
  (forall t, (b <= t)%nat -> (t + b <= n)%nat -> CS1 (t - b)%nat t (t + b)%nat = CS2 (t - b)%nat t (t + b)%nat) ->
  gmw_scores N CS1 b n = gmw_scores N CS2 b n.
Proof.
  intros CS1 CS2 b n H. unfold gmw_scores. apply map_ext. intros t.
  destruct ((b <=? t)%nat && (t + b <=? n)%nat)%bool eqn:E; [|reflexivity].
  apply andb_true_iff in E. destruct E as [E1 E2]. apply Nat.leb_le in E1. apply Nat.leb_le in E2.
  apply H; assumption.
Qed.

(** ---- seeded binary segmentation ---- *)
Lemma gamoc_inv : forall CS m s e k v, gamoc N CS m (s, e) = Some (k, v) ->
  (s + m <= k)%nat /\ (k + m <= e)%nat /\ v = CS s k e.
Proof.
  intros CS m s e k v H. unfold gamoc in H.
  destruct (gargmax N (map (fun k0 => CS s k0 e) (seq (s + m) (e - m + 1 - (s + m))))) as [[i w]|] eqn:E;
    [|discriminate].
  inversion H; subst k w. clear H.
  destruct (gargmax_nth v _ _ _ E) as [Hi Hv]. rewrite map_length, seq_length in Hi.
  rewrite nth_map_seq in Hv by exact Hi. split; [lia|]. split; [lia | exact Hv].
Qed.

Lemma gamocs_inv : forall CS m ivs am, gamocs N CS m ivs = Some am ->
  length am = length ivs /\
  forall i d d', (i < length ivs)%nat -> gamoc N CS m (nth i ivs d) = Some (nth i am d').
Proof.
  intros CS m. induction ivs as [|se t IH]; intros am H; cbn [gamocs] in H.
  - inversion H; subst. split; [reflexivity|]. intros i d d' Hi. cbn [length] in Hi. lia.
  - destruct (gamoc N CS m se) as [x|] eqn:E1; [|discriminate].
    destruct (gamocs N CS m t) as [r|] eqn:E2; [|discriminate].
    inversion H; subst am. clear H. destruct (IH r eq_refl) as [Hl Hn]. cbn [length].
    split; [lia|]. intros [|i] d d' Hi; cbn [nth]; [exact E1|]. apply Hn. cbn [length] in Hi. lia.
Qed.

Lemma gsbs_inv : forall CS m thr ivs cpts am, gsbs N CS m thr ivs = Some (cpts, am) ->
  gamocs N CS m ivs = Some am /\
  exists picks, ggreedy_cpts N (length ivs) thr ivs (map fst am) (map snd am) = Some picks /\
                cpts = sort_nat picks.
Proof.
  intros CS m thr ivs cpts am H. unfold gsbs in H.
  destruct (gamocs N CS m ivs) as [am'|]; [|discriminate].
  destruct (ggreedy_cpts N (length ivs) thr ivs (map fst am') (map snd am')) as [picks|] eqn:G; [|discriminate].
  inversion H; subst. split; [reflexivity|]. exists picks. split; [exact G | reflexivity].
Qed.

Lemma gamoc_ext_valid : forall CS1 CS2 m s e,
  (forall k, (s + m <= k)%nat -> (k + m <= e)%nat -> CS1 s k e = CS2 s k e) ->
  gamoc N CS1 m (s, e) = gamoc N CS2 m (s, e).
Proof.
  intros CS1 CS2 m s e H. unfold gamoc.
  rewrite (map_ext_in (fun k => CS1 s k e) (fun k => CS2 s k e)); [reflexivity|].
  intros k Hk. apply in_seq in Hk. apply H; lia.
Qed.

Lemma gamocs_ext_valid : forall CS1 CS2 m ivs,
  (forall s e k, In (s, e) ivs -> (s + m <= k)%nat -> (k + m <= e)%nat -> CS1 s k e = CS2 s k e) ->
  gamocs N CS1 m ivs = gamocs N CS2 m ivs.
Proof.
  intros CS1 CS2 m. induction ivs as [|[s e] t IH]; intros H; cbn [gamocs]; [reflexivity|].
  rewrite (gamoc_ext_valid CS1 CS2 m s e) by (intros k; apply H; left; reflexivity).
  rewrite IH by (intros s' e' k Hin; apply H; right; exact Hin). reflexivity.
Qed.

(** ---- circular binary segmentation ---- *)
Lemma gbest_inner_inv : forall LS m s e a z v, gbest_inner N LS m (s, e) = Some ((a, z), v) ->
  In (a, z) (anomaly_intervals s e m) /\ v = LS s a z e.
Proof.
  intros LS m s e a z v H. unfold gbest_inner in H.
  destruct (gargmax N (map (fun ab => LS s (fst ab) (snd ab) e) (anomaly_intervals s e m))) as [[i w]|] eqn:E;
    [|discriminate].
  inversion H as [[H1 H2]]. subst w. clear H.
  destruct (gargmax_nth v _ _ _ E) as [Hi Hv]. rewrite map_length in Hi.
  rewrite (nth_map_lt _ _ i (0, 0)%nat) in Hv by exact Hi. rewrite H1 in Hv. cbn [fst snd] in Hv.
  split; [|exact Hv]. try rewrite <- H1. apply nth_In. exact Hi.
Qed.

Lemma gbest_inner_none : forall LS m s e, gbest_inner N LS m (s, e) = None <-> anomaly_intervals s e m = [].
Proof.
  intros LS m s e. unfold gbest_inner.
  destruct (gargmax N (map (fun ab => LS s (fst ab) (snd ab) e) (anomaly_intervals s e m))) as [[i w]|] eqn:E.
  - split; [discriminate|]. intros H. rewrite H in E. discriminate.
  - split; [|reflexivity]. intros _. apply gargmax_none in E.
    destruct (anomaly_intervals s e m); [reflexivity | discriminate].
Qed.

Lemma gcbs_inv : forall LS m thr ivs anoms am, gcbs N LS m thr ivs = Some (anoms, am) ->
  am = map (ginner_or_zero N LS m) ivs /\
  exists picks, ggreedy_anoms N (length ivs) thr ivs (map fst am) (map snd am) = Some picks /\
                anoms = sort_pairs picks.
Proof.
  intros LS m thr ivs anoms am H. unfold gcbs in H.
  destruct (ggreedy_anoms N (length ivs) thr ivs _ _) as [picks|] eqn:G; [|discriminate].
  inversion H; subst. split; [reflexivity|]. exists picks. split; [exact G | reflexivity].
Qed.

(** standing assumptions of the anomaly selection loop (CbsProofs.anoms_pre over [N]) *)
Definition ganoms_pre (thr : V) (ivs inner : list (nat * nat)) (scores : list V) (n : nat) : Prop :=
  length ivs = n /\ length inner = n /\ length scores = n /\ ltb N thr (zero N) = false /\
  (forall i, (i < n)%nat -> ltb N thr (nthV N scores i) = true -> overlaps (nthP inner i) (nthP ivs i) = true).

Lemma gbest_inner_ext_valid : forall LS1 LS2 m s e,
  (forall a z, In (a, z) (anomaly_intervals s e m) -> LS1 s a z e = LS2 s a z e) ->
  gbest_inner N LS1 m (s, e) = gbest_inner N LS2 m (s, e).
Proof.
  intros LS1 LS2 m s e H. unfold gbest_inner.
  rewrite (map_ext_in (fun ab => LS1 s (fst ab) (snd ab) e) (fun ab => LS2 s (fst ab) (snd ab) e)); [reflexivity|].
  intros [a z] Hin. apply H. exact Hin.
Qed.
End Direct.

(** ============================ simulation ============================ *)
Section Sim.
Variable N : num.
Notation V := (T N).
Notation "x <! y" := (ltb N x y) (at level 70).
Variable ok : V -> Prop.
Variable phi : V -> Z.
Hypothesis Hemb : embedding N ok phi.
Hypothesis ok_zero : ok (zero N).

Lemma phi_zero : phi (zero N) = 0.
Proof. exact (proj1 Hemb). Qed.

Lemma phi_lt : forall x y, ok x -> ok y -> x <! y = (phi x <? phi y).
Proof. exact (proj2 Hemb). Qed.

Lemma phi_ltP : forall x y, ok x -> ok y -> (phi x < phi y <-> x <! y = true).
Proof. intros x y Hx Hy. rewrite phi_lt by assumption. symmetry. apply Z.ltb_lt. Qed.

Lemma phi_leP : forall x y, ok x -> ok y -> (phi x <= phi y <-> y <! x = false).
Proof. intros x y Hx Hy. rewrite phi_lt by assumption. symmetry. apply Z.ltb_ge. Qed.

(** a (position, value) pair with the value mapped *)
Definition pm {A} (p : A * V) : A * Z := (fst p, phi (snd p)).

Lemma map_fst_pm : forall {A} (l : list (A * V)), map fst (map pm l) = map fst l.
Proof. intros A l. rewrite map_map. apply map_ext. intros [a v]. reflexivity. Qed.

Lemma map_snd_pm : forall {A} (l : list (A * V)), map snd (map pm l) = map phi (map snd l).
Proof. intros A l. rewrite !map_map. apply map_ext. intros [a v]. reflexivity. Qed.

Lemma nth_pm : forall {A} (l : list (A * V)) (a : A) i, nth i (map pm l) (a, 0) = pm (nth i l (a, zero N)).
Proof.
  intros A l a i. rewrite <- phi_zero. change (a, phi (zero N)) with (pm (a, zero N)). apply map_nth.
Qed.

Lemma nthZ_phi : forall l i, nthZ (map phi l) i = phi (nthV N l i).
Proof. intros l i. unfold nthZ, nthV. rewrite <- phi_zero. apply map_nth. Qed.

Lemma ok_nthV : forall l i, Forall ok l -> ok (nthV N l i).
Proof. intros l i H. unfold nthV. apply Forall_nth_default; assumption. Qed.

(** ---- argmax ---- *)
Lemma gargmax_from_sim : forall l bi b i, ok b -> Forall ok l ->
  argmax_from bi (phi b) i (map phi l) = pm (gargmax_from N bi b i l).
Proof.
  induction l as [|x t IH]; intros bi b i Hb Hl; cbn [map argmax_from gargmax_from]; [reflexivity|].
  inversion Hl as [|x' t' Hx Ht]; subst.
  rewrite (phi_lt b x Hb Hx). destruct (phi b <? phi x); apply IH; assumption.
Qed.

Theorem gargmax_sim : forall l, Forall ok l -> argmax (map phi l) = option_map pm (gargmax N l).
Proof.
  intros [|x t] Hl; cbn [map argmax gargmax option_map]; [reflexivity|].
  inversion Hl as [|x' t' Hx Ht]; subst. rewrite gargmax_from_sim by assumption. reflexivity.
Qed.

Lemma existsb_sim : forall thr l, ok thr -> Forall ok l ->
  existsb (fun v => phi thr <? v) (map phi l) = existsb (fun v => thr <! v) l.
Proof.
  intros thr l Hthr Hl. induction Hl as [|x t Hx Ht IH]; cbn [map existsb]; [reflexivity|].
  rewrite IH, (phi_lt thr x Hthr Hx). reflexivity.
Qed.

(** ---- moving window ---- *)
Lemma gmw_scores_sim : forall CS b n,
  mw_scores (fun s k e => phi (CS s k e)) b n = map phi (gmw_scores N CS b n).
Proof.
  intros CS b n. unfold mw_scores, gmw_scores. rewrite map_map. apply map_ext. intros t.
  destruct ((b <=? t)%nat && (t + b <=? n)%nat)%bool; [reflexivity | symmetry; apply phi_zero].
Qed.

Lemma gmw_runs_sim : forall scores thr, Forall ok scores -> ok thr ->
  map (fun v => phi thr <? v) (map phi scores) = map (fun v => thr <! v) scores.
Proof.
  intros scores thr Hs Hthr. rewrite map_map. apply map_ext_in. intros v Hv. symmetry.
  apply phi_lt; [exact Hthr|]. rewrite Forall_forall in Hs. apply Hs. exact Hv.
Qed.

Theorem gmw_cpts_sim : forall scores thr mdi, Forall ok scores -> ok thr ->
  mw_cpts (map phi scores) (phi thr) mdi = gmw_cpts N scores thr mdi.
Proof.
  intros scores thr mdi Hs Hthr. unfold mw_cpts, gmw_cpts. rewrite gmw_runs_sim by assumption.
  apply flat_map_ext. intros [s e]. destruct (mdi <=? e - s)%nat; [|reflexivity].
  unfold slice. rewrite skipn_map, firstn_map.
  rewrite gargmax_sim by (apply Forall_firstn, Forall_skipn, Hs).
  destruct (gargmax N (firstn (e - s) (skipn s scores))) as [[i v]|]; reflexivity.
Qed.

Lemma gmw_scores_ok : forall CS b n,
  (forall t, (b <= t)%nat -> (t + b <= n)%nat -> ok (CS (t - b)%nat t (t + b)%nat)) ->
  Forall ok (gmw_scores N CS b n).
Proof.
  intros CS b n H. unfold gmw_scores. apply Forall_forall. intros v Hv.
  apply in_map_iff in Hv. destruct Hv as (t & <- & _).
  destruct ((b <=? t)%nat && (t + b <=? n)%nat)%bool eqn:E; [|exact ok_zero].
  apply andb_true_iff in E. destruct E as [E1 E2]. apply Nat.leb_le in E1. apply Nat.leb_le in E2.
  apply H; assumption.
Qed.

Theorem gmw_sim : forall CS b n thr mdi,
  (forall t, (b <= t)%nat -> (t + b <= n)%nat -> ok (CS (t - b)%nat t (t + b)%nat)) -> ok thr ->
  mw (fun s k e => phi (CS s k e)) b n (phi thr) mdi =
  (map phi (fst (gmw N CS b n thr mdi)), snd (gmw N CS b n thr mdi)).
Proof.
  intros CS b n thr mdi Htab Hthr. unfold mw, gmw. cbn [fst snd].
  rewrite gmw_scores_sim. rewrite gmw_cpts_sim by (try apply gmw_scores_ok; assumption). reflexivity.
Qed.

(** ---- greedy loops: the kill step ---- *)
Lemma kill_map_sim : forall (k : nat * nat -> bool) ivs sc,
  map phi (map (fun sv : (nat * nat) * V => if k (fst sv) then zero N else snd sv) (combine ivs sc)) =
  map (fun sv : (nat * nat) * Z => if k (fst sv) then 0 else snd sv) (combine ivs (map phi sc)).
Proof.
  intros k. induction ivs as [|iv t IH]; intros [|x sc]; cbn [combine map]; try reflexivity.
  cbn [fst snd]. rewrite IH. destruct (k iv); [rewrite phi_zero|]; reflexivity.
Qed.

Lemma kill_ok : forall (k : nat * nat -> bool) ivs sc, Forall ok sc ->
  Forall ok (map (fun sv : (nat * nat) * V => if k (fst sv) then zero N else snd sv) (combine ivs sc)).
Proof.
  intros k. induction ivs as [|iv t IH]; intros sc H; cbn [combine map]; [constructor|].
  destruct H as [|x sc Hx Hsc]; cbn [map]; constructor.
  - cbn [fst snd]. destruct (k iv); assumption.
  - apply IH. exact Hsc.
Qed.

(** ---- seeded binary segmentation ---- *)
Lemma gamoc_sim : forall CS m s e,
  (forall k, (s + m <= k)%nat -> (k + m <= e)%nat -> ok (CS s k e)) ->
  amoc (fun s k e => phi (CS s k e)) m (s, e) = option_map pm (gamoc N CS m (s, e)).
Proof.
  intros CS m s e Htab. unfold amoc, gamoc.
  rewrite <- (map_map (fun k => CS s k e) phi).
  rewrite gargmax_sim.
  - destruct (gargmax N _) as [[i v]|]; reflexivity.
  - apply Forall_forall. intros v Hv. apply in_map_iff in Hv. destruct Hv as (k & <- & Hk).
    apply in_seq in Hk. apply Htab; lia.
Qed.

Definition sbs_table_ok (CS : nat -> nat -> nat -> V) (m : nat) (ivs : list (nat * nat)) : Prop :=
  forall s e k, In (s, e) ivs -> (s + m <= k)%nat -> (k + m <= e)%nat -> ok (CS s k e).

Lemma gamocs_sim : forall CS m ivs, sbs_table_ok CS m ivs ->
  amocs (fun s k e => phi (CS s k e)) m ivs = option_map (map pm) (gamocs N CS m ivs).
Proof.
  intros CS m. induction ivs as [|[s e] t IH]; intros Htab; cbn [amocs gamocs option_map map]; [reflexivity|].
  rewrite gamoc_sim by (intros k; apply Htab; left; reflexivity).
  rewrite IH by (intros s' e' k Hin; apply Htab; right; exact Hin).
  destruct (gamoc N CS m (s, e)) as [x|]; cbn [option_map]; [|reflexivity].
  destruct (gamocs N CS m t) as [r|]; reflexivity.
Qed.

Lemma gamocs_ok : forall CS m ivs am, sbs_table_ok CS m ivs -> gamocs N CS m ivs = Some am ->
  Forall ok (map snd am).
Proof.
  intros CS m ivs am Htab H. destruct (gamocs_inv N CS m ivs am H) as [Hl Hn].
  apply Forall_forall. intros v Hv. apply in_map_iff in Hv. destruct Hv as ([k v'] & <- & Hin).
  destruct (In_nth _ _ (0%nat, zero N) Hin) as (i & Hi & Ei). rewrite Hl in Hi.
  specialize (Hn i (0, 0)%nat (0%nat, zero N) Hi). rewrite Ei in Hn.
  assert (Hiv : In (nth i ivs (0, 0)%nat) ivs) by (apply nth_In; exact Hi).
  destruct (nth i ivs (0, 0)%nat) as [s e]. apply gamoc_inv in Hn. destruct Hn as (H1 & H2 & ->).
  cbn [snd]. apply (Htab s e k Hiv H1 H2).
Qed.

Lemma ggreedy_cpts_sim : forall thr ivs maxs, ok thr -> forall fuel sc, Forall ok sc ->
  greedy_cpts fuel (phi thr) ivs maxs (map phi sc) = ggreedy_cpts N fuel thr ivs maxs sc.
Proof.
  intros thr ivs maxs Hthr. induction fuel as [|f IH]; intros sc Hsc; cbn [greedy_cpts ggreedy_cpts];
    rewrite existsb_sim by assumption; destruct (negb (existsb (fun v => thr <! v) sc)); try reflexivity.
  rewrite gargmax_sim by exact Hsc.
  destruct (gargmax N sc) as [[i v]|]; cbn [option_map pm fst snd]; [|reflexivity].
  rewrite <- (kill_map_sim (fun iv => contains iv (nthN maxs i))).
  rewrite IH by (apply (kill_ok (fun iv => contains iv (nthN maxs i))); exact Hsc). reflexivity.
Qed.

Definition pm_run {A B} (r : A * list (B * V)) : A * list (B * Z) := (fst r, map pm (snd r)).

Theorem gsbs_sim : forall CS m thr ivs, sbs_table_ok CS m ivs -> ok thr ->
  sbs (fun s k e => phi (CS s k e)) m (phi thr) ivs = option_map pm_run (gsbs N CS m thr ivs).
Proof.
  intros CS m thr ivs Htab Hthr. unfold sbs, gsbs. rewrite gamocs_sim by exact Htab.
  destruct (gamocs N CS m ivs) as [am|] eqn:A; cbn [option_map]; [|reflexivity].
  rewrite map_fst_pm, map_snd_pm.
  rewrite ggreedy_cpts_sim by (try exact Hthr; apply (gamocs_ok CS m ivs am Htab A)).
  destruct (ggreedy_cpts N (length ivs) thr ivs (map fst am) (map snd am)); reflexivity.
Qed.

(** ---- circular binary segmentation ---- *)
Definition cbs_table_ok (LS : nat -> nat -> nat -> nat -> V) (m : nat) (ivs : list (nat * nat)) : Prop :=
  forall s e a z, In (s, e) ivs -> In (a, z) (anomaly_intervals s e m) -> ok (LS s a z e).

Lemma gbest_inner_sim : forall LS m s e,
  (forall a z, In (a, z) (anomaly_intervals s e m) -> ok (LS s a z e)) ->
  best_inner (fun s a z e => phi (LS s a z e)) m (s, e) = option_map pm (gbest_inner N LS m (s, e)).
Proof.
  intros LS m s e Htab. unfold best_inner, gbest_inner.
  rewrite <- (map_map (fun ab => LS s (fst ab) (snd ab) e) phi).
  rewrite gargmax_sim.
  - destruct (gargmax N _) as [[i v]|]; reflexivity.
  - apply Forall_forall. intros v Hv. apply in_map_iff in Hv. destruct Hv as ([a z] & <- & Hin).
    apply Htab. exact Hin.
Qed.

Lemma ginner_or_zero_sim : forall LS m s e,
  (forall a z, In (a, z) (anomaly_intervals s e m) -> ok (LS s a z e)) ->
  inner_or_zero (fun s a z e => phi (LS s a z e)) m (s, e) = pm (ginner_or_zero N LS m (s, e)).
Proof.
  intros LS m s e Htab. unfold inner_or_zero, ginner_or_zero. rewrite gbest_inner_sim by exact Htab.
  destruct (gbest_inner N LS m (s, e)) as [x|]; cbn [option_map]; [reflexivity|].
  unfold pm. cbn [fst snd]. rewrite phi_zero. reflexivity.
Qed.

Lemma ginner_or_zero_ok : forall LS m s e,
  (forall a z, In (a, z) (anomaly_intervals s e m) -> ok (LS s a z e)) ->
  ok (snd (ginner_or_zero N LS m (s, e))).
Proof.
  intros LS m s e Htab. unfold ginner_or_zero.
  destruct (gbest_inner N LS m (s, e)) as [[[a z] v]|] eqn:E; cbn [snd]; [|exact ok_zero].
  apply gbest_inner_inv in E. destruct E as [Hin ->]. apply Htab. exact Hin.
Qed.

Lemma gcbs_table_sim : forall LS m ivs, cbs_table_ok LS m ivs ->
  map (inner_or_zero (fun s a z e => phi (LS s a z e)) m) ivs = map pm (map (ginner_or_zero N LS m) ivs).
Proof.
  intros LS m ivs Htab. rewrite map_map. apply map_ext_in. intros [s e] Hin.
  apply ginner_or_zero_sim. intros a z. apply Htab. exact Hin.
Qed.

Lemma gcbs_table_ok : forall LS m ivs, cbs_table_ok LS m ivs ->
  Forall ok (map snd (map (ginner_or_zero N LS m) ivs)).
Proof.
  intros LS m ivs Htab. rewrite map_map. apply Forall_forall. intros v Hv.
  apply in_map_iff in Hv. destruct Hv as ([s e] & <- & Hin).
  apply ginner_or_zero_ok. intros a z. apply Htab. exact Hin.
Qed.

Lemma ggreedy_anoms_sim : forall thr ivs inner, ok thr -> forall fuel sc, Forall ok sc ->
  greedy_anoms fuel (phi thr) ivs inner (map phi sc) = ggreedy_anoms N fuel thr ivs inner sc.
Proof.
  intros thr ivs inner Hthr. induction fuel as [|f IH]; intros sc Hsc; cbn [greedy_anoms ggreedy_anoms];
    rewrite existsb_sim by assumption; destruct (negb (existsb (fun v => thr <! v) sc)); try reflexivity.
  rewrite gargmax_sim by exact Hsc.
  destruct (gargmax N sc) as [[i v]|]; cbn [option_map pm fst snd]; [|reflexivity].
  rewrite <- (kill_map_sim (fun iv => overlaps (nth i inner (0, 0)%nat) iv)).
  rewrite IH by (apply (kill_ok (fun iv => overlaps (nth i inner (0, 0)%nat) iv)); exact Hsc). reflexivity.
Qed.

Theorem gcbs_sim : forall LS m thr ivs, cbs_table_ok LS m ivs -> ok thr ->
  cbs (fun s a z e => phi (LS s a z e)) m (phi thr) ivs = option_map pm_run (gcbs N LS m thr ivs).
Proof.
  intros LS m thr ivs Htab Hthr. unfold cbs, gcbs. rewrite gcbs_table_sim by exact Htab.
  rewrite map_fst_pm, map_snd_pm.
  rewrite ggreedy_anoms_sim by (try exact Hthr; apply gcbs_table_ok; exact Htab).
  destruct (ggreedy_anoms N (length ivs) thr ivs _ _); reflexivity.
Qed.

(** ================= transfer of the specification theorems through [phi] =================
    Each theorem below is the theorem of Properties/C08.v, C07.v, C09.v of the same name, with
    [<] / [<=] on score values replaced by [ltb N] / its negation; it is DERIVED from the Z theorem
    applied to the table [phi o CS].  The premises [ok ...] say that the values compared belong to
    the domain on which [phi] is an embedding. *)
Lemma thr_nonneg : forall thr, ok thr -> thr <! zero N = false -> 0 <= phi thr.
Proof. intros thr Hok H. rewrite <- phi_zero. apply (phi_leP (zero N) thr ok_zero Hok). exact H. Qed.

(** ---------------- C08: moving window ---------------- *)
Theorem E08_changepoints_are_run_peaks : forall scores thr mdi c, Forall ok scores -> ok thr ->
  (In c (gmw_cpts N scores thr mdi) <->
   exists a z, In (a, z) (where_runs (map (fun v => thr <! v) scores)) /\ (mdi <= z - a)%nat /\ (a <= c < z)%nat /\
     (forall i, (a <= i < z)%nat -> nthV N scores c <! nthV N scores i = false) /\
     (forall i, (a <= i < c)%nat -> nthV N scores i <! nthV N scores c = true)).
Proof.
  intros scores thr mdi c Hs Hthr. rewrite <- gmw_cpts_sim by assumption.
  pose proof (C08_changepoints_are_run_peaks (map phi scores) (phi thr) mdi c) as HZ.
  rewrite gmw_runs_sim in HZ by assumption.
  assert (Hok : forall i, ok (nthV N scores i)) by (intros i; apply ok_nthV; exact Hs).
  split.
  - intros H. apply HZ in H. destruct H as (a & z & H1 & H2 & H3 & H4 & H5). exists a, z.
    split; [exact H1|]. split; [exact H2|]. split; [exact H3|]. split; intros i Hi.
    + apply phi_leP; [apply Hok | apply Hok|]. rewrite <- !nthZ_phi. apply H4. exact Hi.
    + apply phi_ltP; [apply Hok | apply Hok|]. rewrite <- !nthZ_phi. apply H5. exact Hi.
  - intros (a & z & H1 & H2 & H3 & H4 & H5). apply HZ. exists a, z.
    split; [exact H1|]. split; [exact H2|]. split; [exact H3|]. split; intros i Hi; rewrite !nthZ_phi.
    + apply phi_leP; [apply Hok | apply Hok|]. apply H4. exact Hi.
    + apply phi_ltP; [apply Hok | apply Hok|]. apply H5. exact Hi.
Qed.

Theorem E08_changepoints_sorted : forall scores thr mdi, Forall ok scores -> ok thr ->
  StronglySorted lt (gmw_cpts N scores thr mdi).
Proof.
  intros scores thr mdi Hs Hthr. rewrite <- gmw_cpts_sim by assumption. apply C08_changepoints_sorted.
Qed.

Theorem E08_changepoints_above_threshold : forall scores thr mdi c, Forall ok scores -> ok thr ->
  In c (gmw_cpts N scores thr mdi) -> (c < length scores)%nat /\ thr <! nthV N scores c = true.
Proof.
  intros scores thr mdi c Hs Hthr H. rewrite <- gmw_cpts_sim in H by assumption.
  apply C08_changepoints_above_threshold in H. rewrite map_length, nthZ_phi in H.
  destruct H as [H1 H2]. split; [exact H1|]. apply phi_ltP; [exact Hthr | apply ok_nthV; exact Hs | exact H2].
Qed.

Theorem E08_changepoints_in_range : forall CS b n thr mdi c,
  (forall t, (b <= t)%nat -> (t + b <= n)%nat -> ok (CS (t - b)%nat t (t + b)%nat)) -> ok thr ->
  thr <! zero N = false ->
  In c (snd (gmw N CS b n thr mdi)) -> (b <= c /\ c + b <= n)%nat.
Proof.
  intros CS b n thr mdi c Htab Hthr H0 H.
  apply (C08_changepoints_in_range (fun s k e => phi (CS s k e)) b n (phi thr) mdi c (thr_nonneg thr Hthr H0)).
  rewrite gmw_sim by assumption. exact H.
Qed.

(** ---------------- C07: seeded binary segmentation ---------------- *)
Section SbsRun.
Variables (CS : nat -> nat -> nat -> V) (m n : nat) (thr : V) (ivs : list (nat * nat)).
Hypothesis Htab : sbs_table_ok CS m ivs.
Hypothesis Hokthr : ok thr.
Hypothesis Hthr : thr <! zero N = false.
Hypothesis Hm : (1 <= m)%nat.
Hypothesis Hivs : forall s e, In (s, e) ivs -> (s + 2 * m <= e <= n)%nat.

Theorem E07_total : exists r, gsbs N CS m thr ivs = Some r.
Proof.
  destruct (C07_total (fun s k e => phi (CS s k e)) m (phi thr) n ivs (thr_nonneg thr Hokthr Hthr) Hm Hivs) as (r & Hr).
  rewrite gsbs_sim in Hr by assumption.
  destruct (gsbs N CS m thr ivs) as [r'|]; [exists r'; reflexivity | discriminate].
Qed.

Variables (cpts : list nat) (am : list (nat * V)).
Hypothesis Hrun : gsbs N CS m thr ivs = Some (cpts, am).

Lemma sbs_run_Z : sbs (fun s k e => phi (CS s k e)) m (phi thr) ivs = Some (cpts, map pm am).
Proof. rewrite gsbs_sim by assumption. rewrite Hrun. reflexivity. Qed.

Lemma sbs_am_ok : forall i, ok (snd (nth i am (0%nat, zero N))).
Proof.
  intros i. destruct (gsbs_inv N _ _ _ _ _ _ Hrun) as (A & _).
  change (zero N) with (snd (0%nat, zero N)). rewrite <- map_nth.
  apply Forall_nth_default; [apply (gamocs_ok CS m ivs am Htab A) | exact ok_zero].
Qed.

Theorem E07_interval_scores : length am = length ivs /\
  forall i, (i < length ivs)%nat ->
    let '(s, e) := nth i ivs (0, 0)%nat in let '(k, v) := nth i am (0%nat, zero N) in
    (s + m <= k /\ k + m <= e)%nat /\ v = CS s k e /\
    forall k', (s + m <= k' /\ k' + m <= e)%nat ->
      v <! CS s k' e = false /\ ((k' < k)%nat -> CS s k' e <! v = true).
Proof.
  destruct (C07_interval_scores _ m n _ ivs (thr_nonneg thr Hokthr Hthr) Hm Hivs _ _ sbs_run_Z) as [Hl Hs].
  rewrite map_length in Hl. split; [exact Hl|].
  intros i Hi. specialize (Hs i Hi). rewrite nth_pm in Hs.
  destruct (gsbs_inv N _ _ _ _ _ _ Hrun) as (A & _).
  destruct (gamocs_inv N _ _ _ _ A) as [_ Hn]. specialize (Hn i (0, 0)%nat (0%nat, zero N) Hi).
  assert (Hin : In (nth i ivs (0, 0)%nat) ivs) by (apply nth_In; exact Hi).
  destruct (nth i ivs (0, 0)%nat) as [s e]. destruct (nth i am (0%nat, zero N)) as [k v].
  unfold pm in Hs. cbn [fst snd] in Hs. destruct Hs as (Hk & _ & Hmax).
  apply gamoc_inv in Hn. destruct Hn as (_ & _ & Hv).
  split; [exact Hk|]. split; [exact Hv|].
  intros k' Hk'. destruct (Hmax k' Hk') as [H1 H2].
  assert (Hokv : ok v) by (rewrite Hv; apply (Htab s e k Hin); lia).
  assert (Hok' : ok (CS s k' e)) by (apply (Htab s e k' Hin); lia).
  split.
  - apply phi_leP; assumption.
  - intros Hlt. apply phi_ltP; [assumption | assumption|].
    destruct (Z.eq_dec (phi (CS s k' e)) (phi v)) as [E | E]; [apply H2 in E; lia | lia].
Qed.

Theorem E07_changepoints_supported : forall c, In c cpts ->
  exists i, (i < length ivs)%nat /\ fst (nth i am (0%nat, zero N)) = c /\
            thr <! snd (nth i am (0%nat, zero N)) = true /\ contains (nth i ivs (0, 0)%nat) c = true.
Proof.
  intros c Hc.
  destruct (C07_changepoints_supported _ m n _ ivs (thr_nonneg thr Hokthr Hthr) Hm Hivs _ _ sbs_run_Z c Hc)
    as (i & Hi & H1 & H2 & H3).
  rewrite nth_pm in H1, H2. unfold pm in H1, H2. cbn [fst snd] in H1, H2.
  exists i. split; [exact Hi|]. split; [exact H1|]. split; [|exact H3].
  apply phi_ltP; [exact Hokthr | apply sbs_am_ok | exact H2].
Qed.

Theorem E07_no_interval_left : forall i, (i < length ivs)%nat -> thr <! snd (nth i am (0%nat, zero N)) = true ->
  exists c, In c cpts /\ contains (nth i ivs (0, 0)%nat) c = true.
Proof.
  intros i Hi Hs.
  apply (C07_no_interval_left _ m n _ ivs (thr_nonneg thr Hokthr Hthr) Hm Hivs _ _ sbs_run_Z i Hi).
  rewrite nth_pm. unfold pm. cbn [snd]. apply phi_ltP; [exact Hokthr | apply sbs_am_ok | exact Hs].
Qed.

Theorem E07_changepoints_wellformed :
  (forall i, (S i < length cpts)%nat -> (nthN cpts i + m <= nthN cpts (S i))%nat) /\
  (forall c, In c cpts -> (m <= c /\ c + m <= n)%nat).
Proof.
  exact (C07_changepoints_wellformed _ m n _ ivs (thr_nonneg thr Hokthr Hthr) Hm Hivs _ _ sbs_run_Z).
Qed.

Theorem E07_threshold_monotone : forall thr' cpts' am', ok thr' -> thr' <! thr = false ->
  gsbs N CS m thr' ivs = Some (cpts', am') -> incl cpts' cpts.
Proof.
  intros thr' cpts' am' Hok' Hle Hrun'.
  apply (C07_threshold_monotone _ m n _ ivs (thr_nonneg thr Hokthr Hthr) Hm Hivs _ _ sbs_run_Z
           (phi thr') cpts' (map pm am')).
  - apply phi_leP; assumption.
  - rewrite gsbs_sim by assumption. rewrite Hrun'. reflexivity.
Qed.
End SbsRun.

(** ---------------- C09: circular binary segmentation ---------------- *)
Theorem E09_interval_scores : forall LS m s e a z v,
  (forall a z, In (a, z) (anomaly_intervals s e m) -> ok (LS s a z e)) ->
  gbest_inner N LS m (s, e) = Some ((a, z), v) ->
  In (a, z) (anomaly_intervals s e m) /\ v = LS s a z e /\
  forall a' z', In (a', z') (anomaly_intervals s e m) -> v <! LS s a' z' e = false.
Proof.
  intros LS m s e a z v Htab H. destruct (gbest_inner_inv N _ _ _ _ _ _ _ H) as [Hin Hv].
  split; [exact Hin|]. split; [exact Hv|]. intros a' z' Hin'.
  assert (HZ : best_inner (fun s a z e => phi (LS s a z e)) m (s, e) = Some ((a, z), phi v)).
  { rewrite gbest_inner_sim by exact Htab. rewrite H. reflexivity. }
  apply C09_interval_scores in HZ. destruct HZ as (_ & _ & Hmax).
  apply phi_leP; [apply Htab; exact Hin' | rewrite Hv; apply Htab; exact Hin | apply Hmax; exact Hin'].
Qed.

Theorem E09_wellformed : forall LS m thr n ivs anoms am,
  cbs_table_ok LS m ivs -> ok thr -> thr <! zero N = false -> (1 <= m)%nat ->
  (forall s e, In (s, e) ivs -> (e <= n)%nat) -> gcbs N LS m thr ivs = Some (anoms, am) ->
  (forall i, (S i < length anoms)%nat ->
      (fst (nthP anoms i) < fst (nthP anoms (S i)) /\ snd (nthP anoms i) <= fst (nthP anoms (S i)))%nat) /\
  (forall a z, In (a, z) anoms -> (1 <= a /\ a + m <= z <= n - 1)%nat) /\
  am = map (ginner_or_zero N LS m) ivs /\
  exists picks, ggreedy_anoms N (length ivs) thr ivs (map fst am) (map snd am) = Some picks /\
                anoms = sort_pairs picks /\ Permutation anoms picks.
Proof.
  intros LS m thr n ivs anoms am Htab Hokthr Hthr Hm Hivs H.
  assert (HZ : cbs (fun s a z e => phi (LS s a z e)) m (phi thr) ivs = Some (anoms, map pm am)).
  { rewrite gcbs_sim by assumption. rewrite H. reflexivity. }
  destruct (C09_wellformed _ m _ n ivs _ _ (thr_nonneg thr Hokthr Hthr) Hm Hivs HZ) as (W1 & W2 & _).
  destruct (gcbs_inv N _ _ _ _ _ _ H) as (Ham & picks & G & Hs).
  split; [exact W1|]. split; [exact W2|]. split; [exact Ham|].
  exists picks. split; [exact G|]. split; [exact Hs|]. rewrite Hs. apply sort_pairs_perm.
Qed.

Lemma ganoms_pre_Z : forall thr ivs inner sc n0, ok thr -> Forall ok sc ->
  ganoms_pre N thr ivs inner sc n0 -> anoms_pre (phi thr) ivs inner (map phi sc) n0.
Proof.
  intros thr ivs inner sc n0 Hthr Hsc (H1 & H2 & H3 & H4 & H5).
  split; [exact H1|]. split; [exact H2|]. split; [rewrite map_length; exact H3|].
  split; [apply thr_nonneg; assumption|].
  intros i Hi Hlt. apply H5; [exact Hi|]. rewrite nthZ_phi in Hlt.
  apply phi_ltP; [exact Hthr | apply ok_nthV; exact Hsc | exact Hlt].
Qed.

Theorem E09_picks_supported : forall thr ivs inner sc n0 fuel picks, ok thr -> Forall ok sc ->
  ganoms_pre N thr ivs inner sc n0 -> ggreedy_anoms N fuel thr ivs inner sc = Some picks ->
  forall ab, In ab picks -> exists i, (i < n0)%nat /\ nthP inner i = ab /\ thr <! nthV N sc i = true.
Proof.
  intros thr ivs inner sc n0 fuel picks Hthr Hsc Hpre H ab Hab.
  rewrite <- ggreedy_anoms_sim in H by assumption.
  destruct (C09_picks_supported _ _ _ _ _ _ _ (ganoms_pre_Z _ _ _ _ _ Hthr Hsc Hpre) H ab Hab) as (i & Hi & H1 & H2).
  exists i. split; [exact Hi|]. split; [exact H1|]. rewrite nthZ_phi in H2.
  apply phi_ltP; [exact Hthr | apply ok_nthV; exact Hsc | exact H2].
Qed.

Theorem E09_no_candidate_left : forall thr ivs inner sc n0 fuel picks, ok thr -> Forall ok sc ->
  ganoms_pre N thr ivs inner sc n0 -> ggreedy_anoms N fuel thr ivs inner sc = Some picks ->
  forall i, (i < n0)%nat -> thr <! nthV N sc i = true -> exists ab, In ab picks /\ overlaps ab (nthP ivs i) = true.
Proof.
  intros thr ivs inner sc n0 fuel picks Hthr Hsc Hpre H i Hi Hlt.
  rewrite <- ggreedy_anoms_sim in H by assumption.
  apply (C09_no_candidate_left _ _ _ _ _ _ _ (ganoms_pre_Z _ _ _ _ _ Hthr Hsc Hpre) H i Hi).
  rewrite nthZ_phi. apply phi_ltP; [exact Hthr | apply ok_nthV; exact Hsc | exact Hlt].
Qed.

Theorem E09_threshold_monotone : forall thr thr' ivs inner sc fuel fuel' picks picks',
  ok thr -> ok thr' -> Forall ok sc -> length ivs = length sc -> thr' <! thr = false ->
  ggreedy_anoms N fuel thr ivs inner sc = Some picks -> ggreedy_anoms N fuel' thr' ivs inner sc = Some picks' ->
  incl picks' picks.
Proof.
  intros thr thr' ivs inner sc fuel fuel' picks picks' Hthr Hthr' Hsc Hl Hle H H'.
  rewrite <- ggreedy_anoms_sim in H, H' by assumption.
  apply (C09_threshold_monotone (phi thr) (phi thr') ivs inner (map phi sc) fuel fuel' picks picks');
    [rewrite map_length; exact Hl | apply phi_leP; assumption | exact H | exact H'].
Qed.

Theorem E09_total : forall LS m thr ivs, cbs_table_ok LS m ivs -> ok thr -> thr <! zero N = false ->
  exists r, gcbs N LS m thr ivs = Some r.
Proof.
  intros LS m thr ivs Htab Hokthr Hthr.
  destruct (C09_total (fun s a z e => phi (LS s a z e)) m (phi thr) ivs (thr_nonneg thr Hokthr Hthr)) as (r & Hr).
  rewrite gcbs_sim in Hr by assumption.
  destruct (gcbs N LS m thr ivs) as [r'|]; [exists r'; reflexivity | discriminate].
Qed.

End Sim.

Print Assumptions gargmax_sim.
Print Assumptions gmw_sim.
Print Assumptions gsbs_sim.
Print Assumptions gcbs_sim.
Print Assumptions E08_changepoints_are_run_peaks.
Print Assumptions E07_interval_scores.
Print Assumptions E07_changepoints_supported.
Print Assumptions E07_no_interval_left.
Print Assumptions E07_threshold_monotone.
Print Assumptions E09_wellformed.
Print Assumptions E09_picks_supported.
