(** Specification theorems of the three greedy detectors for EVERY instance whose comparison is a
    strict weak order on the values that occur.

    Setting: [N : num] is any instance of Model/Generic.v, [ok : T N -> Prop] a set of admissible
    values (all of Z, all of R, the non-NaN binary64 numbers, ...) containing the zero of the instance,
    and [ltb N] is a strict weak order on [ok] ([swo N ok], Proofs/GenericRank.v).  The theorems
    G08_* / G07_* / G09_* are the theorems C08_* / C07_* / C09_* of Properties/ with [<], [<=] on score
    values replaced by [ltb N] and its negation; they hold for every score table whose entries, at
    the positions the detector reads, are admissible.

    Proof: the finitely many values the run reads embed into Z by their rank (GenericRank.swo_embeds);
    the generic run is simulated by the Z model on the embedded table (GenericOrder.g*_sim); the
    Z theorems apply (the E07 / E08 / E09 theorems of GenericOrder).  No law about [add], [neg] or [leb] is needed: the greedy
    detectors never use them. *)
From Coq Require Import ZArith List Bool Arith Lia Permutation Sorted.
From SK Require Import Lib.Base Model.Mw Model.Sbs Model.Capa Model.Cbs Model.Generic.
From SK Require Import Proofs.CbsProofs Proofs.GenericRank Proofs.GenericOrder.
Import ListNotations.

(** ================= statements that need no law at all ================= *)
Section NoLaw.
Variable N : num.
Notation V := (T N).

(** C08_scores *)
Theorem G08_scores : forall CS b n t, (t < n)%nat ->
  length (gmw_scores N CS b n) = n /\
  nthV N (gmw_scores N CS b n) t =
    if ((b <=? t)%nat && (t + b <=? n)%nat)%bool then CS (t - b)%nat t (t + b)%nat else zero N.
Proof. intros. split; [apply gmw_scores_length | apply gmw_scores_nth; assumption]. Qed.

(** C08_reversal *)
Theorem G08_reversal : forall CS b n t, (1 <= t < n)%nat ->
  nthV N (gmw_scores N (fun s k e => CS (n - e) (n - k) (n - s))%nat b n) t =
  nthV N (gmw_scores N CS b n) (n - t)%nat.
Proof.
  intros CS b n t Ht. rewrite !gmw_scores_nth by lia.
  destruct ((b <=? t)%nat && (t + b <=? n)%nat)%bool eqn:E1;
  destruct ((b <=? n - t)%nat && (n - t + b <=? n)%nat)%bool eqn:E2.
  - apply andb_true_iff in E1. destruct E1 as [A B].
    apply Nat.leb_le in A. apply Nat.leb_le in B. f_equal; lia.
  - exfalso. apply andb_true_iff in E1. destruct E1 as [A B].
    apply Nat.leb_le in A. apply Nat.leb_le in B.
    apply andb_false_iff in E2. destruct E2 as [C | C]; apply Nat.leb_gt in C; lia.
  - exfalso. apply andb_true_iff in E2. destruct E2 as [A B].
    apply Nat.leb_le in A. apply Nat.leb_le in B.
    apply andb_false_iff in E1. destruct E1 as [C | C]; apply Nat.leb_gt in C; lia.
  - reflexivity.
Qed.

(** C08_only_valid_cuts_matter / C08_ext *)
Theorem G08_only_valid_cuts_matter : forall CS1 CS2 b n thr mdi,
  (forall t, (b <= t)%nat -> (t + b <= n)%nat -> CS1 (t - b)%nat t (t + b)%nat = CS2 (t - b)%nat t (t + b)%nat) ->
  gmw N CS1 b n thr mdi = gmw N CS2 b n thr mdi.
Proof.
  intros CS1 CS2 b n thr mdi H. unfold gmw. rewrite (gmw_scores_ext_valid N CS1 CS2 b n H). reflexivity.
Qed.

(** C07_only_valid_cuts_matter / C07_ext *)
Theorem G07_only_valid_cuts_matter : forall CS1 CS2 m thr ivs,
  (forall s e k, In (s, e) ivs -> (s + m <= k)%nat -> (k + m <= e)%nat -> CS1 s k e = CS2 s k e) ->
  gsbs N CS1 m thr ivs = gsbs N CS2 m thr ivs.
Proof.
  intros CS1 CS2 m thr ivs H. unfold gsbs. rewrite (gamocs_ext_valid N CS1 CS2 m ivs H). reflexivity.
Qed.

(** C09_no_inner_candidate *)
Theorem G09_no_inner_candidate : forall LS m s e,
  gbest_inner N LS m (s, e) = None <-> anomaly_intervals s e m = [].
Proof. exact (gbest_inner_none N). Qed.

(** C09_only_valid_cuts_matter / C09_ext *)
Theorem G09_only_valid_cuts_matter : forall LS1 LS2 m thr ivs,
  (forall s e a z, In (s, e) ivs -> In (a, z) (anomaly_intervals s e m) -> LS1 s a z e = LS2 s a z e) ->
  gcbs N LS1 m thr ivs = gcbs N LS2 m thr ivs.
Proof.
  intros LS1 LS2 m thr ivs H. unfold gcbs.
  assert (E : map (ginner_or_zero N LS1 m) ivs = map (ginner_or_zero N LS2 m) ivs).
  { apply map_ext_in. intros [s e] Hin. unfold ginner_or_zero.
    rewrite (gbest_inner_ext_valid N LS1 LS2 m s e); [reflexivity|].
    intros a z Haz. apply H; assumption. }
  rewrite E. reflexivity.
Qed.

(** the finitely many table entries a run reads *)
Definition sbs_vals (CS : nat -> nat -> nat -> V) (m : nat) (ivs : list (nat * nat)) : list V :=
  flat_map (fun se => map (fun k => CS (fst se) k (snd se))
                          (seq (fst se + m) (snd se - m + 1 - (fst se + m)))) ivs.

Definition cbs_vals (LS : nat -> nat -> nat -> nat -> V) (m : nat) (ivs : list (nat * nat)) : list V :=
  flat_map (fun se => map (fun ab => LS (fst se) (fst ab) (snd ab) (snd se))
                          (anomaly_intervals (fst se) (snd se) m)) ivs.

Lemma sbs_vals_in : forall CS m ivs s e k, In (s, e) ivs -> (s + m <= k)%nat -> (k + m <= e)%nat ->
  In (CS s k e) (sbs_vals CS m ivs).
Proof.
  intros CS m ivs s e k Hin H1 H2. unfold sbs_vals. apply in_flat_map. exists (s, e).
  split; [exact Hin|]. cbn [fst snd]. apply in_map_iff. exists k. split; [reflexivity|].
  apply in_seq. lia.
Qed.

Lemma sbs_vals_ok : forall (ok : V -> Prop) CS m ivs, sbs_table_ok N ok CS m ivs ->
  forall x, In x (sbs_vals CS m ivs) -> ok x.
Proof.
  intros ok CS m ivs Htab x Hx. unfold sbs_vals in Hx. apply in_flat_map in Hx.
  destruct Hx as ([s e] & Hin & Hx). cbn [fst snd] in Hx. apply in_map_iff in Hx.
  destruct Hx as (k & <- & Hk). apply in_seq in Hk. apply (Htab s e k Hin); lia.
Qed.

Lemma cbs_vals_in : forall LS m ivs s e a z, In (s, e) ivs -> In (a, z) (anomaly_intervals s e m) ->
  In (LS s a z e) (cbs_vals LS m ivs).
Proof.
  intros LS m ivs s e a z Hin Haz. unfold cbs_vals. apply in_flat_map. exists (s, e).
  split; [exact Hin|]. cbn [fst snd]. apply in_map_iff. exists (a, z). split; [reflexivity | exact Haz].
Qed.

Lemma cbs_vals_ok : forall (ok : V -> Prop) LS m ivs, cbs_table_ok N ok LS m ivs ->
  forall x, In x (cbs_vals LS m ivs) -> ok x.
Proof.
  intros ok LS m ivs Htab x Hx. unfold cbs_vals in Hx. apply in_flat_map in Hx.
  destruct Hx as ([s e] & Hin & Hx). cbn [fst snd] in Hx. apply in_map_iff in Hx.
  destruct Hx as ([a z] & <- & Haz). apply (Htab s e a z Hin Haz).
Qed.
End NoLaw.

(** ================= strict weak order on the admissible values ================= *)
Section Final.
Variable N : num.
Notation V := (T N).
Notation "x <! y" := (ltb N x y) (at level 70).
Variable ok : V -> Prop.
Hypothesis Hswo : swo N ok.
Hypothesis Hok0 : ok (zero N).

(** membership in a finite list of values, the zero added in front *)
Definition listed (vals : list V) : V -> Prop := fun x => In x (zero N :: vals).

Lemma listed_zero : forall vals, listed vals (zero N).
Proof. intros vals. left. reflexivity. Qed.

Lemma listed_Forall : forall vals l, incl l vals -> Forall (listed vals) l.
Proof. intros vals l H. apply Forall_forall. intros x Hx. right. apply H. exact Hx. Qed.

Lemma ok_cons : forall x l, ok x -> (forall y, In y l -> ok y) -> forall y, In y (x :: l) -> ok y.
Proof. intros x l Hx Hl y [<- | Hy]; [exact Hx | apply Hl; exact Hy]. Qed.

Lemma ok_Forall : forall l, Forall ok l -> forall y, In y l -> ok y.
Proof. intros l H. apply Forall_forall. exact H. Qed.

(** ---------------- C08: moving window ---------------- *)

(** the changepoints are exactly the first maxima of the maximal above-threshold runs of length
    >= min_detection_interval *)
Theorem G08_changepoints_are_run_peaks : forall scores thr mdi c, Forall ok scores -> ok thr ->
  (In c (gmw_cpts N scores thr mdi) <->
   exists a z, In (a, z) (where_runs (map (fun v => thr <! v) scores)) /\ (mdi <= z - a)%nat /\ (a <= c < z)%nat /\
     (forall i, (a <= i < z)%nat -> nthV N scores c <! nthV N scores i = false) /\
     (forall i, (a <= i < c)%nat -> nthV N scores i <! nthV N scores c = true)).
Proof.
  intros scores thr mdi c Hs Hthr.
  apply (with_embedding N ok (thr :: scores) _ Hswo Hok0 (ok_cons _ _ Hthr (ok_Forall _ Hs))).
  intros phi Hphi.
  apply (E08_changepoints_are_run_peaks N (listed _) phi Hphi (listed_zero _)).
  - apply listed_Forall. apply incl_tl, incl_refl.
  - right. left. reflexivity.
Qed.

Theorem G08_changepoints_sorted : forall scores thr mdi, Forall ok scores -> ok thr ->
  StronglySorted lt (gmw_cpts N scores thr mdi).
Proof.
  intros scores thr mdi Hs Hthr.
  apply (with_embedding N ok (thr :: scores) _ Hswo Hok0 (ok_cons _ _ Hthr (ok_Forall _ Hs))).
  intros phi Hphi.
  apply (E08_changepoints_sorted N (listed _) phi Hphi).
  - apply listed_Forall. apply incl_tl, incl_refl.
  - right. left. reflexivity.
Qed.

Theorem G08_changepoints_above_threshold : forall scores thr mdi c, Forall ok scores -> ok thr ->
  In c (gmw_cpts N scores thr mdi) -> (c < length scores)%nat /\ thr <! nthV N scores c = true.
Proof.
  intros scores thr mdi c Hs Hthr.
  apply (with_embedding N ok (thr :: scores) _ Hswo Hok0 (ok_cons _ _ Hthr (ok_Forall _ Hs))).
  intros phi Hphi.
  apply (E08_changepoints_above_threshold N (listed _) phi Hphi (listed_zero _)).
  - apply listed_Forall. apply incl_tl, incl_refl.
  - right. left. reflexivity.
Qed.

Definition mw_table_ok (CS : nat -> nat -> nat -> V) (b n : nat) : Prop :=
  forall t, (b <= t)%nat -> (t + b <= n)%nat -> ok (CS (t - b)%nat t (t + b)%nat).

Lemma mw_table_scores_ok : forall CS b n, mw_table_ok CS b n -> Forall ok (gmw_scores N CS b n).
Proof. intros CS b n H. apply (gmw_scores_ok N ok Hok0). exact H. Qed.

(** changepoints lie in [b, n-b] (C04) *)
Theorem G08_changepoints_in_range : forall CS b n thr mdi c, mw_table_ok CS b n -> ok thr ->
  thr <! zero N = false -> In c (snd (gmw N CS b n thr mdi)) -> (b <= c /\ c + b <= n)%nat.
Proof.
  intros CS b n thr mdi c Htab Hthr H0 Hc. cbn [gmw snd] in Hc.
  pose proof (mw_table_scores_ok CS b n Htab) as Hs.
  destruct (G08_changepoints_above_threshold _ _ _ _ Hs Hthr Hc) as [Hlen Hlt].
  rewrite gmw_scores_length in Hlen. rewrite gmw_scores_nth in Hlt by exact Hlen.
  destruct ((b <=? c)%nat && (c + b <=? n)%nat)%bool eqn:E.
  - apply andb_true_iff in E. destruct E as [E1 E2]. apply Nat.leb_le in E1. apply Nat.leb_le in E2. lia.
  - rewrite H0 in Hlt. discriminate.
Qed.

(** the run as a whole: scores, peaks, order, range *)
Theorem G08_run : forall CS b n thr mdi scores cpts, mw_table_ok CS b n -> ok thr ->
  gmw N CS b n thr mdi = (scores, cpts) ->
  scores = gmw_scores N CS b n /\ Forall ok scores /\ StronglySorted lt cpts /\
  forall c, In c cpts <->
    exists a z, In (a, z) (where_runs (map (fun v => thr <! v) scores)) /\ (mdi <= z - a)%nat /\ (a <= c < z)%nat /\
      (forall i, (a <= i < z)%nat -> nthV N scores c <! nthV N scores i = false) /\
      (forall i, (a <= i < c)%nat -> nthV N scores i <! nthV N scores c = true).
Proof.
  intros CS b n thr mdi scores cpts Htab Hthr H. unfold gmw in H. inversion H; subst. clear H.
  pose proof (mw_table_scores_ok CS b n Htab) as Hs.
  split; [reflexivity|]. split; [exact Hs|]. split.
  - apply G08_changepoints_sorted; assumption.
  - intros c. apply G08_changepoints_are_run_peaks; assumption.
Qed.

(** ---------------- C07: seeded binary segmentation ---------------- *)
Section SbsRun.
Variables (CS : nat -> nat -> nat -> V) (m n : nat) (thr : V) (ivs : list (nat * nat)).
Hypothesis Htab : sbs_table_ok N ok CS m ivs.
Hypothesis Hokthr : ok thr.
Hypothesis Hthr : thr <! zero N = false.
Hypothesis Hm : (1 <= m)%nat.
Hypothesis Hivs : forall s e, In (s, e) ivs -> (s + 2 * m <= e <= n)%nat.

Let vals (extra : list V) : list V := extra ++ sbs_vals N CS m ivs.

Lemma sbs_vals_all_ok : forall extra, Forall ok extra -> forall x, In x (vals extra) -> ok x.
Proof.
  intros extra He x Hx. unfold vals in Hx. apply in_app_or in Hx. destruct Hx as [Hx | Hx].
  - apply (ok_Forall _ He). exact Hx.
  - apply (sbs_vals_ok N ok CS m ivs Htab). exact Hx.
Qed.

Lemma sbs_table_listed : forall extra, sbs_table_ok N (listed (vals extra)) CS m ivs.
Proof.
  intros extra s e k Hin H1 H2. right. unfold vals. apply in_or_app. right.
  apply sbs_vals_in; assumption.
Qed.

Lemma extra_listed : forall extra x, In x extra -> listed (vals extra) x.
Proof. intros extra x Hx. right. unfold vals. apply in_or_app. left. exact Hx. Qed.

(** total on every admissible input (C14) *)
Theorem G07_total : exists r, gsbs N CS m thr ivs = Some r.
Proof.
  apply (with_embedding N ok (vals [thr]) _ Hswo Hok0
           (sbs_vals_all_ok [thr] (Forall_cons _ Hokthr (Forall_nil _)))).
  intros phi Hphi.
  apply (E07_total N (listed _) phi Hphi (listed_zero _) CS m n thr ivs (sbs_table_listed _)
           (extra_listed [thr] thr (or_introl eq_refl)) Hthr Hm Hivs).
Qed.

Variables (cpts : list nat) (am : list (nat * V)).
Hypothesis Hrun : gsbs N CS m thr ivs = Some (cpts, am).

(** reported score and maximiser of every interval = max and FIRST argmax over admissible splits *)
Theorem G07_interval_scores : length am = length ivs /\
  forall i, (i < length ivs)%nat ->
    let '(s, e) := nth i ivs (0, 0)%nat in let '(k, v) := nth i am (0%nat, zero N) in
    (s + m <= k /\ k + m <= e)%nat /\ v = CS s k e /\
    forall k', (s + m <= k' /\ k' + m <= e)%nat ->
      v <! CS s k' e = false /\ ((k' < k)%nat -> CS s k' e <! v = true).
Proof.
  apply (with_embedding N ok (vals [thr]) _ Hswo Hok0
           (sbs_vals_all_ok [thr] (Forall_cons _ Hokthr (Forall_nil _)))).
  intros phi Hphi.
  apply (E07_interval_scores N (listed _) phi Hphi (listed_zero _) CS m n thr ivs (sbs_table_listed _)
           (extra_listed [thr] thr (or_introl eq_refl)) Hthr Hm Hivs cpts am Hrun).
Qed.

(** every changepoint is the maximiser of an interval that contains it and scores above the threshold *)
Theorem G07_changepoints_supported : forall c, In c cpts ->
  exists i, (i < length ivs)%nat /\ fst (nth i am (0%nat, zero N)) = c /\
            thr <! snd (nth i am (0%nat, zero N)) = true /\ contains (nth i ivs (0, 0)%nat) c = true.
Proof.
  apply (with_embedding N ok (vals [thr]) _ Hswo Hok0
           (sbs_vals_all_ok [thr] (Forall_cons _ Hokthr (Forall_nil _)))).
  intros phi Hphi.
  apply (E07_changepoints_supported N (listed _) phi Hphi (listed_zero _) CS m n thr ivs (sbs_table_listed _)
           (extra_listed [thr] thr (or_introl eq_refl)) Hthr Hm Hivs cpts am Hrun).
Qed.

(** no above-threshold interval is left without a changepoint inside it *)
Theorem G07_no_interval_left : forall i, (i < length ivs)%nat -> thr <! snd (nth i am (0%nat, zero N)) = true ->
  exists c, In c cpts /\ contains (nth i ivs (0, 0)%nat) c = true.
Proof.
  apply (with_embedding N ok (vals [thr]) _ Hswo Hok0
           (sbs_vals_all_ok [thr] (Forall_cons _ Hokthr (Forall_nil _)))).
  intros phi Hphi.
  apply (E07_no_interval_left N (listed _) phi Hphi (listed_zero _) CS m n thr ivs (sbs_table_listed _)
           (extra_listed [thr] thr (or_introl eq_refl)) Hthr Hm Hivs cpts am Hrun).
Qed.

(** changepoints are at least m apart and leave m samples at both ends (C04) *)
Theorem G07_changepoints_wellformed :
  (forall i, (S i < length cpts)%nat -> (nthN cpts i + m <= nthN cpts (S i))%nat) /\
  (forall c, In c cpts -> (m <= c /\ c + m <= n)%nat).
Proof.
  apply (with_embedding N ok (vals [thr]) _ Hswo Hok0
           (sbs_vals_all_ok [thr] (Forall_cons _ Hokthr (Forall_nil _)))).
  intros phi Hphi.
  apply (E07_changepoints_wellformed N (listed _) phi Hphi (listed_zero _) CS m n thr ivs (sbs_table_listed _)
           (extra_listed [thr] thr (or_introl eq_refl)) Hthr Hm Hivs cpts am Hrun).
Qed.

(** raising the threshold can only remove changepoints *)
Theorem G07_threshold_monotone : forall thr' cpts' am', ok thr' -> thr' <! thr = false ->
  gsbs N CS m thr' ivs = Some (cpts', am') -> incl cpts' cpts.
Proof.
  intros thr' cpts' am' Hok' Hle Hrun'.
  apply (with_embedding N ok (vals [thr; thr']) _ Hswo Hok0
           (sbs_vals_all_ok [thr; thr'] (Forall_cons _ Hokthr (Forall_cons _ Hok' (Forall_nil _))))).
  intros phi Hphi.
  apply (E07_threshold_monotone N (listed _) phi Hphi (listed_zero _) CS m n thr ivs (sbs_table_listed _)
           (extra_listed [thr; thr'] thr (or_introl eq_refl)) Hthr Hm Hivs cpts am Hrun thr' cpts' am'
           (extra_listed [thr; thr'] thr' (or_intror (or_introl eq_refl))) Hle Hrun').
Qed.
End SbsRun.

(** ---------------- C09: circular binary segmentation ---------------- *)

(** reported score / inner interval of a candidate = max / a maximiser over its inner candidates *)
Theorem G09_interval_scores : forall LS m s e a z v,
  (forall a z, In (a, z) (anomaly_intervals s e m) -> ok (LS s a z e)) ->
  gbest_inner N LS m (s, e) = Some ((a, z), v) ->
  In (a, z) (anomaly_intervals s e m) /\ v = LS s a z e /\
  forall a' z', In (a', z') (anomaly_intervals s e m) -> v <! LS s a' z' e = false.
Proof.
  intros LS m s e a z v Htab H.
  assert (Htab' : cbs_table_ok N ok LS m [(s, e)]).
  { intros s' e' a' z' [E | []] Hin. inversion E; subst. apply Htab. exact Hin. }
  apply (with_embedding N ok (cbs_vals N LS m [(s, e)]) _ Hswo Hok0 (cbs_vals_ok N ok LS m _ Htab')).
  intros phi Hphi.
  apply (E09_interval_scores N (listed _) phi Hphi LS m s e a z v); [|exact H].
  intros a' z' Hin. right. apply cbs_vals_in; [left; reflexivity | exact Hin].
Qed.

Lemma cbs_vals_all_ok : forall LS m ivs extra, cbs_table_ok N ok LS m ivs -> Forall ok extra ->
  forall x, In x (extra ++ cbs_vals N LS m ivs) -> ok x.
Proof.
  intros LS m ivs extra Htab He x Hx. apply in_app_or in Hx. destruct Hx as [Hx | Hx].
  - apply (ok_Forall _ He). exact Hx.
  - apply (cbs_vals_ok N ok LS m ivs Htab). exact Hx.
Qed.

Lemma cbs_table_listed : forall LS m ivs extra, cbs_table_ok N (listed (extra ++ cbs_vals N LS m ivs)) LS m ivs.
Proof.
  intros LS m ivs extra s e a z Hin Haz. right. apply in_or_app. right. apply cbs_vals_in; assumption.
Qed.

(** anomalies are sorted, pairwise disjoint, of length >= m, strictly inside the data (C04);
    they are the sorted picks of the greedy loop over the per-interval maximisers *)
Theorem G09_wellformed : forall LS m thr n ivs anoms am,
  cbs_table_ok N ok LS m ivs -> ok thr -> thr <! zero N = false -> (1 <= m)%nat ->
  (forall s e, In (s, e) ivs -> (e <= n)%nat) -> gcbs N LS m thr ivs = Some (anoms, am) ->
  (forall i, (S i < length anoms)%nat ->
      (fst (nthP anoms i) < fst (nthP anoms (S i)) /\ snd (nthP anoms i) <= fst (nthP anoms (S i)))%nat) /\
  (forall a z, In (a, z) anoms -> (1 <= a /\ a + m <= z <= n - 1)%nat) /\
  am = map (ginner_or_zero N LS m) ivs /\
  exists picks, ggreedy_anoms N (length ivs) thr ivs (map fst am) (map snd am) = Some picks /\
                anoms = sort_pairs picks /\ Permutation anoms picks.
Proof.
  intros LS m thr n ivs anoms am Htab Hokthr Hthr Hm Hivs H.
  apply (with_embedding N ok ([thr] ++ cbs_vals N LS m ivs) _ Hswo Hok0
           (cbs_vals_all_ok LS m ivs [thr] Htab (Forall_cons _ Hokthr (Forall_nil _)))).
  intros phi Hphi.
  apply (E09_wellformed N (listed _) phi Hphi (listed_zero _) LS m thr n ivs anoms am (cbs_table_listed LS m ivs [thr]));
    try assumption.
  right. left. reflexivity.
Qed.

(** total on every admissible input (C14) *)
Theorem G09_total : forall LS m thr ivs, cbs_table_ok N ok LS m ivs -> ok thr -> thr <! zero N = false ->
  exists r, gcbs N LS m thr ivs = Some r.
Proof.
  intros LS m thr ivs Htab Hokthr Hthr.
  apply (with_embedding N ok ([thr] ++ cbs_vals N LS m ivs) _ Hswo Hok0
           (cbs_vals_all_ok LS m ivs [thr] Htab (Forall_cons _ Hokthr (Forall_nil _)))).
  intros phi Hphi.
  apply (E09_total N (listed _) phi Hphi (listed_zero _) LS m thr ivs (cbs_table_listed LS m ivs [thr])); [|exact Hthr].
  right. left. reflexivity.
Qed.

(** greedy characterisation of the selection loop, for any three parallel lists *)
Theorem G09_picks_supported : forall thr ivs inner sc n0 fuel picks, ok thr -> Forall ok sc ->
  ganoms_pre N thr ivs inner sc n0 -> ggreedy_anoms N fuel thr ivs inner sc = Some picks ->
  forall ab, In ab picks -> exists i, (i < n0)%nat /\ nthP inner i = ab /\ thr <! nthV N sc i = true.
Proof.
  intros thr ivs inner sc n0 fuel picks Hthr Hsc.
  apply (with_embedding N ok (thr :: sc) _ Hswo Hok0 (ok_cons _ _ Hthr (ok_Forall _ Hsc))).
  intros phi Hphi.
  apply (E09_picks_supported N (listed _) phi Hphi (listed_zero _)).
  - right. left. reflexivity.
  - apply listed_Forall. apply incl_tl, incl_refl.
Qed.

Theorem G09_no_candidate_left : forall thr ivs inner sc n0 fuel picks, ok thr -> Forall ok sc ->
  ganoms_pre N thr ivs inner sc n0 -> ggreedy_anoms N fuel thr ivs inner sc = Some picks ->
  forall i, (i < n0)%nat -> thr <! nthV N sc i = true -> exists ab, In ab picks /\ overlaps ab (nthP ivs i) = true.
Proof.
  intros thr ivs inner sc n0 fuel picks Hthr Hsc.
  apply (with_embedding N ok (thr :: sc) _ Hswo Hok0 (ok_cons _ _ Hthr (ok_Forall _ Hsc))).
  intros phi Hphi.
  apply (E09_no_candidate_left N (listed _) phi Hphi (listed_zero _)).
  - right. left. reflexivity.
  - apply listed_Forall. apply incl_tl, incl_refl.
Qed.

Theorem G09_threshold_monotone : forall thr thr' ivs inner sc fuel fuel' picks picks',
  ok thr -> ok thr' -> Forall ok sc -> length ivs = length sc -> thr' <! thr = false ->
  ggreedy_anoms N fuel thr ivs inner sc = Some picks -> ggreedy_anoms N fuel' thr' ivs inner sc = Some picks' ->
  incl picks' picks.
Proof.
  intros thr thr' ivs inner sc fuel fuel' picks picks' Hthr Hthr' Hsc.
  apply (with_embedding N ok (thr :: thr' :: sc) _ Hswo Hok0
           (ok_cons _ _ Hthr (ok_cons _ _ Hthr' (ok_Forall _ Hsc)))).
  intros phi Hphi.
  apply (E09_threshold_monotone N (listed _) phi Hphi (listed_zero _)).
  - right. left. reflexivity.
  - right. right. left. reflexivity.
  - apply listed_Forall. apply incl_tl, incl_tl, incl_refl.
Qed.

(** the standing assumptions of the selection loop hold for the table of a run: every candidate
    scoring above a non-negative threshold has an inner interval, which overlaps it *)
Theorem G09_run_pre : forall LS m thr ivs, cbs_table_ok N ok LS m ivs -> ok thr -> thr <! zero N = false ->
  let am := map (ginner_or_zero N LS m) ivs in
  Forall ok (map snd am) /\ ganoms_pre N thr ivs (map fst am) (map snd am) (length ivs).
Proof.
  intros LS m thr ivs Htab Hokthr Hthr am.
  assert (Hsc : Forall ok (map snd am)) by (apply (gcbs_table_ok N ok Hok0); exact Htab).
  split; [exact Hsc|].
  unfold ganoms_pre, am. rewrite !map_length.
  split; [reflexivity|]. split; [reflexivity|]. split; [reflexivity|]. split; [exact Hthr|].
  intros i Hi Hlt. unfold nthV, nthP in *.
  rewrite (ArgmaxLemmas.nth_map_lt snd _ i ((0, 0)%nat, zero N)) in Hlt by (rewrite map_length; exact Hi).
  rewrite (ArgmaxLemmas.nth_map_lt fst _ i ((0, 0)%nat, zero N)) by (rewrite map_length; exact Hi).
  rewrite (ArgmaxLemmas.nth_map_lt (ginner_or_zero N LS m) ivs i (0, 0)%nat) in * by exact Hi.
  destruct (nth i ivs (0, 0)%nat) as [s e]. unfold ginner_or_zero in *.
  destruct (gbest_inner N LS m (s, e)) as [[[a z] v]|] eqn:B; cbn [fst snd] in *.
  - apply gbest_inner_inv in B. destruct B as [B _]. apply anomaly_intervals_spec in B.
    unfold overlaps. cbn [fst snd]. apply andb_true_iff. split; apply Nat.ltb_lt; lia.
  - rewrite Hthr in Hlt. discriminate.
Qed.

(** on the run itself: every reported anomaly is the inner interval of a candidate scoring above the
    threshold; no above-threshold candidate is left without an overlapping anomaly *)
Theorem G09_anomalies_supported_and_complete : forall LS m thr ivs anoms am,
  cbs_table_ok N ok LS m ivs -> ok thr -> thr <! zero N = false ->
  gcbs N LS m thr ivs = Some (anoms, am) ->
  (forall ab, In ab anoms -> exists i, (i < length ivs)%nat /\ fst (nth i am ((0, 0)%nat, zero N)) = ab /\
                                       thr <! snd (nth i am ((0, 0)%nat, zero N)) = true) /\
  (forall i, (i < length ivs)%nat -> thr <! snd (nth i am ((0, 0)%nat, zero N)) = true ->
             exists ab, In ab anoms /\ overlaps ab (nthP ivs i) = true).
Proof.
  intros LS m thr ivs anoms am Htab Hokthr Hthr H.
  destruct (gcbs_inv N _ _ _ _ _ _ H) as (Ham & picks & G & Hs).
  pose proof (G09_run_pre LS m thr ivs Htab Hokthr Hthr) as Hp. cbv zeta in Hp. rewrite <- Ham in Hp.
  destruct Hp as [Hsc Hpre]. pose proof (sort_pairs_perm picks) as P.
  assert (Efst : forall i, nthP (map fst am) i = fst (nth i am ((0, 0)%nat, zero N))).
  { intros i. unfold nthP. change (0, 0)%nat with (fst ((0, 0)%nat, zero N)) at 1. apply map_nth. }
  assert (Esnd : forall i, nthV N (map snd am) i = snd (nth i am ((0, 0)%nat, zero N))).
  { intros i. unfold nthV. change (zero N) with (snd ((0, 0)%nat, zero N)) at 1. apply map_nth. }
  split.
  - intros ab Hab. rewrite Hs in Hab. apply (Permutation_in _ P) in Hab.
    destruct (G09_picks_supported _ _ _ _ _ _ _ Hokthr Hsc Hpre G ab Hab) as (i & Hi & H1 & H2).
    exists i. rewrite <- Efst, <- Esnd. split; [exact Hi|]. split; assumption.
  - intros i Hi Hlt. rewrite <- Esnd in Hlt.
    destruct (G09_no_candidate_left _ _ _ _ _ _ _ Hokthr Hsc Hpre G i Hi Hlt) as (ab & Hab & Hov).
    exists ab. split; [|exact Hov]. rewrite Hs. apply (Permutation_in _ (Permutation_sym P)). exact Hab.
Qed.

End Final.

Print Assumptions G08_scores.
Print Assumptions G08_reversal.
Print Assumptions G08_only_valid_cuts_matter.
Print Assumptions G08_changepoints_are_run_peaks.
Print Assumptions G08_changepoints_sorted.
Print Assumptions G08_changepoints_above_threshold.
Print Assumptions G08_changepoints_in_range.
Print Assumptions G08_run.
Print Assumptions G07_total.
Print Assumptions G07_interval_scores.
Print Assumptions G07_changepoints_supported.
Print Assumptions G07_no_interval_left.
Print Assumptions G07_changepoints_wellformed.
Print Assumptions G07_threshold_monotone.
Print Assumptions G07_only_valid_cuts_matter.
Print Assumptions G09_interval_scores.
Print Assumptions G09_no_inner_candidate.
Print Assumptions G09_wellformed.
Print Assumptions G09_total.
Print Assumptions G09_picks_supported.
Print Assumptions G09_no_candidate_left.
Print Assumptions G09_threshold_monotone.
Print Assumptions G09_run_pre.
Print Assumptions G09_anomalies_supported_and_complete.
Print Assumptions G09_only_valid_cuts_matter.
