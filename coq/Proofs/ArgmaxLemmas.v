(** General facts reused by the SBS / CBS / MW proofs:
    - first-index argmax / argmin specifications,
    - list lookups (nth of map/seq/firstn/skipn/combine),
    - a generic insertion sort (sort_nat and sort_pairs are instances),
    - ForallOrdPairs helpers,
    - a generic index-level greedy selection loop [ggreedy], of which
      Model.Sbs.greedy_cpts and Model.Cbs.greedy_anoms are instances. *)
From Coq Require Import ZArith List Lia Bool Arith Permutation Sorted.
From SK Require Import Lib.Base.
Import ListNotations.
Open Scope Z_scope.

(** ---------- argmax ---------- *)
Lemma argmax_from_spec : forall l bi b i ri rv,
  argmax_from bi b i l = (ri, rv) ->
  b <= rv /\ (forall j, (j < length l)%nat -> nth j l 0 <= rv) /\
  ((ri = bi /\ rv = b) \/
   (exists j, ri = (i + j)%nat /\ (j < length l)%nat /\ nth j l 0 = rv /\ b < rv /\
              forall j', (j' < j)%nat -> nth j' l 0 < rv)).
Proof.
  induction l as [|x t IH]; intros bi b i ri rv H; simpl in H.
  - inversion H; subst. split; [lia|]. split; [intros j Hj; simpl in Hj; lia|]. left; auto.
  - destruct (b <? x) eqn:E.
    + apply Z.ltb_lt in E. apply IH in H. destruct H as (H1 & H2 & H3).
      split; [lia|]. split.
      * intros [|j] Hj; simpl in *; [lia| apply H2; lia].
      * right. destruct H3 as [[-> ->] | (j & -> & Hj & Hn & Hlt & Hfirst)].
        -- exists 0%nat. simpl. split; [lia|]. split; [lia|]. split; [reflexivity|].
           split; [lia|]. intros j' Hj'; lia.
        -- exists (S j). simpl. split; [lia|]. split; [lia|]. split; [assumption|].
           split; [lia|]. intros [|j'] Hj'; [lia| apply Hfirst; lia].
    + apply Z.ltb_ge in E. apply IH in H. destruct H as (H1 & H2 & H3).
      split; [lia|]. split.
      * intros [|j] Hj; simpl in *; [lia| apply H2; lia].
      * destruct H3 as [[-> ->] | (j & -> & Hj & Hn & Hlt & Hfirst)].
        -- left; auto.
        -- right. exists (S j). simpl. split; [lia|]. split; [lia|]. split; [assumption|].
           split; [lia|]. intros [|j'] Hj'; [lia| apply Hfirst; lia].
Qed.

Theorem argmax_spec : forall l i v,
  argmax l = Some (i, v) ->
  (i < length l)%nat /\ nth i l 0 = v /\
  (forall j, (j < length l)%nat -> nth j l 0 <= v) /\
  (forall j, (j < i)%nat -> nth j l 0 < v).
Proof.
  intros [|x t] i v H; simpl in H; [discriminate|].
  inversion H as [H0]. apply argmax_from_spec in H0.
  destruct H0 as (H1 & H2 & [[-> ->] | (j & -> & Hj & Hn & Hlt & Hfirst)]).
  - simpl. split; [lia|]. split; [reflexivity|]. split.
    + intros [|j] Hj; [lia| apply H2; lia].
    + intros j Hj; lia.
  - simpl. split; [lia|]. split; [assumption|]. split.
    + intros [|j'] Hj'; [lia| apply H2; lia].
    + intros [|j'] Hj'; [lia| apply Hfirst; lia].
Qed.

Theorem argmax_none : forall l, argmax l = None <-> l = [].
Proof. intros [|x t]; simpl; split; intro H; try reflexivity; discriminate. Qed.

Lemma argmax_some : forall l, l <> [] -> exists i v, argmax l = Some (i, v).
Proof.
  intros [|x t] H; [contradiction|]. simpl.
  destruct (argmax_from 0 x 1 t) as [i v]. eauto.
Qed.

(** the first maximiser is unique: any index with the two argmax properties is it *)
Lemma argmax_unique : forall l i v c,
  argmax l = Some (i, v) -> (c < length l)%nat ->
  (forall j, (j < length l)%nat -> nth j l 0 <= nth c l 0) ->
  (forall j, (j < c)%nat -> nth j l 0 < nth c l 0) -> c = i.
Proof.
  intros l i v c H Hc Hmax Hfirst. apply argmax_spec in H.
  destruct H as (Hi & Hv & Hle & Hlt).
  destruct (Nat.lt_trichotomy c i) as [L | [E | L]]; [|assumption|].
  - specialize (Hlt c L). specialize (Hmax i Hi). lia.
  - specialize (Hfirst i L). specialize (Hle c Hc). lia.
Qed.

(** ---------- argmin ---------- *)
Lemma argmin_from_spec : forall l bi b i ri rv,
  argmin_from bi b i l = (ri, rv) ->
  rv <= b /\ (forall j, (j < length l)%nat -> rv <= nth j l 0) /\
  ((ri = bi /\ rv = b) \/
   (exists j, ri = (i + j)%nat /\ (j < length l)%nat /\ nth j l 0 = rv /\ rv < b /\
              forall j', (j' < j)%nat -> rv < nth j' l 0)).
Proof.
  induction l as [|x t IH]; intros bi b i ri rv H; simpl in H.
  - inversion H; subst. split; [lia|]. split; [intros j Hj; simpl in Hj; lia|]. left; auto.
  - destruct (x <? b) eqn:E.
    + apply Z.ltb_lt in E. apply IH in H. destruct H as (H1 & H2 & H3).
      split; [lia|]. split.
      * intros [|j] Hj; simpl in *; [lia| apply H2; lia].
      * right. destruct H3 as [[-> ->] | (j & -> & Hj & Hn & Hlt & Hfirst)].
        -- exists 0%nat. simpl. split; [lia|]. split; [lia|]. split; [reflexivity|].
           split; [lia|]. intros j' Hj'; lia.
        -- exists (S j). simpl. split; [lia|]. split; [lia|]. split; [assumption|].
           split; [lia|]. intros [|j'] Hj'; [lia| apply Hfirst; lia].
    + apply Z.ltb_ge in E. apply IH in H. destruct H as (H1 & H2 & H3).
      split; [lia|]. split.
      * intros [|j] Hj; simpl in *; [lia| apply H2; lia].
      * destruct H3 as [[-> ->] | (j & -> & Hj & Hn & Hlt & Hfirst)].
        -- left; auto.
        -- right. exists (S j). simpl. split; [lia|]. split; [lia|]. split; [assumption|].
           split; [lia|]. intros [|j'] Hj'; [lia| apply Hfirst; lia].
Qed.

Theorem argmin_spec : forall l i v,
  argmin l = Some (i, v) ->
  (i < length l)%nat /\ nth i l 0 = v /\
  (forall j, (j < length l)%nat -> nth j l 0 >= v) /\
  (forall j, (j < i)%nat -> nth j l 0 > v).
Proof.
  intros [|x t] i v H; simpl in H; [discriminate|].
  inversion H as [H0]. apply argmin_from_spec in H0.
  destruct H0 as (H1 & H2 & [[-> ->] | (j & -> & Hj & Hn & Hlt & Hfirst)]).
  - simpl. split; [lia|]. split; [reflexivity|]. split.
    + intros [|j] Hj; [lia| apply Z.le_ge; apply H2; lia].
    + intros j Hj; lia.
  - simpl. split; [lia|]. split; [assumption|]. split.
    + intros [|j'] Hj'; [lia| apply Z.le_ge; apply H2; lia].
    + intros [|j'] Hj'; [lia| apply Z.lt_gt; apply Hfirst; lia].
Qed.

Theorem argmin_none : forall l, argmin l = None <-> l = [].
Proof. intros [|x t]; simpl; split; intro H; try reflexivity; discriminate. Qed.

Lemma argmin_some : forall l, l <> [] -> exists i v, argmin l = Some (i, v).
Proof.
  intros [|x t] H; [contradiction|]. simpl.
  destruct (argmin_from 0 x 1 t) as [i v]. eauto.
Qed.

(** ---------- maxl / minl ---------- *)
Lemma maxl_ge_default : forall l d, d <= maxl d l.
Proof.
  unfold maxl. induction l as [|x t IH]; intros d; simpl; [lia|].
  specialize (IH (Z.max d x)). lia.
Qed.
Lemma maxl_ge : forall l d x, In x l -> x <= maxl d l.
Proof.
  unfold maxl. induction l as [|y t IH]; intros d x H; simpl in *; [contradiction|].
  destruct H as [-> | H].
  - pose proof (maxl_ge_default t (Z.max d x)) as G. unfold maxl in G. lia.
  - apply IH; assumption.
Qed.
Lemma maxl_attained : forall l d, maxl d l = d \/ In (maxl d l) l.
Proof.
  unfold maxl. induction l as [|y t IH]; intros d; simpl; [left; reflexivity|].
  destruct (IH (Z.max d y)) as [E | I].
  - rewrite E. destruct (Z.max_spec d y) as [[_ ->] | [_ ->]]; auto.
  - right; right; assumption.
Qed.
Lemma minl_le_default : forall l d, minl d l <= d.
Proof.
  unfold minl. induction l as [|x t IH]; intros d; simpl; [lia|].
  specialize (IH (Z.min d x)). lia.
Qed.
Lemma minl_le : forall l d x, In x l -> minl d l <= x.
Proof.
  unfold minl. induction l as [|y t IH]; intros d x H; simpl in *; [contradiction|].
  destruct H as [-> | H].
  - pose proof (minl_le_default t (Z.min d x)) as G. unfold minl in G. lia.
  - apply IH; assumption.
Qed.
Lemma minl_attained : forall l d, minl d l = d \/ In (minl d l) l.
Proof.
  unfold minl. induction l as [|y t IH]; intros d; simpl; [left; reflexivity|].
  destruct (IH (Z.min d y)) as [E | I].
  - rewrite E. destruct (Z.min_spec d y) as [[_ ->] | [_ ->]]; auto.
  - right; right; assumption.
Qed.

(** ---------- list lookups ---------- *)
Lemma nth_map_seq : forall {A} (f : nat -> A) a len j d,
  (j < len)%nat -> nth j (map f (seq a len)) d = f (a + j)%nat.
Proof.
  intros A f a len. revert a. induction len as [|len IH]; intros a j d H; [lia|].
  simpl. destruct j as [|j].
  - f_equal; lia.
  - rewrite IH by lia. f_equal; lia.
Qed.

Lemma nth_map_lt : forall {A B} (f : A -> B) l j d d',
  (j < length l)%nat -> nth j (map f l) d' = f (nth j l d).
Proof.
  intros A B f. induction l as [|x t IH]; intros j d d' H; simpl in *; [lia|].
  destruct j; [reflexivity| apply IH; lia].
Qed.

Lemma nth_firstn_lt : forall {A} k (l : list A) j d,
  (j < k)%nat -> nth j (firstn k l) d = nth j l d.
Proof.
  intros A. induction k as [|k IH]; intros l j d H; [lia|].
  destruct l as [|x t]; simpl; [reflexivity|].
  destruct j; [reflexivity| apply IH; lia].
Qed.

Lemma nth_skipn_add : forall {A} s (l : list A) j d,
  nth j (skipn s l) d = nth (s + j) l d.
Proof.
  intros A. induction s as [|s IH]; intros l j d; simpl; [reflexivity|].
  destruct l as [|x t]; [destruct j; reflexivity| apply IH].
Qed.

Lemma map_combine_seq : forall {A B C} (f : A * B -> C) (a : list A) (b : list B) da db,
  length a = length b ->
  map f (combine a b) = map (fun j => f (nth j a da, nth j b db)) (seq 0 (length b)).
Proof.
  intros A B C f a b da db H.
  apply nth_ext with (d := f (da, db)) (d' := f (da, db)).
  - rewrite !map_length, combine_length, seq_length. lia.
  - intros j Hj. rewrite map_length, combine_length in Hj.
    rewrite nth_map_seq by lia. simpl.
    rewrite (nth_map_lt f (combine a b) j (da, db)) by (rewrite combine_length; lia).
    rewrite combine_nth by assumption. reflexivity.
Qed.

(** ---------- generic insertion sort ---------- *)
Section InsSort.
Context {A : Type}.
Variable leb : A -> A -> bool.

Fixpoint ins (x : A) (l : list A) : list A :=
  match l with [] => [x] | y :: t => if leb x y then x :: l else y :: ins x t end.
Definition isort (l : list A) : list A := fold_right ins [] l.

(** the order produced: [x] stands before [y] only if [leb x y] or not [leb y x] *)
Definition ins_rel (x y : A) : Prop := leb x y = true \/ leb y x = false.

Lemma ins_perm : forall x l, Permutation (ins x l) (x :: l).
Proof.
  intros x. induction l as [|y t IH]; simpl.
  - apply Permutation_refl.
  - destruct (leb x y).
    + apply Permutation_refl.
    + eapply perm_trans; [apply perm_skip; exact IH | apply perm_swap].
Qed.

Lemma isort_perm : forall l, Permutation (isort l) l.
Proof.
  induction l as [|x t IH]; simpl; [constructor|].
  eapply perm_trans; [apply ins_perm|]. apply perm_skip. exact IH.
Qed.

Lemma ins_hdrel : forall a x l,
  ins_rel a x -> HdRel ins_rel a l -> HdRel ins_rel a (ins x l).
Proof.
  intros a x [|y t] Hax H; simpl.
  - constructor; assumption.
  - destruct (leb x y); constructor; [assumption|]. inversion H; assumption.
Qed.

Lemma ins_sorted : forall x l, Sorted ins_rel l -> Sorted ins_rel (ins x l).
Proof.
  intros x. induction l as [|y t IH]; intros H; simpl.
  - constructor; constructor.
  - destruct (leb x y) eqn:E.
    + constructor; [assumption|]. constructor. left; assumption.
    + inversion H as [|? ? Hs Hh]; subst. constructor; [apply IH; assumption|].
      apply ins_hdrel; [right; assumption | assumption].
Qed.

Lemma isort_sorted : forall l, Sorted ins_rel (isort l).
Proof.
  induction l as [|x t IH]; simpl; [constructor|]. apply ins_sorted. exact IH.
Qed.
End InsSort.

(** consecutive elements of a [Sorted] list are related *)
Lemma Sorted_nth : forall {A} (R : A -> A -> Prop) l d,
  Sorted R l -> forall i, (S i < length l)%nat -> R (nth i l d) (nth (S i) l d).
Proof.
  intros A R l d H. induction H as [|x l Hs IH Hh]; intros i Hi; simpl in Hi; [lia|].
  destruct i as [|i].
  - destruct l as [|y t]; simpl in *; [lia|]. inversion Hh; assumption.
  - change (R (nth i l d) (nth (S i) l d)). apply IH. lia.
Qed.

Lemma nth_Sorted : forall {A} (R : A -> A -> Prop) l d,
  (forall i, (S i < length l)%nat -> R (nth i l d) (nth (S i) l d)) -> Sorted R l.
Proof.
  intros A R l d. induction l as [|x t IH]; intros H; [constructor|].
  constructor.
  - apply IH. intros i Hi. apply (H (S i)). simpl. lia.
  - destruct t as [|y t']; constructor. apply (H 0%nat). simpl. lia.
Qed.

(** ---------- ForallOrdPairs helpers ---------- *)
Lemma FOP_nth : forall {A} (R : A -> A -> Prop) l d,
  ForallOrdPairs R l ->
  forall a b, (a < b < length l)%nat -> R (nth a l d) (nth b l d).
Proof.
  intros A R l d H. induction H as [|x l HF HP IH]; intros a b Hab; simpl in *; [lia|].
  destruct b as [|b]; [lia|]. destruct a as [|a].
  - rewrite Forall_forall in HF. apply HF. apply nth_In. lia.
  - apply IH. lia.
Qed.

Lemma FOP_map : forall {A B} (f : A -> B) (R : B -> B -> Prop) l,
  ForallOrdPairs (fun x y => R (f x) (f y)) l -> ForallOrdPairs R (map f l).
Proof.
  intros A B f R l H. induction H as [|x l HF HP IH]; simpl; constructor; [|exact IH].
  rewrite Forall_forall in *. intros y Hy. apply in_map_iff in Hy.
  destruct Hy as (z & <- & Hz). apply HF; assumption.
Qed.

Lemma FOP_impl_Forall : forall {A} (R R' : A -> A -> Prop) (P : A -> Prop) l,
  ForallOrdPairs R l -> Forall P l ->
  (forall x y, P x -> P y -> R x y -> R' x y) -> ForallOrdPairs R' l.
Proof.
  intros A R R' P l H. induction H as [|x l HF HP IH]; intros HPl Himp; constructor.
  - inversion HPl as [|? ? Px Pl]; subst. rewrite Forall_forall in *.
    intros y Hy. apply Himp; auto.
  - inversion HPl; subst. apply IH; assumption.
Qed.

Lemma FOP_sym_In : forall {A} (R : A -> A -> Prop) l,
  ForallOrdPairs R l -> (forall x y, R x y -> R y x) ->
  (forall x, In x l -> ~ R x x) ->
  NoDup l /\ forall x y, In x l -> In y l -> x <> y -> R x y.
Proof.
  intros A R l H Hsym. induction H as [|x l HF HP IH]; intros Hirr.
  - split; [constructor|]. intros x y [].
  - destruct IH as [ND Hall]; [intros y Hy; apply Hirr; right; assumption|].
    rewrite Forall_forall in HF. split.
    + constructor; [|assumption]. intro Hin. apply (Hirr x); [left; reflexivity|].
      apply HF; assumption.
    + intros a b [<- | Ha] [<- | Hb] Hne.
      * contradiction.
      * apply HF; assumption.
      * apply Hsym. apply HF; assumption.
      * apply Hall; assumption.
Qed.

(** ---------- generic greedy selection over indices ----------
    [K i j = true]: picking index [i] resets the score of index [j] to 0.
    Returns the picked indices in the order they are made. *)
Definition kill_scores (K : nat -> nat -> bool) (i : nat) (scores : list Z) : list Z :=
  map (fun j => if K i j then 0 else nthZ scores j) (seq 0 (length scores)).

Fixpoint ggreedy (fuel : nat) (thr : Z) (K : nat -> nat -> bool) (scores : list Z)
  : option (list nat) :=
  if negb (existsb (fun v => thr <? v) scores) then Some [] else
  match fuel with
  | O => None
  | S f =>
    match argmax scores with
    | None => Some []
    | Some (i, _) =>
      match ggreedy f thr K (kill_scores K i scores) with
      | Some r => Some (i :: r)
      | None => None
      end
    end
  end.

Lemma kill_length : forall K i s, length (kill_scores K i s) = length s.
Proof. intros. unfold kill_scores. rewrite map_length, seq_length. reflexivity. Qed.

Lemma kill_nth : forall K i s j, (j < length s)%nat ->
  nthZ (kill_scores K i s) j = if K i j then 0 else nthZ s j.
Proof.
  intros K i s j H. unfold kill_scores, nthZ at 1. rewrite nth_map_seq by assumption.
  reflexivity.
Qed.

Lemma kill_above : forall thr K i s j, 0 <= thr -> (j < length s)%nat ->
  thr < nthZ (kill_scores K i s) j ->
  K i j = false /\ nthZ (kill_scores K i s) j = nthZ s j.
Proof.
  intros thr K i s j Hthr Hj H. rewrite kill_nth in * by assumption.
  destruct (K i j); [lia| split; reflexivity].
Qed.

Lemma existsb_false_le : forall thr scores,
  existsb (fun v => thr <? v) scores = false ->
  forall j, (j < length scores)%nat -> nthZ scores j <= thr.
Proof.
  intros thr scores E j Hj. destruct (Z_lt_le_dec thr (nthZ scores j)) as [L|L]; [|exact L].
  assert (X : existsb (fun v => thr <? v) scores = true).
  { apply existsb_exists. exists (nthZ scores j). split; [apply nth_In; exact Hj|].
    apply Z.ltb_lt; exact L. }
  congruence.
Qed.

Lemma argmax_above : forall thr scores,
  existsb (fun v => thr <? v) scores = true ->
  exists i v, argmax scores = Some (i, v) /\ (i < length scores)%nat /\
              nthZ scores i = v /\ thr < v.
Proof.
  intros thr scores E. apply existsb_exists in E. destruct E as (x & Hx & Hlt).
  apply Z.ltb_lt in Hlt.
  destruct (argmax_some scores) as (i & v & Ha); [intros ->; contradiction|].
  exists i, v. pose proof (argmax_spec _ _ _ Ha) as (Hi & Hv & Hle & _).
  split; [exact Ha|]. split; [exact Hi|]. split; [exact Hv|].
  destruct (In_nth _ _ 0 Hx) as (j & Hj & Hnj). specialize (Hle j Hj). lia.
Qed.

(** inversion of one loop iteration *)
Lemma ggreedy_step : forall fuel thr K scores p,
  ggreedy fuel thr K scores = Some p ->
  (p = [] /\ forall j, (j < length scores)%nat -> nthZ scores j <= thr) \/
  (exists f i v r, fuel = S f /\ argmax scores = Some (i, v) /\ (i < length scores)%nat /\
     nthZ scores i = v /\ thr < v /\
     ggreedy f thr K (kill_scores K i scores) = Some r /\ p = i :: r).
Proof.
  intros fuel thr K scores p H.
  destruct (existsb (fun v => thr <? v) scores) eqn:E.
  - right. destruct fuel as [|f]; simpl in H; rewrite E in H; simpl in H; [discriminate|].
    destruct (argmax_above _ _ E) as (i & v & Ha & Hi & Hv & Hlt).
    rewrite Ha in H.
    destruct (ggreedy f thr K (kill_scores K i scores)) as [r|] eqn:G; [|discriminate].
    inversion H; subst p. exists f, i, v, r. repeat (split; [assumption || reflexivity|]).
    reflexivity.
  - left. destruct fuel as [|f]; simpl in H; rewrite E in H; simpl in H;
      inversion H; (split; [reflexivity | apply existsb_false_le; exact E]).
Qed.

(** number of entries above the threshold: the termination measure *)
Fixpoint cnt (thr : Z) (l : list Z) : nat :=
  match l with [] => 0%nat | x :: t => ((if (thr <? x)%Z then 1 else 0) + cnt thr t)%nat end.

Lemma cnt_le_length : forall thr l, (cnt thr l <= length l)%nat.
Proof.
  intros thr. induction l as [|x t IH]; simpl; [lia|]. destruct (thr <? x); lia.
Qed.

Lemma cnt_le_gen : forall thr l l', length l = length l' ->
  (forall j, (j < length l)%nat -> thr < nth j l' 0 -> thr < nth j l 0) ->
  (cnt thr l' <= cnt thr l)%nat.
Proof.
  intros thr. induction l as [|x t IH]; intros [|x' t'] Hlen H; simpl in *; try lia.
  assert (IH' : (cnt thr t' <= cnt thr t)%nat).
  { apply IH; [lia|]. intros j Hj. apply (H (S j)). lia. }
  specialize (H 0%nat). simpl in H.
  destruct (thr <? x') eqn:E'; destruct (thr <? x) eqn:E; lia.
Qed.

Lemma cnt_lt_gen : forall thr l l', length l = length l' ->
  (forall j, (j < length l)%nat -> thr < nth j l' 0 -> thr < nth j l 0) ->
  forall i, (i < length l)%nat -> thr < nth i l 0 -> ~ thr < nth i l' 0 ->
  (cnt thr l' < cnt thr l)%nat.
Proof.
  intros thr. induction l as [|x t IH]; intros [|x' t'] Hlen H i Hi Hgt Hngt; simpl in *; try lia.
  destruct i as [|i].
  - assert (IH' : (cnt thr t' <= cnt thr t)%nat).
    { apply cnt_le_gen; [lia|]. intros j Hj. apply (H (S j)). lia. }
    destruct (thr <? x') eqn:E'; destruct (thr <? x) eqn:E; lia.
  - assert (IH' : (cnt thr t' < cnt thr t)%nat).
    { apply (IH t' ltac:(lia)) with (i := i); try assumption; try lia.
      intros j Hj. apply (H (S j)). lia. }
    specialize (H 0%nat). simpl in H.
    destruct (thr <? x') eqn:E'; destruct (thr <? x) eqn:E; lia.
Qed.

Definition self_kill (thr : Z) (K : nat -> nat -> bool) (scores : list Z) : Prop :=
  forall i, (i < length scores)%nat -> thr < nthZ scores i -> K i i = true.

Lemma self_kill_preserved : forall thr K i s, 0 <= thr ->
  self_kill thr K s -> self_kill thr K (kill_scores K i s).
Proof.
  intros thr K i s Hthr H j Hj Hlt. rewrite kill_length in Hj.
  destruct (kill_above thr K i s j Hthr Hj Hlt) as [_ E]. apply H; [assumption|]. lia.
Qed.

Lemma cnt_kill_lt : forall thr K i s, 0 <= thr ->
  (i < length s)%nat -> thr < nthZ s i -> K i i = true ->
  (cnt thr (kill_scores K i s) < cnt thr s)%nat.
Proof.
  intros thr K i s Hthr Hi Hlt HK.
  apply cnt_lt_gen with (i := i); try assumption.
  - rewrite kill_length; reflexivity.
  - intros j Hj Hj'. destruct (kill_above thr K i s j Hthr Hj Hj') as [_ E].
    unfold nthZ in E. lia.
  - change (~ thr < nthZ (kill_scores K i s) i). rewrite kill_nth by assumption.
    rewrite HK. lia.
Qed.

Theorem ggreedy_terminates : forall thr K, 0 <= thr ->
  forall fuel scores, self_kill thr K scores -> (cnt thr scores <= fuel)%nat ->
  exists p, ggreedy fuel thr K scores = Some p /\ (length p <= cnt thr scores)%nat.
Proof.
  intros thr K Hthr. induction fuel as [|f IH]; intros scores Hsk Hc; simpl;
    destruct (existsb (fun v => thr <? v) scores) eqn:E; simpl;
    try (exists []; split; [reflexivity| simpl; lia]);
    destruct (argmax_above _ _ E) as (i & v & Ha & Hi & Hv & Hlt); subst v;
    pose proof (cnt_kill_lt thr K i scores Hthr Hi Hlt (Hsk i Hi Hlt)) as Hdec.
  - lia.
  - rewrite Ha.
    destruct (IH (kill_scores K i scores)) as (p & Hp & Hlen);
      [apply self_kill_preserved; assumption | lia |].
    rewrite Hp. exists (i :: p). split; [reflexivity| simpl; lia].
Qed.

Theorem ggreedy_supported : forall thr K, 0 <= thr ->
  forall p fuel scores, ggreedy fuel thr K scores = Some p ->
  forall i, In i p -> (i < length scores)%nat /\ thr < nthZ scores i.
Proof.
  intros thr K Hthr. induction p as [|i0 r IH]; intros fuel scores H i Hin; [contradiction|].
  apply ggreedy_step in H.
  destruct H as [[H _] | (f & i1 & v & r1 & _ & Ha & Hi & Hv & Hlt & Hrec & Hp)]; [discriminate|].
  inversion Hp; subst i1 r1. destruct Hin as [<- | Hin].
  - split; [assumption | lia].
  - destruct (IH _ _ Hrec i Hin) as [Hl Hgt]. rewrite kill_length in Hl.
    destruct (kill_above thr K i0 scores i Hthr Hl Hgt) as [_ E]. split; [assumption | lia].
Qed.

Theorem ggreedy_complete : forall thr K, 0 <= thr ->
  forall p fuel scores, ggreedy fuel thr K scores = Some p ->
  forall j, (j < length scores)%nat -> thr < nthZ scores j ->
  exists i, In i p /\ K i j = true.
Proof.
  intros thr K Hthr. induction p as [|i0 r IH]; intros fuel scores H j Hj Hlt;
    apply ggreedy_step in H;
    destruct H as [[H Hall] | (f & i1 & v & r1 & _ & Ha & Hi & Hv & Hgt & Hrec & Hp)];
    try discriminate.
  - specialize (Hall j Hj). lia.
  - inversion Hp; subst i1 r1. destruct (K i0 j) eqn:EK.
    + exists i0. split; [left; reflexivity | assumption].
    + destruct (IH _ _ Hrec j) as (i & Hin & HK).
      * rewrite kill_length; assumption.
      * rewrite kill_nth by assumption. rewrite EK. assumption.
      * exists i. split; [right; assumption | assumption].
Qed.

(** an earlier pick never kills a later pick *)
Theorem ggreedy_fop : forall thr K, 0 <= thr ->
  forall p fuel scores, ggreedy fuel thr K scores = Some p ->
  ForallOrdPairs (fun i j => K i j = false) p.
Proof.
  intros thr K Hthr. induction p as [|i0 r IH]; intros fuel scores H; [constructor|].
  apply ggreedy_step in H.
  destruct H as [[H _] | (f & i1 & v & r1 & _ & Ha & Hi & Hv & Hgt & Hrec & Hp)]; [discriminate|].
  inversion Hp; subst i1 r1. constructor; [|eapply IH; exact Hrec].
  rewrite Forall_forall. intros j Hj.
  destruct (ggreedy_supported thr K Hthr _ _ _ Hrec j Hj) as [Hl Hlt].
  rewrite kill_length in Hl.
  destruct (kill_above thr K i0 scores j Hthr Hl Hlt) as [E _]. exact E.
Qed.

(** the pick sequence does not depend on the threshold; a higher one stops earlier *)
Theorem ggreedy_threshold_mono : forall thr thr' K, thr <= thr' ->
  forall p' fuel' fuel scores p,
  ggreedy fuel thr K scores = Some p -> ggreedy fuel' thr' K scores = Some p' ->
  exists rest, p = p' ++ rest.
Proof.
  intros thr thr' K Hle. induction p' as [|i0 r' IH]; intros fuel' fuel scores p H H'.
  - exists p. reflexivity.
  - apply ggreedy_step in H'.
    destruct H' as [[H' _] | (f' & i1 & v & r1 & _ & Ha & Hi & Hv & Hgt & Hrec' & Hp')];
      [discriminate|].
    inversion Hp'; subst i1 r1.
    apply ggreedy_step in H.
    destruct H as [[_ Hall] | (f & i2 & v2 & r & _ & Ha2 & _ & _ & _ & Hrec & Hp)].
    + specialize (Hall i0 Hi). lia.
    + rewrite Ha in Ha2. inversion Ha2; subst i2 v2.
      destruct (IH _ _ _ _ Hrec Hrec') as (rest & Hr). exists rest. subst p r. reflexivity.
Qed.

Print Assumptions argmax_spec.
Print Assumptions argmax_none.
Print Assumptions argmin_spec.
Print Assumptions argmin_none.
Print Assumptions isort_perm.
Print Assumptions isort_sorted.
Print Assumptions ggreedy_terminates.
Print Assumptions ggreedy_supported.
Print Assumptions ggreedy_complete.
Print Assumptions ggreedy_fop.
Print Assumptions ggreedy_threshold_mono.
