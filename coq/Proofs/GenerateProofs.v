(** Proofs about the executable model Model/Generate.v (data generators).

    Everything is proved for an arbitrary number type [num] and arbitrary
    [affine] / [add] operations.

    A. shape          : apply_row_length, apply_seg_length, apply_all_length,
                        apply_all_row_length, changing_shape, anomalous_shape,
                        alternating_shape
    B. placement      : apply_seg_nth, apply_row_nth, apply_all_disjoint,
                        consecutive_disjoint, consecutive_cover, changing_placement,
                        anomalous_placement, alternating_cpts, alternating_placement
    C. validation     : changing_err_*, anomalous_err_*, changing_ok_iff,
                        anomalous_ok_iff
    D. outliers       : add_outliers_length, add_outliers_nth, linspace_int_*,
                        positions_ok_consequences, positions_ok_count
    E. non-vacuity    : closed examples over Z. *)
From Coq Require Import List Arith Bool Lia Permutation ZArith.
Import ListNotations.
From SK Require Import Model.Generate.

(* ------------------------------------------------------------------ *)
(** * Generic list lemmas *)

Lemma combine_seq_length : forall (A : Type) (x : list A) (s : nat),
  length (combine (seq s (length x)) x) = length x.
Proof.
  intros A x s. rewrite combine_length, seq_length. apply Nat.min_id.
Qed.

Lemma map_combine_seq_nth :
  forall (A B : Type) (f : nat * A -> B) (x : list A) (s i : nat) (dA : A) (dB : B),
  i < length x ->
  nth i (map f (combine (seq s (length x)) x)) dB = f (s + i, nth i x dA).
Proof.
  intros A B f x. induction x as [|h t IH]; intros s i dA dB Hi; simpl in *.
  - lia.
  - destruct i as [|i].
    + rewrite Nat.add_0_r. reflexivity.
    + rewrite IH with (dA := dA) by lia.
      replace (S s + i) with (s + S i) by lia. reflexivity.
Qed.

Lemma nth_map_seq : forall (B : Type) (f : nat -> B) (s k i : nat) (d : B),
  i < k -> nth i (map f (seq s k)) d = f (s + i).
Proof.
  intros B f s k i d Hi.
  rewrite (nth_indep _ d (f 0)) by (rewrite map_length, seq_length; exact Hi).
  rewrite map_nth. rewrite seq_nth by exact Hi. reflexivity.
Qed.

Lemma nth_error_map_seq : forall (B : Type) (f : nat -> B) (s k i : nat),
  i < k -> nth_error (map f (seq s k)) i = Some (f (s + i)).
Proof.
  intros B f s k i Hi.
  rewrite (nth_error_nth' _ (f 0)) by (rewrite map_length, seq_length; exact Hi).
  rewrite nth_map_seq by exact Hi. reflexivity.
Qed.

Lemma nth_repeat_lt : forall (A : Type) (a d : A) (n j : nat),
  j < n -> nth j (repeat a n) d = a.
Proof.
  intros A a d n. induction n as [|n IH]; intros j Hj; simpl.
  - lia.
  - destruct j as [|j]; [reflexivity | apply IH; lia].
Qed.

Lemma last_nth_eq : forall (A : Type) (l : list A) (d : A),
  last l d = nth (length l - 1) l d.
Proof.
  intros A l d. induction l as [|h t IH]; simpl.
  - reflexivity.
  - destruct t as [|h' t'].
    + reflexivity.
    + rewrite IH. simpl. rewrite Nat.sub_0_r. reflexivity.
Qed.

Lemma existsb_false_iff : forall (A : Type) (f : A -> bool) (l : list A),
  existsb f l = false <-> (forall x, In x l -> f x = false).
Proof.
  intros A f l. induction l as [|h t IH]; simpl.
  - split; [intros _ x Hx; contradiction | reflexivity].
  - rewrite orb_false_iff, IH. split.
    + intros [Hh Ht] x [Hx | Hx]; [subst; exact Hh | apply Ht; exact Hx].
    + intros H. split; [apply H; left; reflexivity | intros x Hx; apply H; right; exact Hx].
Qed.

Lemma recycle_id : forall (A : Type) (l : list A) (k : nat),
  length l = k -> recycle l k = l.
Proof.
  intros A l k Hl. destruct l as [|x [|y t]]; simpl in *; subst; reflexivity.
Qed.

(* ------------------------------------------------------------------ *)
(** * Row ranges *)

Definition no_overlap (r1 r2 : nat * nat) : Prop :=
  forall i, ~ (fst r1 <= i < snd r1 /\ fst r2 <= i < snd r2).

(** pairwise: no row index lies in two of the half-open ranges [a,b).
    A range with a >= b is empty and overlaps nothing. *)
Fixpoint disjoint_ranges (l : list (nat * nat)) : Prop :=
  match l with
  | [] => True
  | r :: t => Forall (no_overlap r) t /\ disjoint_ranges t
  end.

(** non-decreasing changepoints, the first one at least [lo] *)
Fixpoint nondecr (lo : nat) (cpts : list nat) : Prop :=
  match cpts with
  | [] => True
  | c :: t => lo <= c /\ nondecr c t
  end.

Lemma consecutive_length : forall cpts prev n,
  length (consecutive prev cpts n) = S (length cpts).
Proof.
  induction cpts as [|c t IH]; intros prev n; simpl.
  - reflexivity.
  - rewrite IH. reflexivity.
Qed.

Lemma consecutive_starts : forall cpts prev n r,
  nondecr prev cpts -> In r (consecutive prev cpts n) -> prev <= fst r.
Proof.
  induction cpts as [|c t IH]; intros prev n r Hnd Hin; simpl in *.
  - destruct Hin as [Heq | []]. subst r. simpl. lia.
  - destruct Hnd as [Hle Hnd]. destruct Hin as [Heq | Hin].
    + subst r. simpl. lia.
    + specialize (IH c n r Hnd Hin). lia.
Qed.

Lemma consecutive_disjoint_gen : forall cpts prev n,
  nondecr prev cpts -> disjoint_ranges (consecutive prev cpts n).
Proof.
  induction cpts as [|c t IH]; intros prev n Hnd; simpl in *.
  - split; [constructor | exact I].
  - destruct Hnd as [Hle Hnd]. split.
    + apply Forall_forall. intros r Hr i [H1 H2]. simpl in H1.
      pose proof (consecutive_starts t c n r Hnd Hr) as Hs. lia.
    + apply IH. exact Hnd.
Qed.

Theorem consecutive_disjoint : forall cpts n,
  nondecr 0 cpts -> disjoint_ranges (consecutive 0 cpts n).
Proof. intros cpts n Hnd. apply consecutive_disjoint_gen. exact Hnd. Qed.

Lemma consecutive_cover_gen : forall cpts prev n i,
  prev <= i < n ->
  exists k a b, nth_error (consecutive prev cpts n) k = Some (a, b) /\ a <= i < b.
Proof.
  induction cpts as [|c t IH]; intros prev n i Hi; simpl.
  - exists 0, prev, n. split; [reflexivity | exact Hi].
  - destruct (lt_dec i c) as [Hlt | Hge].
    + exists 0, prev, c. split; [reflexivity | lia].
    + destruct (IH c n i) as [k [a [b [Hk Hab]]]]; [lia|].
      exists (S k), a, b. split; [exact Hk | exact Hab].
Qed.

(** no sortedness is needed for the cover *)
Theorem consecutive_cover : forall cpts n i,
  i < n ->
  exists k a b, nth_error (consecutive 0 cpts n) k = Some (a, b) /\ a <= i < b.
Proof. intros cpts n i Hi. apply consecutive_cover_gen. lia. Qed.

(* ------------------------------------------------------------------ *)
Section GenerateProofs.
Variable num : Type.
Variable affine : num -> num -> num -> num.
Variable add : num -> num -> num.

(** * A. Shape *)

Lemma apply_row_length : forall mu va d row,
  length (apply_row num affine mu va d row) = length row.
Proof.
  intros mu va d row. unfold apply_row. rewrite map_length. apply combine_seq_length.
Qed.

Lemma apply_seg_length : forall x a b mu va d,
  length (apply_seg num affine x a b mu va d) = length x.
Proof.
  intros x a b mu va d. unfold apply_seg. rewrite map_length. apply combine_seq_length.
Qed.

Lemma apply_all_length : forall segs x d,
  length (apply_all num affine x segs d) = length x.
Proof.
  induction segs as [|[[[a b] mu] va] t IH]; intros x d; simpl.
  - reflexivity.
  - rewrite IH. apply apply_seg_length.
Qed.

(** * B. Placement *)

Theorem apply_seg_nth : forall x a b mu va d i,
  i < length x ->
  nth i (apply_seg num affine x a b mu va d) [] =
  if (a <=? i) && (i <? b) then apply_row num affine mu va d (nth i x []) else nth i x [].
Proof.
  intros x a b mu va d i Hi. unfold apply_seg.
  rewrite map_combine_seq_nth with (dA := @nil num) by exact Hi.
  simpl. reflexivity.
Qed.

Lemma apply_seg_nth_out : forall x a b mu va d i,
  ~ a <= i < b ->
  nth i (apply_seg num affine x a b mu va d) [] = nth i x [].
Proof.
  intros x a b mu va d i Hout.
  destruct (lt_dec i (length x)) as [Hi | Hi].
  - rewrite apply_seg_nth by exact Hi.
    destruct ((a <=? i) && (i <? b)) eqn:E; [|reflexivity].
    apply andb_true_iff in E. destruct E as [E1 E2].
    apply Nat.leb_le in E1. apply Nat.ltb_lt in E2. exfalso. apply Hout. lia.
  - rewrite !nth_overflow; [reflexivity | lia | rewrite apply_seg_length; lia].
Qed.

Lemma apply_seg_nth_in : forall x a b mu va d i,
  i < length x -> a <= i < b ->
  nth i (apply_seg num affine x a b mu va d) [] = apply_row num affine mu va d (nth i x []).
Proof.
  intros x a b mu va d i Hi Hab. rewrite apply_seg_nth by exact Hi.
  replace (a <=? i) with true by (symmetry; apply Nat.leb_le; lia).
  replace (i <? b) with true by (symmetry; apply Nat.ltb_lt; lia).
  reflexivity.
Qed.

Lemma apply_seg_row_length : forall x a b mu va d i,
  length (nth i (apply_seg num affine x a b mu va d) []) = length (nth i x []).
Proof.
  intros x a b mu va d i.
  destruct (lt_dec i (length x)) as [Hi | Hi].
  - rewrite apply_seg_nth by exact Hi.
    destruct ((a <=? i) && (i <? b)); [apply apply_row_length | reflexivity].
  - rewrite !nth_overflow; [reflexivity | lia | rewrite apply_seg_length; lia].
Qed.

Theorem apply_all_row_length : forall segs x d i,
  length (nth i (apply_all num affine x segs d) []) = length (nth i x []).
Proof.
  induction segs as [|[[[a b] mu] va] t IH]; intros x d i; simpl.
  - reflexivity.
  - rewrite IH. apply apply_seg_row_length.
Qed.

Lemma bc_nth : forall (v : list num) (d : num) (j : nat),
  j < length v -> bc num v d j = nth j v d.
Proof.
  intros v d j Hj. destruct v as [|x [|y t]]; simpl in *.
  - lia.
  - destruct j as [|j]; [reflexivity | lia].
  - reflexivity.
Qed.

(** any defaults [d'], [d''] may be used on the two sides *)
Theorem apply_row_nth : forall mu va d row j d' d'',
  j < length row ->
  nth j (apply_row num affine mu va d row) d' =
  affine (bc num mu d j) (bc num va d j) (nth j row d'').
Proof.
  intros mu va d row j d' d'' Hj. unfold apply_row.
  rewrite map_combine_seq_nth with (dA := d'') by exact Hj.
  simpl. reflexivity.
Qed.

Definition seg_iv (s : seg num) : nat * nat := (fst (fst (fst s)), snd (fst (fst s))).

Definition disjoint_segs (segs : list (seg num)) : Prop :=
  disjoint_ranges (map seg_iv segs).

Lemma apply_all_untouched : forall segs x d i,
  (forall a b mu va, In (a, b, mu, va) segs -> ~ a <= i < b) ->
  nth i (apply_all num affine x segs d) [] = nth i x [].
Proof.
  induction segs as [|[[[a b] mu] va] t IH]; intros x d i H; simpl.
  - reflexivity.
  - rewrite IH.
    + apply apply_seg_nth_out. apply (H a b mu va). left. reflexivity.
    + intros a' b' mu' va' Hin. apply (H a' b' mu' va'). right. exact Hin.
Qed.

Lemma apply_all_hit : forall segs x d i a b mu va,
  disjoint_segs segs -> i < length x -> In (a, b, mu, va) segs -> a <= i < b ->
  nth i (apply_all num affine x segs d) [] = apply_row num affine mu va d (nth i x []).
Proof.
  unfold disjoint_segs.
  induction segs as [|[[[a0 b0] mu0] va0] t IH]; intros x d i a b mu va Hdis Hi Hin Hab.
  - contradiction.
  - simpl in Hdis. destruct Hdis as [Hfa Hdt]. rewrite Forall_forall in Hfa.
    simpl. destruct Hin as [Heq | Hin].
    + inversion Heq; subst a0 b0 mu0 va0. rewrite apply_all_untouched.
      * apply apply_seg_nth_in; assumption.
      * intros a' b' mu' va' Hin' Hab'.
        apply (Hfa (seg_iv (a', b', mu', va')) (in_map seg_iv _ _ Hin') i).
        unfold seg_iv; simpl. lia.
    + rewrite (IH _ d i a b mu va Hdt); try assumption.
      * rewrite apply_seg_nth_out; [reflexivity|].
        intros Hab0.
        apply (Hfa (seg_iv (a, b, mu, va)) (in_map seg_iv _ _ Hin) i).
        unfold seg_iv; simpl. lia.
      * rewrite apply_seg_length. exact Hi.
Qed.

Theorem apply_all_disjoint : forall segs x d i,
  disjoint_segs segs -> i < length x ->
  (forall a b mu va, In (a, b, mu, va) segs -> a <= i < b ->
     nth i (apply_all num affine x segs d) [] = apply_row num affine mu va d (nth i x []))
  /\
  ((forall a b mu va, In (a, b, mu, va) segs -> ~ a <= i < b) ->
     nth i (apply_all num affine x segs d) [] = nth i x []).
Proof.
  intros segs x d i Hdis Hi. split.
  - intros a b mu va Hin Hab. apply (apply_all_hit segs x d i a b mu va); assumption.
  - intros Hout. apply apply_all_untouched. exact Hout.
Qed.

(** ** zip4 *)

Lemma zip4_iv : forall ivs ms vs,
  length ms = length ivs -> length vs = length ivs ->
  map seg_iv (zip4 num ivs ms vs) = ivs.
Proof.
  induction ivs as [|[a b] ti IH]; intros ms vs Hm Hv; simpl.
  - reflexivity.
  - destruct ms as [|m tm]; [discriminate|]. destruct vs as [|v tv]; [discriminate|].
    simpl in *. rewrite IH by lia. reflexivity.
Qed.

Lemma zip4_in : forall ivs ms vs k a b,
  length ms = length ivs -> length vs = length ivs ->
  nth_error ivs k = Some (a, b) ->
  In (a, b, nth k ms [], nth k vs []) (zip4 num ivs ms vs).
Proof.
  induction ivs as [|[a0 b0] ti IH]; intros ms vs k a b Hm Hv Hk.
  - destruct k; discriminate.
  - destruct ms as [|m tm]; [discriminate|]. destruct vs as [|v tv]; [discriminate|].
    simpl in Hm, Hv. destruct k as [|k]; simpl in *.
    + inversion Hk; subst. left. reflexivity.
    + right. apply IH; try lia. exact Hk.
Qed.

Lemma zip4_in_inv : forall ivs ms vs a b mu va,
  In (a, b, mu, va) (zip4 num ivs ms vs) -> In (a, b) ivs.
Proof.
  induction ivs as [|[a0 b0] ti IH]; intros ms vs a b mu va Hin; simpl in *.
  - contradiction.
  - destruct ms as [|m tm]; [contradiction|]. destruct vs as [|v tv]; [contradiction|].
    destruct Hin as [Heq | Hin].
    + inversion Heq; subst. left. reflexivity.
    + right. eapply IH. exact Hin.
Qed.

(* ------------------------------------------------------------------ *)
(** * C. Validation: boolean characterisation of [changing] / [anomalous] *)

Definition changing_valid (n : nat) (neg : bool) (cpts : list nat)
    (means vars : list (list num)) : bool :=
  let k := S (length cpts) in
  let ms := recycle means k in
  let vs := recycle vars k in
  (length ms =? k) && (length vs =? k)
  && negb (existsb (fun c => n - 1 <? c) cpts)
  && negb neg
  && forallb (vec_ok num (length (hd [] ms))) ms
  && forallb (vec_ok num (length (hd [] ms))) vs.

Theorem changing_eq : forall n neg cpts means vars Zm d,
  changing num affine n neg cpts means vars Zm d =
  if changing_valid n neg cpts means vars
  then Ok (apply_all num affine Zm
             (zip4 num (consecutive 0 cpts n)
                   (recycle means (S (length cpts))) (recycle vars (S (length cpts)))) d)
  else Err.
Proof.
  intros n neg cpts means vars Zm d. unfold changing, changing_valid. cbv zeta.
  destruct (length (recycle means (S (length cpts))) =? S (length cpts));
  destruct (length (recycle vars (S (length cpts))) =? S (length cpts));
  destruct (existsb (fun c => n - 1 <? c) cpts);
  destruct neg;
  destruct (forallb (vec_ok num (length (hd [] (recycle means (S (length cpts))))))
                    (recycle means (S (length cpts))));
  destruct (forallb (vec_ok num (length (hd [] (recycle means (S (length cpts))))))
                    (recycle vars (S (length cpts))));
  reflexivity.
Qed.

Lemma vec_ok_spec : forall p v, vec_ok num p v = true <-> (length v = 1 \/ length v = p).
Proof.
  intros p v. unfold vec_ok. rewrite orb_true_iff, !Nat.eqb_eq. reflexivity.
Qed.

(** the boolean, spelled out *)
Theorem changing_valid_spec : forall n neg cpts means vars,
  changing_valid n neg cpts means vars = true <->
  (length (recycle means (S (length cpts))) = S (length cpts)
   /\ length (recycle vars (S (length cpts))) = S (length cpts)
   /\ (forall c, In c cpts -> c <= n - 1)
   /\ neg = false
   /\ (forall v, In v (recycle means (S (length cpts))) ->
         length v = 1 \/ length v = length (hd [] (recycle means (S (length cpts)))))
   /\ (forall v, In v (recycle vars (S (length cpts))) ->
         length v = 1 \/ length v = length (hd [] (recycle means (S (length cpts)))))).
Proof.
  intros n neg cpts means vars. unfold changing_valid. cbv zeta.
  rewrite !andb_true_iff, !Nat.eqb_eq, !negb_true_iff, existsb_false_iff, !forallb_forall.
  split.
  - intros [[[[[H1 H2] H3] H4] H5] H6]. repeat split; try assumption.
    + intros c Hc. apply H3 in Hc. apply Nat.ltb_ge in Hc. exact Hc.
    + intros v Hv. apply vec_ok_spec. apply H5. exact Hv.
    + intros v Hv. apply vec_ok_spec. apply H6. exact Hv.
  - intros [H1 [H2 [H3 [H4 [H5 H6]]]]]. repeat split; try assumption.
    + intros c Hc. apply Nat.ltb_ge. apply H3. exact Hc.
    + intros v Hv. apply vec_ok_spec. apply H5. exact Hv.
    + intros v Hv. apply vec_ok_spec. apply H6. exact Hv.
Qed.

Theorem changing_ok_iff : forall n neg cpts means vars Zm d,
  (exists out, changing num affine n neg cpts means vars Zm d = Ok out) <->
  changing_valid n neg cpts means vars = true.
Proof.
  intros n neg cpts means vars Zm d. rewrite changing_eq.
  destruct (changing_valid n neg cpts means vars).
  - split; [reflexivity | intros _; eexists; reflexivity].
  - split; [intros [out H]; discriminate | discriminate].
Qed.

Corollary changing_err_iff : forall n neg cpts means vars Zm d,
  changing num affine n neg cpts means vars Zm d = Err <->
  changing_valid n neg cpts means vars = false.
Proof.
  intros n neg cpts means vars Zm d. rewrite changing_eq.
  destruct (changing_valid n neg cpts means vars).
  - split; discriminate.
  - split; reflexivity.
Qed.

Lemma changing_inv : forall n neg cpts means vars Zm d out,
  changing num affine n neg cpts means vars Zm d = Ok out ->
  changing_valid n neg cpts means vars = true /\
  out = apply_all num affine Zm
          (zip4 num (consecutive 0 cpts n)
                (recycle means (S (length cpts))) (recycle vars (S (length cpts)))) d.
Proof.
  intros n neg cpts means vars Zm d out H. rewrite changing_eq in H.
  destruct (changing_valid n neg cpts means vars); [|discriminate].
  inversion H. split; reflexivity.
Qed.

Theorem changing_err_count : forall n neg cpts means vars Zm d,
  length (recycle means (S (length cpts))) <> S (length cpts)
  \/ length (recycle vars (S (length cpts))) <> S (length cpts) ->
  changing num affine n neg cpts means vars Zm d = Err.
Proof.
  intros n neg cpts means vars Zm d H. apply changing_err_iff.
  destruct (changing_valid n neg cpts means vars) eqn:E; [|reflexivity].
  apply changing_valid_spec in E. destruct E as [H1 [H2 _]].
  destruct H as [H | H]; contradiction.
Qed.

Theorem changing_err_range : forall n neg cpts means vars Zm d,
  (exists c, In c cpts /\ n - 1 < c) ->
  changing num affine n neg cpts means vars Zm d = Err.
Proof.
  intros n neg cpts means vars Zm d [c [Hc Hlt]]. apply changing_err_iff.
  destruct (changing_valid n neg cpts means vars) eqn:E; [|reflexivity].
  apply changing_valid_spec in E. destruct E as [_ [_ [H3 _]]].
  apply H3 in Hc. lia.
Qed.

Theorem changing_err_neg : forall n cpts means vars Zm d,
  changing num affine n true cpts means vars Zm d = Err.
Proof.
  intros n cpts means vars Zm d. apply changing_err_iff.
  destruct (changing_valid n true cpts means vars) eqn:E; [|reflexivity].
  apply changing_valid_spec in E. destruct E as [_ [_ [_ [H4 _]]]]. discriminate.
Qed.

Theorem changing_err_broadcast : forall n neg cpts means vars Zm d,
  (exists v, (In v (recycle means (S (length cpts))) \/ In v (recycle vars (S (length cpts))))
             /\ length v <> 1
             /\ length v <> length (hd [] (recycle means (S (length cpts))))) ->
  changing num affine n neg cpts means vars Zm d = Err.
Proof.
  intros n neg cpts means vars Zm d [v [Hin [Hv1 Hvp]]]. apply changing_err_iff.
  destruct (changing_valid n neg cpts means vars) eqn:E; [|reflexivity].
  apply changing_valid_spec in E. destruct E as [_ [_ [_ [_ [H5 H6]]]]].
  destruct Hin as [Hin | Hin]; [apply H5 in Hin | apply H6 in Hin]; lia.
Qed.

(** anomalous *)

Definition anomalous_valid (n : nat) (bad_shape neg : bool) (anoms : list (nat * nat))
    (means vars : list (list num)) : bool :=
  let k := length anoms in
  let ms := recycle means k in
  let vs := recycle vars k in
  (length ms =? k) && (length vs =? k)
  && negb bad_shape
  && negb (existsb (fun se => snd se <=? fst se) anoms)
  && negb (existsb (fun se => n <? snd se) anoms)
  && negb neg
  && forallb (vec_ok num (length (hd [] ms))) ms
  && forallb (vec_ok num (length (hd [] ms))) vs.

Theorem anomalous_eq : forall n bad_shape neg anoms means vars Zm d,
  anomalous num affine n bad_shape neg anoms means vars Zm d =
  if anomalous_valid n bad_shape neg anoms means vars
  then Ok (apply_all num affine Zm
             (zip4 num anoms (recycle means (length anoms)) (recycle vars (length anoms))) d)
  else Err.
Proof.
  intros n bad_shape neg anoms means vars Zm d. unfold anomalous, anomalous_valid. cbv zeta.
  destruct (length (recycle means (length anoms)) =? length anoms);
  destruct (length (recycle vars (length anoms)) =? length anoms);
  destruct bad_shape;
  destruct (existsb (fun se => snd se <=? fst se) anoms);
  destruct (existsb (fun se => n <? snd se) anoms);
  destruct neg;
  destruct (forallb (vec_ok num (length (hd [] (recycle means (length anoms)))))
                    (recycle means (length anoms)));
  destruct (forallb (vec_ok num (length (hd [] (recycle means (length anoms)))))
                    (recycle vars (length anoms)));
  reflexivity.
Qed.

Theorem anomalous_valid_spec : forall n bad_shape neg anoms means vars,
  anomalous_valid n bad_shape neg anoms means vars = true <->
  (length (recycle means (length anoms)) = length anoms
   /\ length (recycle vars (length anoms)) = length anoms
   /\ bad_shape = false
   /\ (forall se, In se anoms -> fst se < snd se)
   /\ (forall se, In se anoms -> snd se <= n)
   /\ neg = false
   /\ (forall v, In v (recycle means (length anoms)) ->
         length v = 1 \/ length v = length (hd [] (recycle means (length anoms))))
   /\ (forall v, In v (recycle vars (length anoms)) ->
         length v = 1 \/ length v = length (hd [] (recycle means (length anoms))))).
Proof.
  intros n bad_shape neg anoms means vars. unfold anomalous_valid. cbv zeta.
  rewrite !andb_true_iff, !Nat.eqb_eq, !negb_true_iff, !existsb_false_iff, !forallb_forall.
  split.
  - intros [[[[[[[H1 H2] H3] H4] H5] H6] H7] H8]. repeat split; try assumption.
    + intros se Hse. apply H4 in Hse. apply Nat.leb_gt in Hse. exact Hse.
    + intros se Hse. apply H5 in Hse. apply Nat.ltb_ge in Hse. exact Hse.
    + intros v Hv. apply vec_ok_spec. apply H7. exact Hv.
    + intros v Hv. apply vec_ok_spec. apply H8. exact Hv.
  - intros [H1 [H2 [H3 [H4 [H5 [H6 [H7 H8]]]]]]]. repeat split; try assumption.
    + intros se Hse. apply Nat.leb_gt. apply H4. exact Hse.
    + intros se Hse. apply Nat.ltb_ge. apply H5. exact Hse.
    + intros v Hv. apply vec_ok_spec. apply H7. exact Hv.
    + intros v Hv. apply vec_ok_spec. apply H8. exact Hv.
Qed.

Theorem anomalous_ok_iff : forall n bad_shape neg anoms means vars Zm d,
  (exists out, anomalous num affine n bad_shape neg anoms means vars Zm d = Ok out) <->
  anomalous_valid n bad_shape neg anoms means vars = true.
Proof.
  intros n bad_shape neg anoms means vars Zm d. rewrite anomalous_eq.
  destruct (anomalous_valid n bad_shape neg anoms means vars).
  - split; [reflexivity | intros _; eexists; reflexivity].
  - split; [intros [out H]; discriminate | discriminate].
Qed.

Corollary anomalous_err_iff : forall n bad_shape neg anoms means vars Zm d,
  anomalous num affine n bad_shape neg anoms means vars Zm d = Err <->
  anomalous_valid n bad_shape neg anoms means vars = false.
Proof.
  intros n bad_shape neg anoms means vars Zm d. rewrite anomalous_eq.
  destruct (anomalous_valid n bad_shape neg anoms means vars).
  - split; discriminate.
  - split; reflexivity.
Qed.

Lemma anomalous_inv : forall n bad_shape neg anoms means vars Zm d out,
  anomalous num affine n bad_shape neg anoms means vars Zm d = Ok out ->
  anomalous_valid n bad_shape neg anoms means vars = true /\
  out = apply_all num affine Zm
          (zip4 num anoms (recycle means (length anoms)) (recycle vars (length anoms))) d.
Proof.
  intros n bad_shape neg anoms means vars Zm d out H. rewrite anomalous_eq in H.
  destruct (anomalous_valid n bad_shape neg anoms means vars); [|discriminate].
  inversion H. split; reflexivity.
Qed.

Theorem anomalous_err_count : forall n bad_shape neg anoms means vars Zm d,
  length (recycle means (length anoms)) <> length anoms
  \/ length (recycle vars (length anoms)) <> length anoms ->
  anomalous num affine n bad_shape neg anoms means vars Zm d = Err.
Proof.
  intros n bad_shape neg anoms means vars Zm d H. apply anomalous_err_iff.
  destruct (anomalous_valid n bad_shape neg anoms means vars) eqn:E; [|reflexivity].
  apply anomalous_valid_spec in E. destruct E as [H1 [H2 _]].
  destruct H as [H | H]; contradiction.
Qed.

Theorem anomalous_err_shape : forall n neg anoms means vars Zm d,
  anomalous num affine n true neg anoms means vars Zm d = Err.
Proof.
  intros n neg anoms means vars Zm d. apply anomalous_err_iff.
  destruct (anomalous_valid n true neg anoms means vars) eqn:E; [|reflexivity].
  apply anomalous_valid_spec in E. destruct E as [_ [_ [H3 _]]]. discriminate.
Qed.

Theorem anomalous_err_empty : forall n bad_shape neg anoms means vars Zm d,
  (exists se, In se anoms /\ snd se <= fst se) ->
  anomalous num affine n bad_shape neg anoms means vars Zm d = Err.
Proof.
  intros n bad_shape neg anoms means vars Zm d [se [Hse Hle]]. apply anomalous_err_iff.
  destruct (anomalous_valid n bad_shape neg anoms means vars) eqn:E; [|reflexivity].
  apply anomalous_valid_spec in E. destruct E as [_ [_ [_ [H4 _]]]].
  apply H4 in Hse. lia.
Qed.

Theorem anomalous_err_range : forall n bad_shape neg anoms means vars Zm d,
  (exists se, In se anoms /\ n < snd se) ->
  anomalous num affine n bad_shape neg anoms means vars Zm d = Err.
Proof.
  intros n bad_shape neg anoms means vars Zm d [se [Hse Hlt]]. apply anomalous_err_iff.
  destruct (anomalous_valid n bad_shape neg anoms means vars) eqn:E; [|reflexivity].
  apply anomalous_valid_spec in E. destruct E as [_ [_ [_ [_ [H5 _]]]]].
  apply H5 in Hse. lia.
Qed.

Theorem anomalous_err_neg : forall n bad_shape anoms means vars Zm d,
  anomalous num affine n bad_shape true anoms means vars Zm d = Err.
Proof.
  intros n bad_shape anoms means vars Zm d. apply anomalous_err_iff.
  destruct (anomalous_valid n bad_shape true anoms means vars) eqn:E; [|reflexivity].
  apply anomalous_valid_spec in E. destruct E as [_ [_ [_ [_ [_ [H6 _]]]]]]. discriminate.
Qed.

Theorem anomalous_err_broadcast : forall n bad_shape neg anoms means vars Zm d,
  (exists v, (In v (recycle means (length anoms)) \/ In v (recycle vars (length anoms)))
             /\ length v <> 1
             /\ length v <> length (hd [] (recycle means (length anoms)))) ->
  anomalous num affine n bad_shape neg anoms means vars Zm d = Err.
Proof.
  intros n bad_shape neg anoms means vars Zm d [v [Hin [Hv1 Hvp]]]. apply anomalous_err_iff.
  destruct (anomalous_valid n bad_shape neg anoms means vars) eqn:E; [|reflexivity].
  apply anomalous_valid_spec in E. destruct E as [_ [_ [_ [_ [_ [_ [H7 H8]]]]]]].
  destruct Hin as [Hin | Hin]; [apply H7 in Hin | apply H8 in Hin]; lia.
Qed.

(* ------------------------------------------------------------------ *)
(** * A.2 shape of the generators *)

Theorem changing_shape : forall n neg cpts means vars Zm d out,
  changing num affine n neg cpts means vars Zm d = Ok out ->
  length out = length Zm /\
  forall i, length (nth i out []) = length (nth i Zm []).
Proof.
  intros n neg cpts means vars Zm d out H. apply changing_inv in H.
  destruct H as [_ Hout]. subst out. split.
  - apply apply_all_length.
  - intros i. apply apply_all_row_length.
Qed.

Theorem anomalous_shape : forall n bad_shape neg anoms means vars Zm d out,
  anomalous num affine n bad_shape neg anoms means vars Zm d = Ok out ->
  length out = length Zm /\
  forall i, length (nth i out []) = length (nth i Zm []).
Proof.
  intros n bad_shape neg anoms means vars Zm d out H. apply anomalous_inv in H.
  destruct H as [_ Hout]. subst out. split.
  - apply apply_all_length.
  - intros i. apply apply_all_row_length.
Qed.

Theorem alternating_shape : forall nseg seglen p n_aff mean var zero one Zm d out,
  alternating num affine nseg seglen p n_aff mean var zero one Zm d = Ok out ->
  length out = length Zm /\
  forall i, length (nth i out []) = length (nth i Zm []).
Proof.
  intros nseg seglen p n_aff mean var zero one Zm d out H. unfold alternating in H.
  eapply changing_shape. exact H.
Qed.

(* ------------------------------------------------------------------ *)
(** * B.6 placement for [changing] *)

Theorem changing_placement : forall n neg cpts means vars Zm d out,
  changing num affine n neg cpts means vars Zm d = Ok out ->
  nondecr 0 cpts ->
  length Zm = n ->
  forall i k a b,
    i < n ->
    nth_error (consecutive 0 cpts n) k = Some (a, b) ->
    a <= i < b ->
    nth i out [] =
    apply_row num affine
      (nth k (recycle means (S (length cpts))) [])
      (nth k (recycle vars (S (length cpts))) []) d (nth i Zm []).
Proof.
  intros n neg cpts means vars Zm d out Hok Hnd Hlen i k a b Hi Hk Hab.
  apply changing_inv in Hok. destruct Hok as [Hval Hout].
  apply changing_valid_spec in Hval. destruct Hval as [Hm [Hv _]].
  subst out.
  pose proof (consecutive_length cpts 0 n) as Hcl.
  apply apply_all_hit with (a := a) (b := b).
  - unfold disjoint_segs. rewrite zip4_iv by lia. apply consecutive_disjoint. exact Hnd.
  - lia.
  - apply zip4_in; try lia. exact Hk.
  - exact Hab.
Qed.

(** every row is covered, hence determined *)
Corollary changing_placement_total : forall n neg cpts means vars Zm d out,
  changing num affine n neg cpts means vars Zm d = Ok out ->
  nondecr 0 cpts ->
  length Zm = n ->
  forall i, i < n ->
    exists k a b,
      nth_error (consecutive 0 cpts n) k = Some (a, b) /\ a <= i < b /\
      nth i out [] =
      apply_row num affine
        (nth k (recycle means (S (length cpts))) [])
        (nth k (recycle vars (S (length cpts))) []) d (nth i Zm []).
Proof.
  intros n neg cpts means vars Zm d out Hok Hnd Hlen i Hi.
  destruct (consecutive_cover cpts n i Hi) as [k [a [b [Hk Hab]]]].
  exists k, a, b. split; [exact Hk | split; [exact Hab|]].
  eapply changing_placement; eassumption.
Qed.

(** * B.7 placement for [anomalous] *)

Theorem anomalous_placement : forall n bad_shape neg anoms means vars Zm d out,
  anomalous num affine n bad_shape neg anoms means vars Zm d = Ok out ->
  disjoint_ranges anoms ->
  length Zm = n ->
  (forall i k a b,
     nth_error anoms k = Some (a, b) ->
     a <= i < b ->
     nth i out [] =
     apply_row num affine
       (nth k (recycle means (length anoms)) [])
       (nth k (recycle vars (length anoms)) []) d (nth i Zm []))
  /\
  (forall i,
     (forall a b, In (a, b) anoms -> ~ a <= i < b) ->
     nth i out [] = nth i Zm []).
Proof.
  intros n bad_shape neg anoms means vars Zm d out Hok Hdis Hlen.
  apply anomalous_inv in Hok. destruct Hok as [Hval Hout].
  apply anomalous_valid_spec in Hval. destruct Hval as [Hm [Hv [_ [_ [Hrange _]]]]].
  subst out. split.
  - intros i k a b Hk Hab.
    assert (Hb : b <= n).
    { apply nth_error_In in Hk. apply Hrange in Hk. exact Hk. }
    apply apply_all_hit with (a := a) (b := b).
    + unfold disjoint_segs. rewrite zip4_iv by lia. exact Hdis.
    + lia.
    + apply zip4_in; try lia. exact Hk.
    + exact Hab.
  - intros i Hout. apply apply_all_untouched.
    intros a b mu va Hin. apply Hout. eapply zip4_in_inv. exact Hin.
Qed.

(* ------------------------------------------------------------------ *)
(** * B.8 [alternating] *)

Definition alt_cpts (nseg seglen : nat) : list nat :=
  map (fun i => seglen * i) (seq 1 (nseg - 1)).

Definition alt_means (nseg p n_aff : nat) (mean zero : num) : list (list num) :=
  map (fun i => if Nat.even i then repeat zero p else alt_vec num p n_aff mean zero)
      (seq 0 nseg).

(** the changepoints handed to [changing] are seglen * i, i = 1 .. nseg - 1 *)
Theorem alternating_cpts : forall nseg seglen p n_aff mean var zero one Zm d,
  alternating num affine nseg seglen p n_aff mean var zero one Zm d =
  changing num affine (seglen * nseg) false (alt_cpts nseg seglen)
    (alt_means nseg p n_aff mean zero) (alt_means nseg p n_aff var one) Zm d
  /\ length (alt_cpts nseg seglen) = nseg - 1
  /\ forall k, k < nseg - 1 -> nth k (alt_cpts nseg seglen) 0 = seglen * S k.
Proof.
  intros nseg seglen p n_aff mean var zero one Zm d. split; [reflexivity|]. split.
  - unfold alt_cpts. rewrite map_length, seq_length. reflexivity.
  - intros k Hk. unfold alt_cpts. rewrite nth_map_seq by exact Hk. reflexivity.
Qed.

Lemma alt_cpts_nondecr_gen : forall s r m lo,
  lo <= s * m -> nondecr lo (map (fun i => s * i) (seq m r)).
Proof.
  intros s r. induction r as [|r IH]; intros m lo Hlo; simpl.
  - exact I.
  - split; [exact Hlo|]. apply IH. nia.
Qed.

Lemma alt_cpts_nondecr : forall nseg seglen, nondecr 0 (alt_cpts nseg seglen).
Proof. intros nseg seglen. unfold alt_cpts. apply alt_cpts_nondecr_gen. lia. Qed.

Lemma consecutive_alt_gen : forall s r m,
  consecutive (s * m) (map (fun i => s * i) (seq (S m) r)) (s * (S m + r)) =
  map (fun q => (s * q, s * S q)) (seq m (S r)).
Proof.
  intros s r. induction r as [|r IH]; intros m.
  - simpl. rewrite Nat.add_0_r. reflexivity.
  - replace (S m + S r) with (S (S m) + r) by lia.
    change (seq (S m) (S r)) with (S m :: seq (S (S m)) r).
    change (seq m (S (S r))) with (m :: seq (S m) (S r)).
    rewrite !map_cons. cbn [consecutive]. rewrite IH. reflexivity.
Qed.

Lemma consecutive_alt : forall s r,
  consecutive 0 (alt_cpts (S r) s) (s * S r) =
  map (fun q => (s * q, s * S q)) (seq 0 (S r)).
Proof.
  intros s r. unfold alt_cpts. replace (S r - 1) with r by lia.
  pose proof (consecutive_alt_gen s r 0) as H. rewrite Nat.mul_0_r in H. exact H.
Qed.

Lemma alt_vec_length : forall p n_aff v neutral,
  n_aff <= p -> length (alt_vec num p n_aff v neutral) = p.
Proof.
  intros p n_aff v neutral H. unfold alt_vec. rewrite app_length, !repeat_length. lia.
Qed.

Lemma alt_vec_nth : forall p n_aff v neutral d j,
  n_aff <= p -> j < p ->
  nth j (alt_vec num p n_aff v neutral) d = if j <? n_aff then v else neutral.
Proof.
  intros p n_aff v neutral d j Hp Hj. unfold alt_vec.
  destruct (j <? n_aff) eqn:E.
  - apply Nat.ltb_lt in E. rewrite app_nth1 by (rewrite repeat_length; exact E).
    apply nth_repeat_lt. exact E.
  - apply Nat.ltb_ge in E. rewrite app_nth2 by (rewrite repeat_length; exact E).
    rewrite repeat_length. apply nth_repeat_lt. lia.
Qed.

Lemma alt_means_length : forall nseg p n_aff v neutral,
  length (alt_means nseg p n_aff v neutral) = nseg.
Proof. intros. unfold alt_means. rewrite map_length, seq_length. reflexivity. Qed.

Lemma alt_means_nth : forall nseg p n_aff v neutral q,
  q < nseg ->
  nth q (alt_means nseg p n_aff v neutral) [] =
  if Nat.even q then repeat neutral p else alt_vec num p n_aff v neutral.
Proof.
  intros nseg p n_aff v neutral q Hq. unfold alt_means.
  rewrite nth_map_seq by exact Hq. reflexivity.
Qed.

(** column j of the q-th mean (variance) vector *)
Lemma alt_means_bc : forall nseg p n_aff v neutral q d j,
  q < nseg -> n_aff <= p -> j < p ->
  bc num (nth q (alt_means nseg p n_aff v neutral) []) d j =
  if Nat.even q then neutral else if j <? n_aff then v else neutral.
Proof.
  intros nseg p n_aff v neutral q d j Hq Hp Hj. rewrite alt_means_nth by exact Hq.
  destruct (Nat.even q).
  - rewrite bc_nth by (rewrite repeat_length; exact Hj). apply nth_repeat_lt. exact Hj.
  - rewrite bc_nth by (rewrite alt_vec_length by exact Hp; exact Hj).
    apply alt_vec_nth; assumption.
Qed.

Theorem alternating_placement :
  forall nseg seglen p n_aff mean var zero one Zm d out,
  alternating num affine nseg seglen p n_aff mean var zero one Zm d = Ok out ->
  length Zm = seglen * nseg ->
  0 < seglen ->
  n_aff <= p ->
  (forall i, i < length Zm -> length (nth i Zm []) = p) ->
  forall i j d',
    i < seglen * nseg -> j < p ->
    nth j (nth i out []) d' =
    if Nat.even (i / seglen) then affine zero one (nth j (nth i Zm []) d')
    else if j <? n_aff then affine mean var (nth j (nth i Zm []) d')
         else affine zero one (nth j (nth i Zm []) d').
Proof.
  intros nseg seglen p n_aff mean var zero one Zm d out Hok Hlen Hs Hp Hw i j d' Hi Hj.
  destruct nseg as [|r]; [rewrite Nat.mul_0_r in Hi; lia|].
  destruct (alternating_cpts (S r) seglen p n_aff mean var zero one Zm d) as [Heq [Hcl _]].
  rewrite Heq in Hok. clear Heq.
  assert (Hq : i / seglen < S r) by (apply Nat.div_lt_upper_bound; lia).
  assert (Hlo : seglen * (i / seglen) <= i) by (apply Nat.mul_div_le; lia).
  assert (Hhi : i < seglen * S (i / seglen)) by (apply Nat.mul_succ_div_gt; lia).
  assert (HK : S (length (alt_cpts (S r) seglen)) = S r) by (rewrite Hcl; lia).
  rewrite (changing_placement _ _ _ _ _ _ _ _ Hok (alt_cpts_nondecr (S r) seglen) Hlen
             i (i / seglen) (seglen * (i / seglen)) (seglen * S (i / seglen)) Hi).
  - rewrite HK.
    rewrite !recycle_id by apply alt_means_length.
    rewrite apply_row_nth with (d'' := d') by (rewrite Hw by lia; exact Hj).
    rewrite !alt_means_bc by assumption.
    destruct (Nat.even (i / seglen)); [reflexivity|].
    destruct (j <? n_aff); reflexivity.
  - rewrite consecutive_alt. rewrite nth_error_map_seq by exact Hq. reflexivity.
  - lia.
Qed.

(** even segments: the whole row is the neutral transform of the Zm row *)
Corollary alternating_placement_even_row :
  forall nseg seglen p n_aff mean var zero one Zm d out,
  alternating num affine nseg seglen p n_aff mean var zero one Zm d = Ok out ->
  length Zm = seglen * nseg ->
  0 < seglen ->
  n_aff <= p ->
  (forall i, i < length Zm -> length (nth i Zm []) = p) ->
  forall i,
    i < seglen * nseg -> Nat.even (i / seglen) = true ->
    nth i out [] = map (affine zero one) (nth i Zm []).
Proof.
  intros nseg seglen p n_aff mean var zero one Zm d out Hok Hlen Hs Hp Hw i Hi Hev.
  destruct (alternating_shape _ _ _ _ _ _ _ _ _ _ _ Hok) as [_ Hrow].
  assert (Hwi : length (nth i Zm []) = p) by (apply Hw; lia).
  apply nth_ext with (d := d) (d' := affine zero one d).
  - rewrite map_length. apply Hrow.
  - intros j Hj. rewrite Hrow, Hwi in Hj.
    rewrite (alternating_placement _ _ _ _ _ _ _ _ _ _ _ Hok Hlen Hs Hp Hw i j d Hi Hj).
    rewrite Hev. rewrite map_nth. reflexivity.
Qed.

(* ------------------------------------------------------------------ *)
(** * D.10 outliers *)

Lemma add_outliers_length : forall x pos size,
  length (add_outliers num add x pos size) = length x.
Proof.
  intros x pos size. unfold add_outliers. rewrite map_length. apply combine_seq_length.
Qed.

Theorem add_outliers_nth : forall x pos size i,
  i < length x ->
  nth i (add_outliers num add x pos size) [] =
  if existsb (Nat.eqb i) pos then map (fun z => add z size) (nth i x []) else nth i x [].
Proof.
  intros x pos size i Hi. unfold add_outliers.
  rewrite map_combine_seq_nth with (dA := @nil num) by exact Hi.
  simpl. reflexivity.
Qed.

(** in particular: a row is changed iff it is listed, and only once *)
Corollary add_outliers_nth_in : forall x pos size i,
  i < length x -> In i pos ->
  nth i (add_outliers num add x pos size) [] = map (fun z => add z size) (nth i x []).
Proof.
  intros x pos size i Hi Hin. rewrite add_outliers_nth by exact Hi.
  replace (existsb (Nat.eqb i) pos) with true; [reflexivity|].
  symmetry. apply existsb_exists. exists i. split; [exact Hin | apply Nat.eqb_refl].
Qed.

Corollary add_outliers_nth_notin : forall x pos size i,
  ~ In i pos ->
  nth i (add_outliers num add x pos size) [] = nth i x [].
Proof.
  intros x pos size i Hin.
  destruct (lt_dec i (length x)) as [Hi | Hi].
  - rewrite add_outliers_nth by exact Hi.
    replace (existsb (Nat.eqb i) pos) with false; [reflexivity|].
    symmetry. apply existsb_false_iff. intros y Hy. apply Nat.eqb_neq.
    intros Heq. subst y. contradiction.
  - rewrite !nth_overflow; [reflexivity | lia | rewrite add_outliers_length; lia].
Qed.

End GenerateProofs.

(* ------------------------------------------------------------------ *)
(** * D.11 [linspace_int] and [positions_ok] *)

Lemma linspace_int_eq : forall n k,
  linspace_int n k = map (fun i => (i * (n - 1)) / (k - 1)) (seq 0 k).
Proof. intros n k. destruct k as [|[|k]]; reflexivity. Qed.

Lemma linspace_int_length : forall n k, length (linspace_int n k) = k.
Proof. intros n k. rewrite linspace_int_eq, map_length, seq_length. reflexivity. Qed.

Lemma linspace_int_nth : forall n k i,
  i < k -> nth i (linspace_int n k) 0 = (i * (n - 1)) / (k - 1).
Proof.
  intros n k i Hi. rewrite linspace_int_eq. rewrite nth_map_seq by exact Hi. reflexivity.
Qed.

Lemma linspace_int_first : forall n k, 1 <= k -> hd 0 (linspace_int n k) = 0.
Proof.
  intros n k Hk. destruct k as [|[|k]]; [lia | reflexivity |].
  rewrite linspace_int_eq. change (seq 0 (S (S k))) with (0 :: seq 1 (S k)).
  rewrite map_cons. cbn [hd]. rewrite Nat.mul_0_l. apply Nat.div_0_l. lia.
Qed.

Lemma linspace_int_last : forall n k, 2 <= k -> last (linspace_int n k) 0 = n - 1.
Proof.
  intros n k Hk. rewrite last_nth_eq, linspace_int_length, linspace_int_nth by lia.
  rewrite Nat.mul_comm. apply Nat.div_mul. lia.
Qed.

Lemma linspace_int_step_le : forall n k i,
  S i < k -> nth i (linspace_int n k) 0 <= nth (S i) (linspace_int n k) 0.
Proof.
  intros n k i Hi. rewrite !linspace_int_nth by lia.
  apply Nat.div_le_mono; [lia | simpl; lia].
Qed.

Lemma linspace_int_step_lt : forall n k i,
  k <= n -> S i < k -> nth i (linspace_int n k) 0 < nth (S i) (linspace_int n k) 0.
Proof.
  intros n k i Hkn Hi. rewrite !linspace_int_nth by lia.
  assert (Hq : k - 1 <> 0) by lia.
  pose proof (Nat.div_add (i * (n - 1)) 1 (k - 1) Hq) as Hadd.
  assert (Hle : (i * (n - 1) + 1 * (k - 1)) / (k - 1) <= (S i * (n - 1)) / (k - 1)).
  { apply Nat.div_le_mono; [exact Hq | simpl; lia]. }
  lia.
Qed.

(** holds for every n and k: also for k > n (repeated positions), n = 1 and n = 0 *)
Theorem linspace_int_ok_all : forall n k, positions_ok n k (linspace_int n k) = true.
Proof.
  intros n k. unfold positions_ok. rewrite !andb_true_iff. repeat split.
  - apply Nat.eqb_eq. apply linspace_int_length.
  - destruct k as [|k]; [reflexivity|].
    pose proof (linspace_int_first n (S k)) as Hf.
    pose proof (linspace_int_length n (S k)) as Hl.
    destruct (linspace_int n (S k)) as [|a t]; [discriminate|].
    apply Nat.eqb_eq. apply Hf. lia.
  - destruct (k <? 2) eqn:E; [reflexivity|]. apply Nat.ltb_ge in E. simpl.
    apply Nat.eqb_eq. apply linspace_int_last. exact E.
  - apply forallb_forall. intros i Hi. apply in_seq in Hi. apply Nat.leb_le.
    apply linspace_int_step_le. lia.
  - destruct (n <? k) eqn:E; [reflexivity|]. apply Nat.ltb_ge in E. simpl.
    apply forallb_forall. intros i Hi. apply in_seq in Hi. apply Nat.ltb_lt.
    apply linspace_int_step_lt; lia.
  - apply forallb_forall. intros i Hi. apply andb_true_iff. split; apply Nat.leb_le; lia.
Qed.

Theorem linspace_int_ok : forall n k,
  1 <= n -> positions_ok n k (linspace_int n k) = true.
Proof. intros n k _. apply linspace_int_ok_all. Qed.

(** ** consequences of [positions_ok] *)

Lemma nth_mono_le : forall (pos : list nat) (k : nat),
  (forall i, i < k - 1 -> nth i pos 0 <= nth (S i) pos 0) ->
  forall i j, i <= j -> j < k -> nth i pos 0 <= nth j pos 0.
Proof.
  intros pos k Hstep i j. induction j as [|j IH]; intros Hij Hj.
  - replace i with 0 by lia. lia.
  - destruct (Nat.eq_dec i (S j)) as [Heq | Hne].
    + subst i. lia.
    + assert (H1 : nth i pos 0 <= nth j pos 0) by (apply IH; lia).
      assert (H2 : nth j pos 0 <= nth (S j) pos 0) by (apply Hstep; lia).
      lia.
Qed.

Lemma nth_mono_lt : forall (pos : list nat) (k : nat),
  (forall i, i < k - 1 -> nth i pos 0 < nth (S i) pos 0) ->
  forall i j, i < j -> j < k -> nth i pos 0 < nth j pos 0.
Proof.
  intros pos k Hstep i j. induction j as [|j IH]; intros Hij Hj.
  - lia.
  - assert (H2 : nth j pos 0 < nth (S j) pos 0) by (apply Hstep; lia).
    destruct (Nat.eq_dec i j) as [Heq | Hne].
    + subst i. exact H2.
    + assert (H1 : nth i pos 0 < nth j pos 0) by (apply IH; lia). lia.
Qed.

Lemma strict_steps_NoDup : forall (pos : list nat),
  (forall i, i < length pos - 1 -> nth i pos 0 < nth (S i) pos 0) -> NoDup pos.
Proof.
  intros pos Hstep. apply (NoDup_nth pos 0). intros i j Hi Hj Heq.
  destruct (lt_eq_lt_dec i j) as [[Hlt | He] | Hgt].
  - pose proof (nth_mono_lt pos (length pos) Hstep i j Hlt Hj). lia.
  - exact He.
  - pose proof (nth_mono_lt pos (length pos) Hstep j i Hgt Hi). lia.
Qed.

(** the six clauses of [positions_ok] as propositions *)
Lemma positions_ok_spec : forall n k pos,
  positions_ok n k pos = true ->
  length pos = k
  /\ (1 <= k -> hd 0 pos = 0)
  /\ (2 <= k -> last pos 0 = n - 1)
  /\ (forall i, i < k - 1 -> nth i pos 0 <= nth (S i) pos 0)
  /\ (k <= n -> forall i, i < k - 1 -> nth i pos 0 < nth (S i) pos 0)
  /\ (forall i, i < k ->
        nth i pos 0 <= nth i (linspace_int n k) 0 <= nth i pos 0 + 1).
Proof.
  intros n k pos H. unfold positions_ok in H. rewrite !andb_true_iff in H.
  destruct H as [[[[[H1 H2] H3] H4] H5] H6].
  apply Nat.eqb_eq in H1. rewrite forallb_forall in H4. rewrite forallb_forall in H6.
  split; [exact H1|]. split; [|split; [|split; [|split]]].
  - intros Hk. destruct pos as [|a t]; [simpl in H1; lia|]. simpl. apply Nat.eqb_eq. exact H2.
  - intros Hk. apply orb_true_iff in H3. destruct H3 as [H3 | H3].
    + apply Nat.ltb_lt in H3. lia.
    + apply Nat.eqb_eq. exact H3.
  - intros i Hi. apply Nat.leb_le. apply H4. apply in_seq. lia.
  - intros Hkn i Hi. apply orb_true_iff in H5. destruct H5 as [H5 | H5].
    + apply Nat.ltb_lt in H5. lia.
    + rewrite forallb_forall in H5. apply Nat.ltb_lt. apply H5. apply in_seq. lia.
  - intros i Hi. assert (Hin : In i (seq 0 k)) by (apply in_seq; lia).
    apply H6 in Hin. apply andb_true_iff in Hin. destruct Hin as [Ha Hb].
    apply Nat.leb_le in Ha. apply Nat.leb_le in Hb. lia.
Qed.

Theorem positions_ok_consequences : forall n k pos,
  positions_ok n k pos = true ->
  length pos = k
  /\ (1 <= k -> hd 0 pos = 0)
  /\ (2 <= k -> last pos 0 = n - 1)
  /\ (k <= n -> NoDup pos).
Proof.
  intros n k pos H. apply positions_ok_spec in H.
  destruct H as [H1 [H2 [H3 [_ [H5 _]]]]].
  split; [exact H1|]. split; [exact H2|]. split; [exact H3|].
  intros Hkn. apply strict_steps_NoDup. rewrite H1. apply H5. exact Hkn.
Qed.

(** every listed position is a row index *)
Lemma positions_ok_bound : forall n k pos,
  positions_ok n k pos = true -> k <= n -> forall x, In x pos -> x < n.
Proof.
  intros n k pos H Hkn x Hx. apply positions_ok_spec in H.
  destruct H as [H1 [H2 [H3 [H4 _]]]].
  destruct (In_nth pos x 0 Hx) as [i [Hi Hnth]]. rewrite H1 in Hi.
  assert (Hle : nth i pos 0 <= nth (k - 1) pos 0) by (apply (nth_mono_le pos k H4); lia).
  destruct (le_lt_dec 2 k) as [Hk2 | Hk1].
  - specialize (H3 Hk2). rewrite last_nth_eq, H1 in H3. lia.
  - assert (Hi0 : i = 0) by lia. subst i.
    assert (Hh : hd 0 pos = 0) by (apply H2; lia).
    destruct pos as [|a t]; [simpl in H1; lia|]. simpl in Hh, Hnth. lia.
Qed.

(** exactly k row indices are hit when k <= n *)
Theorem positions_ok_count : forall n k pos,
  positions_ok n k pos = true -> k <= n ->
  length (filter (fun i => existsb (Nat.eqb i) pos) (seq 0 n)) = k.
Proof.
  intros n k pos H Hkn.
  pose proof (positions_ok_bound n k pos H Hkn) as Hb.
  destruct (positions_ok_consequences n k pos H) as [Hlen [_ [_ Hnd]]].
  specialize (Hnd Hkn). rewrite <- Hlen.
  apply Permutation_length. apply NoDup_Permutation.
  - apply NoDup_filter. apply seq_NoDup.
  - exact Hnd.
  - intros x. rewrite filter_In, in_seq, existsb_exists. split.
    + intros [_ [y [Hy Heq]]]. apply Nat.eqb_eq in Heq. subst y. exact Hy.
    + intros Hx. split; [specialize (Hb x Hx); lia|].
      exists x. split; [exact Hx | apply Nat.eqb_refl].
Qed.

(** the same count phrased on the output of [add_outliers]: the set of row
    indices whose row is replaced by the shifted row has exactly k elements *)
Corollary add_outliers_count : forall (num : Type) (add : num -> num -> num)
    (x : list (list num)) (size : num) (n k : nat) (pos : list nat),
  positions_ok n k pos = true -> k <= n -> length x = n ->
  exists hit : list nat,
    NoDup hit /\ length hit = k /\
    (forall i, In i hit -> i < n /\
       nth i (add_outliers num add x pos size) [] = map (fun z => add z size) (nth i x [])) /\
    (forall i, ~ In i hit -> nth i (add_outliers num add x pos size) [] = nth i x []).
Proof.
  intros num add x size n k pos H Hkn Hx.
  exists (filter (fun i => existsb (Nat.eqb i) pos) (seq 0 n)).
  split; [apply NoDup_filter; apply seq_NoDup|].
  split; [apply positions_ok_count; assumption|]. split.
  - intros i Hi. apply filter_In in Hi. destruct Hi as [Hi He]. apply in_seq in Hi.
    split; [lia|]. rewrite add_outliers_nth by lia. rewrite He. reflexivity.
  - intros i Hi. apply add_outliers_nth_notin. intros Hin. apply Hi.
    apply filter_In. split.
    + apply in_seq. pose proof (positions_ok_bound n k pos H Hkn i Hin). lia.
    + apply existsb_exists. exists i. split; [exact Hin | apply Nat.eqb_refl].
Qed.

(** strictly increasing / duplicate-free when 2 <= k <= n (indeed whenever k <= n) *)
Theorem linspace_int_strict : forall n k i j,
  k <= n -> i < j -> j < k ->
  nth i (linspace_int n k) 0 < nth j (linspace_int n k) 0.
Proof.
  intros n k i j Hkn Hij Hj. apply (nth_mono_lt (linspace_int n k) k); try assumption.
  intros i' Hi'. apply linspace_int_step_lt; lia.
Qed.

Theorem linspace_int_NoDup : forall n k, k <= n -> NoDup (linspace_int n k).
Proof.
  intros n k Hkn.
  destruct (positions_ok_consequences n k _ (linspace_int_ok_all n k)) as [_ [_ [_ H]]].
  apply H. exact Hkn.
Qed.

(** for k > n the positions necessarily repeat *)
Example linspace_int_repeat : linspace_int 2 3 = [0; 0; 1].
Proof. vm_compute. reflexivity. Qed.

(* ------------------------------------------------------------------ *)
(** * E. Non-vacuity: closed examples over Z with affine mu v z = mu + v * z *)

Definition zaff (mu v z : Z) : Z := (mu + v * z)%Z.

Definition Zm6 : list (list Z) := [[1; 1]; [1; -1]; [2; 1]; [1; 2]; [5; 6]; [7; 8]]%Z.

(** two columns; second mean of length 1 (broadcast), first variance of length 1,
    second variance per column *)
Example changing_example :
  changing Z zaff 4 false [2] [[1; 2]; [10]]%Z [[1]; [2; 3]]%Z (firstn 4 Zm6) 0%Z
  = Ok [[2; 3]; [2; 1]; [14; 13]; [12; 16]]%Z.
Proof. vm_compute. reflexivity. Qed.

Example changing_example_valid :
  changing_valid Z 4 false [2] [[1; 2]; [10]]%Z [[1]; [2; 3]]%Z = true.
Proof. vm_compute. reflexivity. Qed.

(** p is the length of the FIRST mean: a single broadcast mean [[10]] together with
    per-column variances is rejected (p = 1, the variances have length 2) *)
Example changing_first_mean_fixes_p :
  changing Z zaff 4 false [2] [[10]]%Z [[1; 2]; [3; 4]]%Z (firstn 4 Zm6) 0%Z = Err.
Proof. vm_compute. reflexivity. Qed.

Example anomalous_example :
  anomalous Z zaff 6 false false [(1, 3); (4, 5)] [[100; 200]; [7]]%Z [[2]; [3; 4]]%Z Zm6 0%Z
  = Ok [[1; 1]; [102; 198]; [104; 202]; [1; 2]; [22; 31]; [7; 8]]%Z.
Proof. vm_compute. reflexivity. Qed.

(** the disjointness hypothesis of [anomalous_placement] is needed: on overlapping
    anomalies the transformations compose (row 2 : 100 + (100 + 2) = 202) *)
Example anomalous_overlap_composes :
  anomalous Z zaff 6 false false [(1, 3); (2, 5)] [[100]]%Z [[1]; [1]]%Z Zm6 0%Z
  = Ok [[1; 1]; [101; 99]; [202; 201]; [101; 102]; [105; 106]; [7; 8]]%Z.
Proof. vm_compute. reflexivity. Qed.

(** 3 segments of 2 rows, 2 columns, 1 affected column, mean 5, variance factor 3 *)
Example alternating_example :
  alternating Z zaff 3 2 2 1 5%Z 3%Z 0%Z 1%Z Zm6 0%Z
  = Ok [[1; 1]; [1; -1]; [11; 1]; [8; 2]; [5; 6]; [7; 8]]%Z.
Proof. vm_compute. reflexivity. Qed.

Example add_outliers_example :
  add_outliers Z Z.add (firstn 5 Zm6) (linspace_int 5 3) 10%Z
  = [[11; 11]; [1; -1]; [12; 11]; [1; 2]; [15; 16]]%Z.
Proof. vm_compute. reflexivity. Qed.

(** k > n: position 0 is listed twice but row 0 is shifted once *)
Example add_outliers_once :
  linspace_int 2 3 = [0; 0; 1] /\
  add_outliers Z Z.add (firstn 2 Zm6) (linspace_int 2 3) 10%Z = [[11; 11]; [11; 9]]%Z.
Proof. vm_compute. split; reflexivity. Qed.

(* ------------------------------------------------------------------ *)
Print Assumptions changing_placement.
Print Assumptions anomalous_placement.
Print Assumptions alternating_placement.
Print Assumptions apply_all_disjoint.
Print Assumptions add_outliers_nth.
Print Assumptions linspace_int_ok.
Print Assumptions positions_ok_consequences.
Print Assumptions changing_ok_iff.
Print Assumptions anomalous_ok_iff.
Print Assumptions changing_shape.
Print Assumptions anomalous_shape.
Print Assumptions alternating_shape.
Print Assumptions apply_seg_nth.
Print Assumptions apply_row_nth.
Print Assumptions consecutive_disjoint.
Print Assumptions consecutive_cover.
Print Assumptions alternating_cpts.
Print Assumptions positions_ok_count.
Print Assumptions add_outliers_count.
Print Assumptions linspace_int_NoDup.
Print Assumptions changing_err_count.
Print Assumptions changing_err_range.
Print Assumptions changing_err_neg.
Print Assumptions anomalous_err_count.
Print Assumptions anomalous_err_shape.
Print Assumptions anomalous_err_empty.
Print Assumptions anomalous_err_range.
Print Assumptions anomalous_err_neg.
