(** Generic list / argmin lemmas used by Proofs/PeltRefine.v. *)
From Coq Require Import ZArith List Lia Bool Arith.
From SK Require Import Lib.Base Proofs.PeltSpec.
Import ListNotations.
Open Scope Z_scope.

(* ---------- argmin_from / argmin ---------- *)

(** Full specification of the scan: the result value is <= the incoming best and <= every
    scanned element; either nothing improved (result = incoming pair) or the result sits at
    the FIRST position of [l] holding the (strictly better) final value. *)
Lemma argmin_from_spec l : forall bi b i,
  snd (argmin_from bi b i l) <= b /\
  (forall y, In y l -> snd (argmin_from bi b i l) <= y) /\
  ((fst (argmin_from bi b i l) = bi /\ snd (argmin_from bi b i l) = b) \/
   ((i <= fst (argmin_from bi b i l) < i + length l)%nat /\
    nth (fst (argmin_from bi b i l) - i) l 0 = snd (argmin_from bi b i l) /\
    snd (argmin_from bi b i l) < b /\
    forall j, (j < fst (argmin_from bi b i l) - i)%nat ->
              snd (argmin_from bi b i l) < nth j l 0)).
Proof.
  induction l as [|x t IH]; intros bi b i.
  - cbn. split; [lia|]. split; [intros y []|]. left; split; reflexivity.
  - cbn [argmin_from]. destruct (x <? b) eqn:E.
    + apply Z.ltb_lt in E. specialize (IH i x (S i)).
      remember (argmin_from i x (S i) t) as r eqn:Er. clear Er.
      destruct IH as (H1 & H2 & H3).
      split; [lia|]. split.
      * intros y [<-|Hy]; [lia|auto].
      * right. destruct H3 as [[Hf Hs]|(Hr & Hn & Hlt & Hfirst)].
        -- rewrite Hf, Hs, Nat.sub_diag. cbn [length nth].
           split; [lia|]. split; [reflexivity|]. split; [lia|]. intros j Hj; lia.
        -- cbn [length]. replace (fst r - i)%nat with (S (fst r - S i)) by lia. cbn [nth].
           split; [lia|]. split; [exact Hn|]. split; [lia|].
           intros [|j] Hj; [lia|]. apply Hfirst. lia.
    + apply Z.ltb_ge in E. specialize (IH bi b (S i)).
      remember (argmin_from bi b (S i) t) as r eqn:Er. clear Er.
      destruct IH as (H1 & H2 & H3).
      split; [lia|]. split.
      * intros y [<-|Hy]; [lia|auto].
      * destruct H3 as [[Hf Hs]|(Hr & Hn & Hlt & Hfirst)]; [left; auto|right].
        cbn [length]. replace (fst r - i)%nat with (S (fst r - S i)) by lia. cbn [nth].
        split; [lia|]. split; [exact Hn|]. split; [lia|].
        intros [|j] Hj; [lia|]. apply Hfirst. lia.
Qed.

(** np.argmin on a non-empty list: index in range, value at the index, value is a lower bound,
    and every earlier position is strictly larger (first minimiser). *)
Lemma argmin_spec l : l <> [] ->
  exists i b, argmin l = Some (i, b) /\ (i < length l)%nat /\ nth i l 0 = b /\
              (forall y, In y l -> b <= y) /\
              (forall j, (j < i)%nat -> b < nth j l 0).
Proof.
  destruct l as [|x t]; [congruence|]. intros _.
  unfold argmin. destruct (argmin_from_spec t 0%nat x 1%nat) as (H1 & H2 & H3).
  remember (argmin_from 0 x 1 t) as r eqn:Er. clear Er. destruct r as [i b]. cbn [fst snd] in *.
  exists i, b. split; [reflexivity|].
  destruct H3 as [[Hf Hs]|(Hr & Hn & Hlt & Hfirst)].
  - subst i b. cbn [length nth]. split; [lia|]. split; [reflexivity|]. split.
    + intros y [<-|Hy]; [lia|auto].
    + intros j Hj; lia.
  - cbn [length]. replace i with (S (i - 1)) at 2 by lia. cbn [nth].
    split; [lia|]. split; [exact Hn|]. split.
    + intros y [<-|Hy]; [lia|auto].
    + intros [|j] Hj; cbn [nth]; [lia|]. apply Hfirst. lia.
Qed.

Lemma argmin_none l : argmin l = None -> l = [].
Proof. destruct l; [reflexivity|discriminate]. Qed.

(** the value returned by argmin is the list minimum [min1] of PeltSpec *)
Lemma argmin_value_min1 x t i b : argmin (x :: t) = Some (i, b) -> b = min1 x t.
Proof.
  intros H. destruct (argmin_spec (x :: t) ltac:(discriminate)) as (i' & b' & E & Hi & Hn & Hle & _).
  rewrite H in E. assert (Ei : i' = i) by congruence. assert (Eb : b' = b) by congruence.
  rewrite Ei, Eb in *. clear E Ei Eb i' b'.
  apply Z.le_antisymm.
  - destruct (min1_in x t) as [E|Hin]; [rewrite E; apply Hle; now left|apply Hle; now right].
  - assert (Hin : In b (x :: t)) by (rewrite <- Hn; apply nth_In; exact Hi).
    destruct Hin as [<-|Hin]; [apply min1_le_head|now apply min1_le_in].
Qed.

(* ---------- small list facts ---------- *)

Lemma nth_tl {A} (l : list A) i d : nth i (tl l) d = nth (S i) l d.
Proof. destruct l as [|a l]; [destruct i; reflexivity|reflexivity]. Qed.

Lemma length_tl {A} (l : list A) : length (tl l) = (length l - 1)%nat.
Proof. destruct l; cbn; lia. Qed.

Lemma nth_repeat_lt {A} (x d : A) k i : (i < k)%nat -> nth i (repeat x k) d = x.
Proof.
  intros H. apply (repeat_spec k x). apply nth_In. now rewrite repeat_length.
Qed.

Lemma in_combine_map {A B} (f : A -> B) (l : list A) a c :
  In (a, c) (combine l (map f l)) -> In a l /\ c = f a.
Proof.
  induction l as [|x l IH]; cbn; [intros []|].
  intros [E|H]; [inversion E; subst; auto|]. destruct (IH H); auto.
Qed.

Lemma in_removeall a now R : In a (removeall now R) <-> In a R /\ ~ In a now.
Proof.
  unfold removeall, memb. rewrite filter_In, negb_true_iff. split; intros [H1 H2]; split; auto.
  - intros Hin. assert (existsb (Nat.eqb a) now = true) as E.
    { apply existsb_exists. exists a. split; [auto|apply Nat.eqb_refl]. } congruence.
  - destruct (existsb (Nat.eqb a) now) eqn:E; [|reflexivity].
    apply existsb_exists in E as (x & Hx & Ex). apply Nat.eqb_eq in Ex. subst. contradiction.
Qed.

(** invariant rule for a left fold over [seq a k] *)
Lemma fold_left_seq_inv {S} (P : nat -> S -> Prop) (f : S -> nat -> S) a :
  (forall T s, (a <= T)%nat -> P T s -> P (Datatypes.S T) (f s T)) ->
  forall k s0, P a s0 -> P (a + k)%nat (fold_left f (seq a k) s0).
Proof.
  intros Hstep. induction k as [|k IH]; intros s0 H0.
  - cbn. now rewrite Nat.add_0_r.
  - rewrite seq_S, fold_left_app. cbn [fold_left].
    replace (a + Datatypes.S k)%nat with (Datatypes.S (a + k)) by lia.
    apply Hstep; [lia|]. now apply IH.
Qed.
