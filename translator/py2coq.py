"""Fail-closed translator: straight-line NumPy kernels of skchange  ->  Coq definitions.

Tie (a) of DESIGN.md: on every check run the kernel sources under /repo are re-read with
Python's `ast`, given their element-wise meaning through a hand-written *role signature*
(which argument is an index vector, a prefix-sum matrix, a per-column parameter, ...), and
printed as Coq definitions over R (the object of the theorems) and, when the kernel is free
of ln / sqrt / PI, over Q (an executable twin evaluated with vm_compute and compared with
the real function).  The same IR is also evaluated in Python (`pyeval`) against the real
function, which validates the AST -> IR step for kernels with log / sqrt.

Accepted grammar: docstring, `name = <expr>`, `return <expr>` / `return <expr>, <expr>`,
and the declared guard patterns.  Expressions: names bound by the signature or by earlier
assignments, numeric literals, + - * / ** (small literal exponent), unary minus,
prefix[idx], x.reshape(-1, 1), np.log / np.sqrt / np.abs / np.pi, truncate_below(v, c),
calls to other translated kernels, np.zeros(p) / np.full(p, v) (per-component constants),
declared oracle calls.  ANYTHING ELSE RAISES `Unsupported` (the tie is then reported as
broken by the engine)."""
import ast
import math
import os
from fractions import Fraction


class Unsupported(Exception):
    pass


# ------------------------------------------------------------------------------------------
# role signatures
#   idx:<v>     integer vector argument, read as the nat variable <v> for the current row
#   prefix:<v>  prefix-sum matrix argument, column j read as the function <v> : nat -> num
#   col:<v>     per-column (or scalar, broadcast) real parameter, read as the real variable <v>
#   int:<v>     scalar integer argument (nat variable, lifted with INR where a real is needed)
#   real:<v>    scalar real argument
#   oracle:<v>  value produced by code that is not translated (NumPy linear algebra ...)
# ------------------------------------------------------------------------------------------
SIG = {
    "l2_cost_optim": dict(file="skchange/costs/l2_cost.py",
                          args={"starts": "idx:s", "ends": "idx:e", "sums": "prefix:S1", "sums2": "prefix:S2"},
                          coq=["S1", "S2", "s", "e"]),
    "l2_cost_fixed": dict(file="skchange/costs/l2_cost.py",
                          args={"starts": "idx:s", "ends": "idx:e", "sums": "prefix:S1", "sums2": "prefix:S2",
                                "mean": "col:mu"},
                          coq=["S1", "S2", "mu", "s", "e"]),
    "var_from_sums": dict(file="skchange/costs/gaussian_var_cost.py",
                          args={"sums": "prefix:S1", "sums2": "prefix:S2", "starts": "idx:s", "ends": "idx:e"},
                          coq=["S1", "S2", "s", "e"]),
    "gaussian_var_cost_optim": dict(file="skchange/costs/gaussian_var_cost.py",
                                    args={"starts": "idx:s", "ends": "idx:e", "sums": "prefix:S1",
                                          "sums2": "prefix:S2"},
                                    coq=["S1", "S2", "s", "e"]),
    "gaussian_var_cost_fixed": dict(file="skchange/costs/gaussian_var_cost.py",
                                    args={"starts": "idx:s", "ends": "idx:e", "sums": "prefix:S1",
                                          "sums2": "prefix:S2", "mean": "col:mu", "var": "col:v"},
                                    coq=["S1", "S2", "mu", "v", "s", "e"]),
    "cusum_score": dict(file="skchange/change_scores/cusum.py",
                        args={"starts": "idx:s", "ends": "idx:e", "splits": "idx:k", "sums": "prefix:S1"},
                        coq=["S1", "s", "k", "e"]),
    "l2_saving": dict(file="skchange/anomaly_scores/l2_saving.py",
                      args={"starts": "idx:s", "ends": "idx:e", "sums": "prefix:S1"},
                      coq=["S1", "s", "e"]),
    # multivariate Gaussian cost: scalar assembly only; linear algebra is an oracle
    "_gaussian_ll_at_mle_for_segment": dict(
        file="skchange/costs/gaussian_cov_cost.py",
        args={"X": "data:X", "start": "idx:s", "end": "idx:e"},
        oracle_calls={"log_det_covariance": "logdet"},
        shape1={"X": "p"},
        nan_guard="log_det_cov",
        coq=["p", "logdet", "s", "e"], kinds={"p": "nat", "logdet": "R"}),
    "_gaussian_ll_at_fixed_for_segment": dict(
        file="skchange/costs/gaussian_cov_cost.py",
        args={"X": "data:X", "start": "idx:s", "end": "idx:e", "mean": "data:mean",
              "log_det_cov": "real:logdet", "inv_cov": "data:inv_cov"},
        oracle_assign={"quadratic_form": "quadsum"},   # np.sum(quadratic_form) is read as the oracle value
        shape1={"X": "p"},
        coq=["p", "logdet", "quadsum", "s", "e"], kinds={"p": "nat", "logdet": "R", "quadsum": "R"}),
    # penalties / thresholds
    "capa_penalty": dict(file="skchange/anomaly_detectors/mvcapa.py",
                         args={"n": "int:n", "n_params": "int:n_params", "scale": "real:scale"},
                         coq=["n", "n_params", "scale"]),
    "dense_mvcapa_penalty": dict(file="skchange/anomaly_detectors/mvcapa.py",
                                 args={"n": "int:n", "p": "int:p", "n_params_per_variable": "int:npv",
                                       "scale": "real:scale"},
                                 coq=["n", "p", "npv", "scale"], tuple=("alpha", "beta")),
    "sparse_mvcapa_penalty": dict(file="skchange/anomaly_detectors/mvcapa.py",
                                  args={"n": "int:n", "p": "int:p", "n_params_per_variable": "int:npv",
                                        "scale": "real:scale"},
                                  coq=["n", "p", "npv", "scale"], tuple=("alpha", "beta")),
    # the per-j curve of the intermediate penalty: a closure inside intermediate_mvcapa_penalty; SciPy's chi-square quantile / density are oracles
    "intermediate_mvcapa_penalty.penalty_func": dict(
        file="skchange/anomaly_detectors/mvcapa.py",
        args={"j": "int:j"},
        closure={"n": "int:n", "p": "int:p", "n_params_per_variable": "int:npv", "scale": "real:scale"},
        oracle_attr_calls={"chi2.ppf": "c_j", "chi2.pdf": "f_j"},
        coq=["n", "p", "npv", "scale", "j", "c_j", "f_j"], kinds={"c_j": "R", "f_j": "R"},
        name="intermediate_penalty_curve"),
    "PELT.get_default_penalty": dict(file="skchange/change_detectors/pelt.py",
                                     args={"n": "int:n", "p": "int:p"}, coq=["n", "p"],
                                     name="pelt_default_penalty"),
    "SeededBinarySegmentation.get_default_threshold": dict(
        file="skchange/change_detectors/seeded_binseg.py",
        args={"n": "int:n", "p": "int:p"}, coq=["n", "p"], name="sbs_default_threshold"),
    "MovingWindow.get_default_threshold": dict(
        file="skchange/change_detectors/moving_window.py",
        args={"n": "int:n", "p": "int:p", "bandwidth": "int:b", "level": "real:level"},
        coq=["n", "p", "b", "level"], name="mw_default_threshold"),
    "CircularBinarySegmentation.get_default_threshold": dict(
        file="skchange/anomaly_detectors/circular_binseg.py",
        args={"n": "int:n", "p": "int:p", "max_interval_length": "int:maxlen"},
        coq=["n", "p", "maxlen"], name="cbs_default_threshold"),
}
ORDER = list(SIG)
NPFUN = {"log": "ln", "sqrt": "sqrt", "abs": "abs"}


def _find_function(tree, qual):
    parts = qual.split(".")
    body = tree.body
    node = None
    for i, nm in enumerate(parts):
        want = (ast.ClassDef, ast.FunctionDef) if i < len(parts) - 1 else ast.FunctionDef
        found = [n for n in body if isinstance(n, want) and n.name == nm]
        if len(found) != 1:
            raise Unsupported(f"{qual}: definition not found exactly once")
        node = found[0]
        body = node.body
    return node


def to_ir(fn_name, repo="/repo", _cache={}):
    """Return the IR of a kernel: an expression tree, or a tuple of two for tuple returns."""
    key = (fn_name, repo)
    sig = SIG[fn_name]
    path = os.path.join(repo, sig["file"])
    src = open(path).read()
    ck = (key, hash(src))
    if ck in _cache:
        return _cache[ck]
    tree = ast.parse(src)
    fd = _find_function(tree, fn_name)
    if [a.arg for a in fd.args.args] != list(sig["args"]):
        raise Unsupported(f"{fn_name}: signature changed: {[a.arg for a in fd.args.args]}")
    if fd.args.vararg or fd.args.kwarg or fd.args.kwonlyargs:
        raise Unsupported(f"{fn_name}: unsupported parameter kinds")
    env = {}
    scope = {"depth": 0}          # > 0 while the body of a module-level helper is being inlined
    module_funcs = {n.name: n for n in tree.body if isinstance(n, ast.FunctionDef)}

    def const(v):
        if isinstance(v, bool) or not isinstance(v, (int, float)):
            raise Unsupported(f"{fn_name}: literal {v!r}")
        return ("const", Fraction(repr(v)) if isinstance(v, float) else Fraction(v))

    def lift(k, a):
        return ("ofidx", a) if k == "idx" else a

    def ex(n):
        """-> (kind, ir) with kind in {idx, real, const, vec, data, prefix, tuple, percomp}"""
        nonlocal env
        if isinstance(n, ast.Name):
            if n.id in env:
                return env[n.id]
            role = None if scope["depth"] else (sig["args"].get(n.id) or sig.get("closure", {}).get(n.id))
            if role is None:
                raise Unsupported(f"{fn_name}: free name {n.id}")
            k, v = role.split(":")
            if k == "prefix":
                return ("prefix", ("prefixvar", v))
            if k in ("idx", "int"):
                return ("idx", ("var", v))
            if k in ("col", "real"):
                return ("real", ("var", v))
            raise Unsupported(f"{fn_name}: bare use of argument {n.id} ({k})")
        if isinstance(n, ast.Constant):
            c = const(n.value)
            return ("const", c)
        if isinstance(n, ast.Subscript):
            if isinstance(n.value, ast.Name):
                role = "" if scope["depth"] else sig["args"].get(n.value.id, "")
                if role.startswith("prefix:") or env.get(n.value.id, ("",))[0] == "prefix":
                    pv = ex(n.value)[1][1]
                    k, i = ex(n.slice)
                    if k != "idx":
                        raise Unsupported(f"{fn_name}: prefix indexed by non-index")
                    return ("real", ("app", pv, i))
                if role.startswith("data:") and isinstance(n.slice, ast.Slice):
                    return ("data", ("slice", n.value.id))
            if (isinstance(n.value, ast.Attribute) and n.value.attr == "shape"
                    and isinstance(n.value.value, ast.Name)
                    and isinstance(n.slice, ast.Constant) and n.slice.value == 1):
                v = sig.get("shape1", {}).get(n.value.value.id)
                if v is None:
                    raise Unsupported(f"{fn_name}: shape of {n.value.value.id}")
                return ("idx", ("var", v))
            raise Unsupported(f"{fn_name}: subscript {ast.dump(n)[:80]}")
        if isinstance(n, ast.BinOp):
            op = {ast.Add: "+", ast.Sub: "-", ast.Mult: "*", ast.Div: "/", ast.Pow: "^"}.get(type(n.op))
            if op is None:
                raise Unsupported(f"{fn_name}: operator {type(n.op).__name__}")
            (ka, a), (kb, b) = ex(n.left), ex(n.right)
            if {ka, kb} & {"data", "vec", "prefix", "tuple", "percomp"}:
                raise Unsupported(f"{fn_name}: arithmetic on untranslated data")
            if op == "^":
                if not (kb == "const" and b[1].denominator == 1 and 0 <= b[1] <= 8):
                    raise Unsupported(f"{fn_name}: power with non-literal exponent")
                if ka == "const":
                    return ("const", ("const", a[1] ** int(b[1])))
                return ("real", ("pow", lift(ka, a), int(b[1])))
            if ka == kb == "const":
                x, y = a[1], b[1]
                if op == "/" and y == 0:
                    raise Unsupported("division by literal zero")
                return ("const", ("const", {"+": x + y, "-": x - y, "*": x * y, "/": x / y if op == "/" else None}[op]))
            ints = lambda k, t: k == "idx" or (k == "const" and t[1].denominator == 1 and t[1] >= 0)
            if op in "+-*" and ints(ka, a) and ints(kb, b) and "idx" in (ka, kb):
                return ("idx", (op, a, b))
            return ("real", (op, lift(ka, a), lift(kb, b)))
        if isinstance(n, ast.UnaryOp) and isinstance(n.op, ast.USub):
            k, a = ex(n.operand)
            if k == "const":
                return ("const", ("const", -a[1]))
            if k in ("data", "vec", "prefix", "tuple", "percomp"):
                raise Unsupported("negation of data")
            return ("real", ("neg", lift(k, a)))
        if isinstance(n, ast.Attribute) and isinstance(n.value, ast.Name) and n.value.id in ("np", "math") and n.attr == "pi":
            return ("real", ("pi",))
        if isinstance(n, ast.Tuple):
            return ("tuple", [ex(e) for e in n.elts])
        if isinstance(n, ast.Call):
            f = n.func
            if (isinstance(f, ast.Attribute) and isinstance(f.value, ast.Name) and f.value.id == "np" and f.attr == "sum"
                    and len(n.args) == 1 and [k_.arg for k_ in n.keywords] == ["axis"]
                    and isinstance(n.keywords[0].value, ast.Constant) and n.keywords[0].value.value == 1
                    and sig.get("oracle_assign") and not scope["depth"] and _only_data(n.args[0], sig)):
                # row sums of an expression of untranslated data: the vector whose total is the declared oracle value
                return ("vec", ("var", list(sig["oracle_assign"].values())[0]))
            if n.keywords:
                raise Unsupported(f"{fn_name}: keyword arguments in call")
            # x.reshape(-1, 1): element-wise identity under broadcasting
            if isinstance(f, ast.Attribute) and f.attr == "reshape" and len(n.args) == 2:
                a0, a1 = n.args
                if (isinstance(a0, ast.UnaryOp) and isinstance(a0.operand, ast.Constant) and a0.operand.value == 1
                        and isinstance(a1, ast.Constant) and a1.value == 1):
                    return ex(f.value)
                raise Unsupported(f"{fn_name}: reshape other than (-1, 1)")
            if isinstance(f, ast.Attribute) and isinstance(f.value, ast.Name) and f"{f.value.id}.{f.attr}" in sig.get("oracle_attr_calls", {}):
                # the arguments must still be translatable expressions of the declared kinds (so that a changed call shape is noticed)
                for a_ in n.args:
                    ex(a_)
                return ("real", ("var", sig["oracle_attr_calls"][f"{f.value.id}.{f.attr}"]))
            if isinstance(f, ast.Attribute) and isinstance(f.value, ast.Name) and f.value.id == "math":
                if f.attr in ("log", "sqrt", "fabs") and len(n.args) == 1:
                    k, a = ex(n.args[0])
                    if k not in ("idx", "real", "const"):
                        raise Unsupported("function of data")
                    return ("real", ({"log": "ln", "sqrt": "sqrt", "fabs": "abs"}[f.attr], lift(k, a)))
                raise Unsupported(f"{fn_name}: math.{f.attr}")
            if isinstance(f, ast.Attribute) and isinstance(f.value, ast.Name) and f.value.id == "np":
                if f.attr in NPFUN and len(n.args) == 1:
                    k, a = ex(n.args[0])
                    if k not in ("idx", "real", "const"):
                        raise Unsupported("function of data")
                    return ("real", (NPFUN[f.attr], lift(k, a)))
                if f.attr == "square" and len(n.args) == 1:
                    k, a = ex(n.args[0])
                    if k not in ("idx", "real", "const"):
                        raise Unsupported("function of data")
                    return ("real", ("pow", lift(k, a), 2))
                if f.attr in ("maximum", "fmax") and len(n.args) == 2:
                    (ka, a), (kb, b) = ex(n.args[0]), ex(n.args[1])
                    if not {ka, kb} <= {"idx", "real", "const"}:
                        raise Unsupported("function of data")
                    return ("real", ("max", lift(ka, a), lift(kb, b)))
                if f.attr == "zeros" and len(n.args) == 1:
                    return ("percomp", ("const", Fraction(0)))
                if f.attr == "full" and len(n.args) == 2:
                    k, a = ex(n.args[1])
                    return ("percomp", lift(k, a))
                if f.attr == "sum" and len(n.args) == 1 and sig.get("oracle_assign"):
                    try:
                        k, a = ex(n.args[0])
                    except Unsupported:
                        k, a = None, None
                    if k == "vec":
                        return ("real", a)
                if f.attr == "isnan" and len(n.args) == 1:
                    raise Unsupported("isnan outside the declared guard")
                raise Unsupported(f"{fn_name}: np.{f.attr}")
            if isinstance(f, ast.Name):
                if f.id == "truncate_below" and len(n.args) == 2:
                    (ka, a), (kb, b) = ex(n.args[0]), ex(n.args[1])
                    return ("real", ("max", lift(ka, a), lift(kb, b)))
                if f.id in sig.get("oracle_calls", {}):
                    return ("real", ("var", sig["oracle_calls"][f.id]))
                if f.id in SIG and "tuple" not in SIG[f.id]:
                    callee = SIG[f.id]
                    if len(n.args) != len(callee["args"]):
                        raise Unsupported(f"{fn_name}: call arity of {f.id}")
                    sub = {}
                    for (pname, role), arg in zip(callee["args"].items(), n.args):
                        rk, rv = role.split(":")
                        if rk == "prefix":
                            if not (isinstance(arg, ast.Name) and sig["args"].get(arg.id, "").startswith("prefix:")):
                                raise Unsupported(f"{fn_name}: prefix argument of {f.id}")
                            sub[rv] = ("prefixvar", sig["args"][arg.id].split(":")[1])
                        else:
                            k, a = ex(arg)
                            if k in ("data", "vec", "percomp"):
                                raise Unsupported("data passed to kernel")
                            sub[rv] = (k, a)
                    body = to_ir(f.id, repo)
                    return ("real", subst(body, sub))
                if (f.id in module_funcs and f.id not in SIG and f.id != fd.name and scope["depth"] < 3):
                    # a module-level helper of the same file: inlined (its parameters are bound to the translated arguments)
                    callee = module_funcs[f.id]
                    ca = callee.args
                    if ca.vararg or ca.kwarg or ca.kwonlyargs or ca.defaults or len(ca.args) != len(n.args):
                        raise Unsupported(f"{fn_name}: call shape of helper {f.id}")
                    new_env = {a_.arg: ex(v_) for a_, v_ in zip(ca.args, n.args)}
                    saved = env
                    env = new_env
                    scope["depth"] += 1
                    try:
                        r = run_body(callee.body, inlined=True)
                    finally:
                        scope["depth"] -= 1
                        env = saved
                    return r
            raise Unsupported(f"{fn_name}: call {ast.dump(f)[:80]}")
        raise Unsupported(f"{fn_name}: expression {type(n).__name__}")

    guard = {"seen": False}

    def run_body(stmts, inlined=False):
        """Straight-line body -> value of its return statement.  inlined: the body of a helper (no guard, no oracle names)."""
        for st in stmts:
            if isinstance(st, ast.Expr) and isinstance(st.value, ast.Constant) and isinstance(st.value.value, str):
                continue
            if isinstance(st, ast.AnnAssign) and st.value is not None and isinstance(st.target, ast.Name):
                st = ast.Assign(targets=[st.target], value=st.value)
            if isinstance(st, ast.AugAssign) and isinstance(st.target, ast.Name):
                st = ast.Assign(targets=[st.target],
                                value=ast.BinOp(left=ast.Name(id=st.target.id, ctx=ast.Load()), op=st.op, right=st.value))
            if isinstance(st, ast.Assign) and len(st.targets) == 1 and isinstance(st.targets[0], ast.Name):
                tgt = st.targets[0].id
                if not inlined and tgt in sig.get("oracle_assign", {}):
                    env[tgt] = ("vec", ("var", sig["oracle_assign"][tgt]))
                    continue
                try:
                    env[tgt] = ex(st.value)
                except Unsupported:
                    # assignments that only manipulate untranslated data are allowed when declared
                    if not inlined and _only_data(st.value, sig):
                        env[tgt] = ("data", ("opaque", tgt))
                        continue
                    raise
                continue
            if (isinstance(st, ast.Assign) and len(st.targets) == 1 and isinstance(st.targets[0], ast.Tuple)
                    and all(isinstance(t_, ast.Name) for t_ in st.targets[0].elts)):
                k, vals = ex(st.value)
                if k != "tuple" or len(vals) != len(st.targets[0].elts):
                    raise Unsupported(f"{fn_name}: tuple assignment from a non-tuple")
                for t_, v_ in zip(st.targets[0].elts, vals):
                    env[t_.id] = v_
                continue
            if isinstance(st, ast.If) and not inlined and sig.get("nan_guard") and not guard["seen"]:
                t = st.test
                ok = (isinstance(t, ast.Call) and isinstance(t.func, ast.Attribute) and t.func.attr == "isnan"
                      and len(t.args) == 1 and isinstance(t.args[0], ast.Name) and t.args[0].id == sig["nan_guard"]
                      and len(st.body) == 1 and isinstance(st.body[0], ast.Raise) and not st.orelse
                      and isinstance(st.body[0].exc, ast.Call) and getattr(st.body[0].exc.func, "id", "") == "RuntimeError")
                if not ok:
                    raise Unsupported(f"{fn_name}: if-statement other than the declared NaN guard")
                guard["seen"] = True
                continue
            if isinstance(st, ast.Return) and st.value is not None:
                return ex(st.value)
            raise Unsupported(f"{fn_name}: statement {type(st).__name__}")
        raise Unsupported(f"{fn_name}: no return")

    rk, rv = run_body(fd.body)
    if "tuple" in sig:
        if not (rk == "tuple" and len(rv) == 2):
            raise Unsupported(f"{fn_name}: expected a pair return")
        (k1, a1), (k2, a2) = rv
        if k2 != "percomp" or k1 not in ("idx", "real", "const"):
            raise Unsupported(f"{fn_name}: second component is not np.zeros/np.full")
        ret = ("pair", lift(k1, a1), a2)
    else:
        if rk not in ("idx", "real", "const"):
            raise Unsupported(f"{fn_name}: returns untranslated data")
        ret = lift(rk, rv)
    if sig.get("nan_guard") and not guard["seen"]:
        raise Unsupported(f"{fn_name}: the declared NaN guard is missing")
    _cache[ck] = ret
    return ret


def _only_data(node, sig):
    """True when the expression is built only from `data:` arguments/locals (slices, @, -, *)."""
    for n in ast.walk(node):
        if isinstance(n, ast.Name):
            role = sig["args"].get(n.id, "")
            if not (role.startswith("data:") or n.id in ("np",) or role == "" and n.id not in sig["args"]):
                if not role.startswith("idx:"):
                    return False
        elif isinstance(n, (ast.BinOp, ast.Subscript, ast.Slice, ast.Load, ast.MatMult, ast.Sub, ast.Mult,
                            ast.Call, ast.Attribute, ast.keyword, ast.Constant)):
            continue
        else:
            return False
    return any(isinstance(n, ast.Name) and sig["args"].get(n.id, "").startswith("data:") for n in ast.walk(node))


def subst(ir, sub):
    t = ir[0]
    if t == "var":
        if ir[1] in sub:
            k, a = sub[ir[1]]
            return a if k != "const" else a
        return ir
    if t == "app":
        f = sub.get(ir[1], ("prefixvar", ir[1]))[1]
        return ("app", f, subst(ir[2], sub))
    if t in ("const", "pi"):
        return ir
    if t == "pow":
        return ("pow", subst(ir[1], sub), ir[2])
    return (t,) + tuple(subst(x, sub) if isinstance(x, tuple) else x for x in ir[1:])


# ------------------------------------------------------------------------------------------
# printers
# ------------------------------------------------------------------------------------------
def coq(ir, dom):
    R = dom == "R"
    t = ir[0]
    if t == "var":
        return ir[1]
    if t == "const":
        q = ir[1]
        if dom == "N":
            if q.denominator != 1 or q < 0:
                raise Unsupported("non-natural literal in index expression")
            return f"{q.numerator}"
        if R:
            return (f"({q.numerator} / {q.denominator})" if q.denominator != 1 else
                    (f"({q.numerator})" if q < 0 else f"{q.numerator}"))
        return f"({q.numerator} # {q.denominator})"
    if t == "app":
        return f"({ir[1]} {coq(ir[2], 'N')})"
    if t == "ofidx":
        inner = coq(ir[1], "N")
        return f"(INR ({inner})%nat)" if R else f"(inject_Z (Z.of_nat ({inner})%nat))"
    if t in ("+", "-", "*", "/"):
        if dom == "N" and t == "/":
            raise Unsupported("division in index expression")
        return f"({coq(ir[1], dom)} {t} {coq(ir[2], dom)})"
    if t == "pow":
        return f"({coq(ir[1], dom)} ^ {ir[2]})"
    if t == "neg":
        return f"(- {coq(ir[1], dom)})"
    if t == "max":
        if R:
            return f"(Rmax {coq(ir[1], dom)} {coq(ir[2], dom)})"
        return f"(Qmax {coq(ir[1], dom)} {coq(ir[2], dom)})"
    if t in ("ln", "sqrt", "abs", "pi"):
        if not R:
            if t == "abs":
                return f"(Qabs {coq(ir[1], dom)})"
            raise Unsupported("transcendental in Q")
        if t == "pi":
            return "PI"
        return "(" + {"ln": "ln", "sqrt": "sqrt", "abs": "Rabs"}[t] + " " + coq(ir[1], dom) + ")"
    raise Unsupported(f"printer: {t}")


def pyeval(ir, env):
    """Evaluate the IR with Python floats (env: variables; prefix variables map to sequences)."""
    t = ir[0]
    if t == "var":
        return env[ir[1]]
    if t == "const":
        return float(ir[1]) if ir[1].denominator != 1 else int(ir[1])
    if t == "app":
        return env[ir[1]][pyeval(ir[2], env)]
    if t == "ofidx":
        return pyeval(ir[1], env)
    if t == "+":
        return pyeval(ir[1], env) + pyeval(ir[2], env)
    if t == "-":
        return pyeval(ir[1], env) - pyeval(ir[2], env)
    if t == "*":
        return pyeval(ir[1], env) * pyeval(ir[2], env)
    if t == "/":
        return pyeval(ir[1], env) / pyeval(ir[2], env)
    if t == "pow":
        return pyeval(ir[1], env) ** ir[2]
    if t == "neg":
        return -pyeval(ir[1], env)
    if t == "max":
        return max(pyeval(ir[1], env), pyeval(ir[2], env))
    if t == "ln":
        return math.log(pyeval(ir[1], env))
    if t == "sqrt":
        return math.sqrt(pyeval(ir[1], env))
    if t == "abs":
        return abs(pyeval(ir[1], env))
    if t == "pi":
        return math.pi
    raise Unsupported(t)


def _binder(sig, v, dom):
    num = "R" if dom == "R" else "Q"
    kinds = sig.get("kinds", {})
    for role in list(sig["args"].values()) + list(sig.get("closure", {}).values()):
        k, nm = role.split(":")
        if nm == v:
            if k in ("idx", "int"):
                return f"({v} : nat)"
            if k == "prefix":
                return f"({v} : nat -> {num})"
            return f"({v} : {num})"
    if kinds.get(v) == "nat":
        return f"({v} : nat)"
    return f"({v} : {num})"


def coq_name(fn):
    return SIG[fn].get("name", fn.lstrip("_"))


def emit(repo, dom):
    lines = ["(* GENERATED on every check run by /verif/translator/py2coq.py from the kernel sources",
             "   under /repo -- do not edit; see DESIGN.md section 2.2. *)"]
    if dom == "R":
        lines += ["From Coq Require Import Reals.", "Open Scope R_scope.", ""]
    else:
        lines += ["From Coq Require Import QArith Qabs Qminmax.", "Open Scope Q_scope.", ""]
    for fn in ORDER:
        sig = SIG[fn]
        ir = to_ir(fn, repo)
        binders = " ".join(_binder(sig, v, dom) for v in sig["coq"])
        num = "R" if dom == "R" else "Q"
        nm = coq_name(fn)
        try:
            if ir[0] == "pair":
                a, b = coq(ir[1], dom), coq(ir[2], dom)
                lines.append(f"Definition {nm}_alpha_{dom} {binders} : {num} := {a}.")
                lines.append(f"Definition {nm}_beta_{dom} {binders} : {num} := {b}.")
            else:
                lines.append(f"Definition {nm}_{dom} {binders} : {num} := {coq(ir, dom)}.")
        except Unsupported as ex:
            if dom == "R":
                raise
            lines.append(f"(* no Q twin for {nm}: {ex} *)")
    return "\n".join(lines) + "\n"


def generate(repo, gendir):
    """Write Gen/KernelsR.v and Gen/KernelsQ.v (only when their content changed)."""
    os.makedirs(gendir, exist_ok=True)
    try:
        outs = {"KernelsR.v": emit(repo, "R"), "KernelsQ.v": emit(repo, "Q")}
    except Unsupported as ex:
        return False, f"Unsupported: {ex}"
    for f, body in outs.items():
        p = os.path.join(gendir, f)
        if not os.path.exists(p) or open(p).read() != body:
            with open(p, "w") as fh:
                fh.write(body)
    return True, "ok"


if __name__ == "__main__":
    import sys
    repo = sys.argv[1] if len(sys.argv) > 1 else "/repo"
    print(emit(repo, "R"))
    print(emit(repo, "Q"))
