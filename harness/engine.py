"""Common engine of the skchange verification checks.

One check run (see DESIGN.md section 3):
  (1) regenerate coq/Gen/*.v from /repo (translator), build the Coq development
      (full .vo), compile Properties/Cxx.v and read its Print Assumptions output;
  (2) correspondence: run the real implementation (imported from /repo's working
      tree) and the Coq models on the same inputs (cases_*.v + Eval vm_compute);
  (3) verdict, evidence file, VIOLATION / KNOWN-FINDING lines, exit code.
"""
import fcntl
import hashlib
import importlib
import json
import os
import random
import re
import shutil
import subprocess
import sys
import time
import traceback

VERIF = os.path.dirname(os.path.dirname(os.path.abspath(__file__)))
REPO = os.environ.get("SKCHANGE_REPO", "/repo")
COQ = os.path.join(VERIF, "coq")
BUILD = os.path.join(VERIF, "build")
REPLAYS = os.path.join(VERIF, "replays") if os.environ.get("SKCHANGE_REPO", "/repo") == "/repo" else os.path.join(VERIF, "build", "replays_scratch")
# runs against a scratch tree (SKCHANGE_REPO set: seeded changes) must not overwrite the evidence of the real tree
EVIDENCE = os.environ.get("VERIF_EVIDENCE_DIR") or (os.path.join(VERIF, "evidence") if REPO == "/repo" else os.path.join(VERIF, "build", "evidence_scratch"))
CORPUS = os.path.join(VERIF, "corpus")
NCPU = os.cpu_count() or 4

ALLOWED_AXIOMS = {
    # axioms of Coq's standard library of real numbers, as Print Assumptions names them
    "ClassicalDedekindReals.sig_forall_dec",
    "ClassicalDedekindReals.sig_not_dec",
    "FunctionalExtensionality.functional_extensionality_dep",
    # excluded middle: Coq 8.16's stdlib `ln` itself depends on it (ln -> Rln -> ln_exists -> MVT),
    # so every theorem whose statement mentions ln lists it
    "Classical_Prop.classic",
}
# primitives (not axioms) that Print Assumptions lists for PrimFloat / Uint63 developments
ALLOWED_PRIMITIVE_PREFIXES = ("PrimFloat.", "Uint63.", "PrimInt63.", "FloatOps.", "SpecFloat.",
                              "FloatAxioms.", "Uint63Axioms.", "PrimArray.")

FORBIDDEN = re.compile(
    r"\b(Admitted|admit|Axiom|Axioms|Parameter|Parameters|Conjecture|Conjectures|Abort All)\b"
    r"|Unset\s+Guard\s+Checking|Unset\s+Positivity\s+Checking|Unset\s+Universe\s+Checking"
    r"|bypass_check|Admit\s+Obligations|type-in-type|impredicative-set|native_compute"
)


def log(*a):
    print(*a, file=sys.stderr, flush=True)


def sh(cmd, timeout=1800, cwd=None, env=None):
    e = dict(os.environ)
    e.pop("COQPATH", None)
    if env:
        e.update(env)
    try:
        p = subprocess.run(cmd, shell=isinstance(cmd, str), cwd=cwd, env=e, timeout=timeout,
                           stdout=subprocess.PIPE, stderr=subprocess.PIPE, text=True)
        return p.returncode, p.stdout, p.stderr
    except subprocess.TimeoutExpired as ex:
        return 124, (ex.stdout or b"").decode() if isinstance(ex.stdout, bytes) else (ex.stdout or ""), "TIMEOUT"


# --------------------------------------------------------------------------------------
# Coq build
# --------------------------------------------------------------------------------------
class BuildLock:
    def __enter__(self):
        os.makedirs(BUILD, exist_ok=True)
        self.f = open(os.path.join(BUILD, ".coq.lock"), "w")
        fcntl.flock(self.f, fcntl.LOCK_EX)
        return self

    def __exit__(self, *a):
        fcntl.flock(self.f, fcntl.LOCK_UN)
        self.f.close()


def strip_comments(src):
    """Remove (nested) Coq comments and string literals."""
    out, depth, i, n = [], 0, 0, len(src)
    in_str = False
    while i < n:
        if in_str:
            if src[i] == '"':
                in_str = False
            i += 1
            continue
        if src.startswith("(*", i):
            depth += 1
            i += 2
            continue
        if depth and src.startswith("*)", i):
            depth -= 1
            i += 2
            continue
        if depth == 0:
            if src[i] == '"':
                in_str = True
            else:
                out.append(src[i])
        i += 1
    return "".join(out)


def forbidden_gate():
    """grep-style gate over every .v file of the development (comments stripped)."""
    hits = []
    for root, _, files in os.walk(COQ):
        for f in files:
            if f.endswith(".v"):
                path = os.path.join(root, f)
                body = strip_comments(open(path).read())
                for mm in FORBIDDEN.finditer(body):
                    hits.append(f"{os.path.relpath(path, COQ)}: {mm.group(0)}")
    return hits


def regenerate_gen():
    """Run the translator; returns (ok, message). Writes coq/Gen/*.v only when changed."""
    try:
        sys.path.insert(0, os.path.join(VERIF, "translator"))
        import py2coq
        importlib.reload(py2coq)
        return py2coq.generate(REPO, os.path.join(COQ, "Gen"))
    except Exception as ex:  # fail closed
        return False, f"translator aborted: {type(ex).__name__}: {ex}"
    finally:
        sys.path.pop(0)


def coq_make(targets=None, timeout=3000):
    """Full .vo build of the requested targets (all when None). Returns (ok, log)."""
    with BuildLock():
        mk = os.path.join(COQ, "Makefile")
        cp = os.path.join(COQ, "_CoqProject")
        if (not os.path.exists(mk)) or os.path.getmtime(mk) < os.path.getmtime(cp):
            rc, out, err = sh("coq_makefile -f _CoqProject -o Makefile", cwd=COQ, timeout=120)
            if rc != 0:
                return False, out + err
        tg = " ".join(targets) if targets else ""
        rc, out, err = sh(f"make -j{NCPU} {tg}", cwd=COQ, timeout=timeout)
        return rc == 0, (out + err)[-6000:]


def property_files(cid):
    """Properties/Cxx.v plus supplementary statement files Properties/Cxx_<part>.v (theorems that are derived FROM those of Cxx.v, e.g. their
    transfer to other number types, cannot live in Cxx.v itself)."""
    import glob
    extra = sorted(os.path.basename(f)[:-2] for f in glob.glob(os.path.join(COQ, "Properties", f"{cid}_*.v")))
    return [cid] + extra


def compile_properties(cid):
    """(Re)compile Properties/Cxx.v (and Cxx_*.v), return dict: theorem -> list of axioms, plus raw log."""
    res, names, raw = {}, [], ""
    for stem in property_files(cid):
        r1, n1, raw1 = _compile_property_file(stem)
        names += n1
        raw += raw1
        if r1 is None:
            return None, names, raw1
        res.update(r1)
    return res, names, raw


def _compile_property_file(cid):
    path = os.path.join(COQ, "Properties", f"{cid}.v")
    src = strip_comments(open(path).read())
    names = re.findall(r"Print\s+Assumptions\s+([A-Za-z0-9_'.]+)\s*\.", src)
    with BuildLock():
        rc, out, err = sh(f"coqc -Q . SK Properties/{cid}.v", cwd=COQ, timeout=1200)
    if rc != 0:
        return None, names, (out + err)[-4000:]
    blocks = re.split(r"(?m)^(?=Closed under the global context|Axioms:)", out)
    blocks = [b for b in blocks if b.startswith("Closed under") or b.startswith("Axioms:")]
    res = {}
    for nm, b in zip(names, blocks):
        if b.startswith("Closed under"):
            res[nm] = []
        else:
            res[nm] = re.findall(r"(?m)^([A-Za-z_][A-Za-z0-9_'.]*)\s*:", b[len("Axioms:"):])
    if len(blocks) != len(names):
        return None, names, f"could not parse Print Assumptions output ({len(blocks)} blocks for {len(names)} names)\n" + out[-2000:]
    return res, names, out



def coqchk_axioms(cid, timeout=2400):
    """Independent re-check of Properties/Cxx.vo and everything it depends on with coqchk -o.
    Returns (ok, axioms, detail)."""
    with BuildLock():
        mods = " ".join(f"SK.Properties.{stem}" for stem in property_files(cid))
        rc, out, err = sh(f"coqchk -silent -o -Q . SK {mods}", cwd=COQ, timeout=timeout)
    txt = out + err
    if rc != 0:
        return False, [], txt[-1500:]
    mm = re.search(r"\* Axioms:(.*?)\n\s*\n\* ", txt, re.S)
    axs = []
    if mm and "<none>" not in mm.group(1):
        axs = [a.strip() for a in mm.group(1).strip().splitlines() if a.strip()]
    unsafe = []
    for title in ("type-in-type", "unsafe (co)fixpoints", "positivity is assumed"):
        m2 = re.search(re.escape(title) + r":(.*?)(\n\s*\n|$)", txt, re.S)
        if m2 and "<none>" not in m2.group(1):
            unsafe.append(title + ":" + m2.group(1).strip()[:200])
    bad = [a for a in axs if not any(a.endswith(al) or a.endswith(al.split(".")[-1]) for al in ALLOWED_AXIOMS)
           and not any(pp.rstrip(".") in a for pp in ALLOWED_PRIMITIVE_PREFIXES)]
    return (not bad and not unsafe), axs, ("non-allowed axioms " + str(bad) if bad else "") + (" ".join(unsafe))


def _stdlib_primitive_names(_cache={}):
    """Names the STANDARD LIBRARY itself declares for primitive floats / 63-bit integers (Primitive ...) and the axioms it states about them
    (FloatAxioms.v, Uint63.v).  Print Assumptions prints them with the shortest unambiguous name, often without the module prefix.
    Our own development declares nothing (forbidden_gate), so a bare name from this list can only be the standard library's."""
    if "names" not in _cache:
        names = set()
        root = "/usr/lib/ocaml/coq/theories"
        for rel in ("Floats/PrimFloat.v", "Floats/FloatAxioms.v", "Numbers/Cyclic/Int63/PrimInt63.v", "Numbers/Cyclic/Int63/Uint63.v"):
            try:
                src = strip_comments(open(os.path.join(root, rel)).read())
            except OSError:
                continue
            names |= set(re.findall(r"(?m)^\s*(?:Primitive|Axiom)\s+([A-Za-z_][A-Za-z0-9_']*)", src))
        _cache["names"] = names
    return _cache["names"]


def axioms_ok(axs):
    bad = []
    for a in axs:
        if a in ALLOWED_AXIOMS or a.startswith(ALLOWED_PRIMITIVE_PREFIXES):
            continue
        if "." not in a and a in _stdlib_primitive_names():
            continue
        bad.append(a)
    return bad


# --------------------------------------------------------------------------------------
# Evaluating the models inside Coq
# --------------------------------------------------------------------------------------
def coq_list(xs):
    return "[" + "; ".join(xs) + "]"


def zlit(v):
    v = int(v)
    return f"({v})" if v < 0 else str(v)


def zlist(xs):
    return coq_list([zlit(v) for v in xs])


def nlist(xs):
    return coq_list([f"{int(v)}%nat" for v in xs])


def zmat(m):
    return coq_list([zlist(r) for r in m])


def pairs_nat(ps):
    return coq_list([f"({int(a)}%nat, {int(b)}%nat)" for a, b in ps])


def coq_bool(b):
    return "true" if b else "false"


_num_re = re.compile(r"-?\d+")


def run_coq_file(path, timeout=900):
    rc, out, err = sh(f"coqc -Q {COQ} SK {path}", cwd=os.path.dirname(path), timeout=timeout)
    return rc, out, err


def coq_eval(cid, header, exprs, tag="eval", timeout=900):
    """Evaluate a list of closed Coq expressions with vm_compute; returns list of raw strings."""
    d = os.path.join(BUILD, cid)
    os.makedirs(d, exist_ok=True)
    path = os.path.join(d, f"{tag}.v")
    with open(path, "w") as f:
        f.write(header + "\nSet Printing Width 1000000. Set Printing Depth 1000000.\n")
        for i, e in enumerate(exprs):
            f.write(f'Goal True. idtac "@@{i}". exact I. Qed.\nEval vm_compute in ({e}).\n')
    rc, out, err = run_coq_file(path, timeout)
    if rc != 0:
        raise RuntimeError(f"coqc failed on {path}: {(out + err)[-3000:]}")
    parts = re.split(r"@@(\d+)\n", out)
    res = {}
    for k in range(1, len(parts), 2):
        res[int(parts[k])] = parts[k + 1].strip()
    return [res.get(i, "") for i in range(len(exprs))]


def coq_bad_cases(cid, header, case_type, checker, cases, shard=300, tag="cases", timeout=1500):
    """cases: list of Coq terms of type [case_type]; [checker : case_type -> bool].
    Returns sorted list of indices whose check evaluates to false."""
    d = os.path.join(BUILD, cid)
    os.makedirs(d, exist_ok=True)
    files = []
    for k in range(0, len(cases), shard):
        path = os.path.join(d, f"{tag}_{k // shard}.v")
        with open(path, "w") as f:
            f.write(header + "\n")
            f.write(f"Definition cases : list ({case_type}) := [\n")
            f.write(";\n".join(cases[k:k + shard]))
            f.write("\n].\nSet Printing Width 1000000. Set Printing Depth 1000000.\n")
            f.write(f"Eval vm_compute in (length cases, bad_indices ({checker}) cases).\n")
        files.append((k, path))
    bad = []
    procs = []
    env = dict(os.environ)
    env.pop("COQPATH", None)
    pending = list(files)
    running = []
    failed = []
    while pending or running:
        while pending and len(running) < NCPU:
            k, path = pending.pop(0)
            p = subprocess.Popen(f"ulimit -s unlimited 2>/dev/null; timeout {timeout} coqc -Q {COQ} SK {path}", shell=True,
                                 cwd=d, env=env, stdout=subprocess.PIPE, stderr=subprocess.PIPE, text=True)
            running.append((k, path, p))
        for item in list(running):
            k, path, p = item
            if p.poll() is not None:
                out, err = p.communicate()
                running.remove(item)
                if p.returncode != 0:
                    failed.append((path, (out + err)[-2000:]))
                    continue
                mm = re.search(r"=\s*\((\d+)%?n?a?t?,\s*(\[.*?\]|nil)", out, re.S)
                if not mm:
                    failed.append((path, "unparsable: " + out[-500:]))
                    continue
                cnt = int(mm.group(1))
                expect = min(shard, len(cases) - k)
                if cnt != expect:
                    failed.append((path, f"count mismatch {cnt} != {expect}"))
                bad += [k + int(x) for x in _num_re.findall(mm.group(2))]
        time.sleep(0.02)
    if failed:
        raise RuntimeError("coq case evaluation failed: " + json.dumps(failed[:3])[:3000])
    return sorted(bad)


# --------------------------------------------------------------------------------------
# Known findings
# --------------------------------------------------------------------------------------
def load_known():
    p = os.path.join(VERIF, "known_findings.json")
    if not os.path.exists(p):
        return {"findings": [], "fixed": []}
    return json.load(open(p))


def match_known(cid, viol, known):
    """A violation record is suppressed only when every key of an entry's `match`
    equals the same key of the record (field by field)."""
    for k in known.get("findings", []):
        if k.get("property") != cid:
            continue
        m = k.get("match", {})
        if m and all(viol.get("sig", {}).get(kk) == vv for kk, vv in m.items()):
            return k
    return None


# --------------------------------------------------------------------------------------
# Context handed to the per-property modules
# --------------------------------------------------------------------------------------
class Ctx:
    def __init__(self, cid, tier, seed):
        self.cid, self.tier, self.seed = cid, tier, seed
        self.rng = random.Random(seed * 1000003 + int(cid[1:]))
        self.scale = 1          # multiplied by the search phase
        self.evaluations = 0
        self.nontrivial = set()
        self.samples = []
        self.violations = []     # concrete property failures (with replay input)
        self.mismatches = []     # model <> implementation, property not (yet) shown to fail
        self.notes = {}
        self.dist = {}
        self.exhaustive = False
        self.traces = 0

    def quick(self):
        return self.tier == "quick"

    def n(self, quick, thorough):
        return int((quick if self.tier == "quick" else thorough) * self.scale)

    def count(self, key, sub=None):
        d = self.dist.setdefault(key, {})
        d[str(sub)] = d.get(str(sub), 0) + 1

    def case(self, canon, nontrivial=True, sample=None):
        self.evaluations += 1
        if nontrivial:
            self.nontrivial.add(hashlib.sha1(json.dumps(canon, sort_keys=True, default=str).encode()).hexdigest())
        if sample is not None and len(self.samples) < 6:
            self.samples.append(sample)

    def violation(self, what, inp, sig=None, kind="property"):
        rec = {"kind": kind, "what": what, "input": inp, "sig": sig or {}}
        (self.violations if kind == "property" else self.mismatches).append(rec)

    def mismatch(self, what, inp, sig=None):
        self.violation(what, inp, sig, kind="mismatch")


def write_replay(cid, rec):
    d = os.path.join(REPLAYS, cid)
    os.makedirs(d, exist_ok=True)
    body = json.dumps(rec, indent=1, sort_keys=True, default=str)
    h = hashlib.sha1(body.encode()).hexdigest()[:12]
    p = os.path.join(d, f"{h}.json")
    with open(p, "w") as f:
        f.write(body)
    return p


def validate_evidence(ev):
    try:
        import jsonschema
        schema = json.load(open("/root/.vp/EVIDENCE.schema.json")) if os.path.exists("/root/.vp/EVIDENCE.schema.json") \
            else json.load(open(os.path.join(VERIF, "tools", "EVIDENCE.schema.json")))
        jsonschema.validate(ev, schema)
        return None
    except Exception as ex:
        return f"{type(ex).__name__}: {str(ex)[:400]}"


def run_check(cid, tier, seed):
    t0 = time.time()
    mod = importlib.import_module(f"harness.{cid.lower()}")
    info = mod.INFO
    known = load_known()
    out_lines = []
    exit_code = 0
    ctx = Ctx(cid, tier, seed)
    theorem_fail = []      # obligations that did not check
    obligations, discharged, assumptions_seen = [], [], {}

    # ---- (1) proofs ----
    gate = forbidden_gate()
    if gate:
        theorem_fail.append({"obligation": "forbidden-construct gate", "detail": gate[:10]})
    gen_ok, gen_msg = regenerate_gen()
    if not gen_ok:
        theorem_fail.append({"obligation": "translator (Gen/*.v regeneration)", "detail": gen_msg})
    targets = [f"Properties/{stem}.vo" for stem in property_files(cid)] + list(info.get("extra_targets", []))
    ok, blog = coq_make(targets)
    if not ok:
        theorem_fail.append({"obligation": f"coq build of {targets}", "detail": blog[-3000:]})
    else:
        res, names, raw = compile_properties(cid)
        obligations = list(names)
        if res is None:
            theorem_fail.append({"obligation": f"Properties/{cid}.v", "detail": raw[-3000:]})
        else:
            for nm in names:
                bad = axioms_ok(res[nm])
                assumptions_seen[nm] = res[nm]
                if bad:
                    theorem_fail.append({"obligation": nm, "detail": f"depends on non-allowed axioms {bad}"})
                else:
                    discharged.append(nm)

    coqchk = None
    if tier == "thorough" and ok and not os.environ.get("VERIF_NO_COQCHK"):
        ck_ok, ck_axs, ck_detail = coqchk_axioms(cid)
        coqchk = {"ok": ck_ok, "axioms": ck_axs, "detail": ck_detail[:500]}
        obligations.append("coqchk -o SK.Properties." + cid)
        if ck_ok:
            discharged.append("coqchk -o SK.Properties." + cid)
        else:
            theorem_fail.append({"obligation": "coqchk -o (independent re-check of the compiled theorems)", "detail": ck_detail[:1500]})

    # ---- (2) correspondence ----
    corr_error = None
    try:
        mod.run(ctx)
    except Exception as ex:
        corr_error = f"{type(ex).__name__}: {ex}\n{traceback.format_exc()[-3000:]}"
        ctx.mismatches.append({"kind": "mismatch", "what": "correspondence harness could not run: " + corr_error[:1500],
                               "input": None, "sig": {"harness_error": type(ex).__name__}})

    # ---- search phase: a tie is broken but no failing input yet ----
    searched = False
    if (theorem_fail or ctx.mismatches) and not ctx.violations and corr_error is None and hasattr(mod, "run"):
        searched = True
        sctx = Ctx(cid, tier, seed + 7919)
        sctx.scale = 6
        try:
            mod.run(sctx)
            ctx.violations += sctx.violations
            ctx.evaluations += sctx.evaluations
            ctx.nontrivial |= sctx.nontrivial
        except Exception as ex:
            log("search phase failed:", ex)

    # ---- (3) verdict ----
    known_hits, reported = [], []
    seen = set()
    for v in ctx.violations:
        k = match_known(cid, v, known)
        if k is not None:
            if k["id"] not in seen:
                seen.add(k["id"])
                known_hits.append(k["id"])
                out_lines.append(f"KNOWN-FINDING: property={cid} {k['what']}")
            continue
        reported.append(v)
    if reported:
        # one VIOLATION line per distinct signature (at most 5), each with a concrete replay
        sigs = set()
        for v in reported:
            s = json.dumps(v.get("sig"), sort_keys=True, default=str)
            if s in sigs or len(sigs) >= 5:
                continue
            sigs.add(s)
            p = write_replay(cid, {"property": cid, "kind": "failing-input", "seed": seed, "tier": tier, **v})
            out_lines.append(f"VIOLATION property={cid} replay={p}")
        exit_code = 1
    elif theorem_fail or ctx.mismatches:
        p = write_replay(cid, {"property": cid, "kind": "broken-tie", "seed": seed, "tier": tier,
                               "obligations_not_checking": theorem_fail,
                               "correspondence_mismatches": ctx.mismatches[:10],
                               "search": "search phase ran" if searched else "no search possible"})
        out_lines.append(f"VIOLATION property={cid} replay={p} no-failing-input-found")
        exit_code = 1

    ev = {
        "property_id": cid,
        "tier": tier,
        "seed": seed,
        "level": info.get("level", "proof"),
        "coverage": {
            "obligations": max(len(obligations), 1),
            "discharged": len(discharged),
            "obligation_names": obligations,
            "checker_cmd": f"cd coq && make Properties/{cid}.vo && coqc -Q . SK Properties/{cid}.v  (Print Assumptions parsed)",
            "trusted_base": info.get("trusted_base", []),
            "axioms_per_theorem": assumptions_seen,
            "coqchk": coqchk,
            "evaluations": max(ctx.evaluations, 1),
            "distinct_nontrivial": len(ctx.nontrivial),
            "traces_validated_against_impl": ctx.evaluations,
            "rule": info.get("rule", ""),
            "samples": ctx.samples or ["(no sample recorded)"],
            "input_distribution": ctx.dist,
            "exhaustive": bool(ctx.exhaustive),
            "notes": ctx.notes,
            "known_findings_hit": known_hits,
            "mismatches": len(ctx.mismatches),
            "obligations_failed": theorem_fail[:5],
        },
        "assumptions": info.get("assumptions", []),
        "wall_s": round(time.time() - t0, 2),
        "violations": len(reported) + (1 if (exit_code and not reported) else 0),
    }
    err = validate_evidence(ev)
    if err:
        log("evidence does not validate:", err)
    os.makedirs(EVIDENCE, exist_ok=True)
    with open(os.path.join(EVIDENCE, f"{cid}.json"), "w") as f:
        json.dump(ev, f, indent=1, sort_keys=True, default=str)
    for line in out_lines:
        print(line, flush=True)
    print(f"[{cid}] tier={tier} seed={seed} theorems {len(discharged)}/{len(obligations)} "
          f"cases={ctx.evaluations} nontrivial={len(ctx.nontrivial)} mismatches={len(ctx.mismatches)} "
          f"violations={len(reported)} known={known_hits} wall={ev['wall_s']}s exit={exit_code}", flush=True)
    shutil.rmtree(os.path.join(BUILD, cid), ignore_errors=True)
    return exit_code
