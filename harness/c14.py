"""C14: documented-valid configurations always run; invalid ones fail with ValueError."""
import itertools

import numpy as np
import pandas as pd

from harness.engine import coq_bad_cases, coq_bool, zlit

INFO = {
    "extra_targets": [],
    "level": "proof",
    "rule": "exhaustive grid: for each of the seven detectors every combination of boundary and interior values of its hyper-parameters "
            "(min_segment_length 0..5, max lengths around the minimum, bandwidth 0..6, min_detection_interval 0..3, growth factors 1.0, 1.01, 1.5, 2.0, 2.5, "
            "scales -1 / 0 / 1 / None, built-in scorers with min_size 1, 2 and p+1, point savings with min_size 1 and 2, anomaliser bounds) x p in 1..3 x "
            "n from min_len - 2 to min_len + 6 x {no NaN, NaN}; outcome class of construct -> fit -> predict must equal Model/Config.expected (decided in Coq); "
            "any exception class other than ValueError is a violation; a completed run must return a frame with an ilocs column; non-trivial = configuration "
            "on a boundary of the documented domain or a rejected one",
    "trusted_base": ["Coq 8.16.1 kernel + vm_compute", "harness/c14.py (grid, abstraction of a configuration to the quantities the checks look at)",
                     "Model/Config.v hand-written"],
    "assumptions": ["level and the penalty family are outside the hyper-parameters C14 lists (level fixed at valid values; the 'intermediate' penalty with "
                    "p = 1 is excluded: it is defined for p >= 2 and says so with a ValueError)",
                    "random normal data: the not-positive-definite branch of the multivariate Gaussian cost is not generated here (C01 exercises it)"],
}
HEADER = ("From Coq Require Import ZArith List Bool.\nFrom SK Require Import Lib.Base Model.Config.\nImport ListNotations.\nOpen Scope Z_scope.\n"
          "Definition c14_case := (det * cfg * Z * bool * bool * bool)%type.\n"
          "(* detector, configuration, n, has NaN, anomaliser bounds ok, implementation completed *)\n"
          "Definition c14_ok (c : c14_case) : bool := let '(d, cf, n, nan, lohi, completed) := c in\n"
          "  match expected_anomaliser lohi d cf n nan with Completes => completed | RaisesValueError => negb completed | MayRaiseValueError => true end.")


def cfg_term(m=0, M=0, b=0, mdi=0, gf_ok=True, scales_ok=True, ms=1, pms=1):
    return ("{| c_m := %s; c_M := %s; c_b := %s; c_mdi := %s; c_gf_ok := %s; c_scales_ok := %s; c_ms := %s; c_pms := %s |}"
            % (zlit(m), zlit(M), zlit(b), zlit(mdi), coq_bool(gf_ok), coq_bool(scales_ok), zlit(ms), zlit(pms)))


def run(ctx):
    from harness.timelimit import Hang, time_limit
    from skchange.anomaly_detectors import CAPA, MVCAPA, CircularBinarySegmentation, StatThresholdAnomaliser
    from skchange.anomaly_scores import L2Saving, Saving
    from skchange.change_detectors import PELT, MovingWindow, SeededBinarySegmentation
    from skchange.change_scores import CUSUM
    from skchange.costs import GaussianCovCost, GaussianVarCost, L2Cost
    rng = np.random.default_rng(ctx.seed + 14)
    quick = ctx.quick()
    cases, meta = [], []

    storage = {"i": 0}

    def attempt(mk, n, p, nan, min_len=None):
        """-> ('completed' | 'ValueError' | 'other:<Class>', stage, message)"""
        stage = "construct"
        try:
            d = mk()
            storage["i"] += 1
            X = pd.DataFrame(rng.normal(size=(max(n, 0), p)) * 2 + np.arange(max(n, 0)).reshape(-1, 1) * 0.01)
            if storage["i"] % 5 == 4:
                # "every finite input": constant data (scores are pure rounding noise, a tuned threshold can be zero or slightly negative)
                X = pd.DataFrame(np.full((max(n, 0), p), [3.7, 0.1, 7.77][(storage["i"] // 5) % 3]))
                ctx.count("data", "constant")
            if storage["i"] % 11 == 10:
                # "every finite input": finite numbers so large that their plain sum overflows (1e307 .. 1e308)
                X = pd.DataFrame((rng.normal(size=(max(n, 0), p)) * 0.3 + 1.0) * 1e307)
                ctx.count("data", "huge-finite")
            if nan and n > 0:
                # a missing value anywhere makes the data inadmissible: interior, first or last row, or a whole border row
                where = storage["nan"] = storage.get("nan", 0) + 1
                if where % 5 == 0:
                    X.iloc[n // 2, p - 1] = np.nan
                elif where % 5 == 1:
                    X.iloc[0, p - 1] = np.nan
                elif where % 5 == 2:
                    X.iloc[n - 1, 0] = np.nan
                elif where % 5 == 3:
                    X.iloc[0, :] = np.nan
                else:
                    X.iloc[n - 1, :] = np.nan
                ctx.count("nan_position", ["interior", "first row", "last row", "whole first row", "whole last row"][where % 5])
            # the same numbers in other column storages (every 7th attempt): pandas nullable Float64, object dtype, integer-valued nullable Int64 next to float64
            if n > 0 and storage["i"] % 7 == 0 and storage["i"] % 11 != 10:
                kind_s = (storage["i"] // 7) % 2
                if kind_s == 0:
                    X = X.astype("Float64")          # np.nan becomes pd.NA
                elif p >= 2 and not X[0].isna().any():
                    X[0] = (X[0].fillna(0).round() + np.arange(n) % 3).astype("Int64")
                # (object-dtype columns are outside the numeric dtypes the properties quantify over: PELT(GaussianCovCost) raises AttributeError
                #  inside np.cov on them -- noted in DESIGN.md, not part of this grid)
                ctx.count("storage", ["Float64", "Int64+float64"][kind_s])
            # "runs" also when the fitted detector is applied to ANOTHER valid series: every third attempt predicts a longer series (the rows of X followed by its
            # first rows again) as a frame; and, when the columns are plain float64 without missing values, a second detector is fitted on the bare ARRAY and applied to
            # a longer and (if the configuration's minimum length allows) a shorter bare array
            Xnew = X
            extra = []
            if n > 0 and storage["i"] % 3 == 1:
                Xnew = pd.concat([X, X.iloc[: 5 + storage["i"] % 4]], ignore_index=True)
                ctx.count("applied_to", "another series (frame)")
            if n > 0 and (storage["i"] % 3 == 1 or (min_len is not None and n >= min_len + 6)) and all(str(t) == "float64" for t in X.dtypes) and not nan:
                extra = [np.vstack([X.to_numpy(), X.to_numpy()[:5]])] + ([X.to_numpy()[: n - 4].copy()] if min_len is not None and n >= min_len + 6 else [])
            with time_limit(10):
                stage = "fit"
                d.fit(X)
                stage = "predict"
                y = d.predict(Xnew)
                if extra:
                    stage = "predict on another array"
                    d2 = mk().fit(X.to_numpy().copy())
                    for Xe in extra:
                        ctx.count("applied_to", "another series (arrays)")
                        try:
                            d2.predict(Xe)
                        except ValueError as ex:
                            return "other:ValueError", stage, f"fitted on an array of {n} rows, a valid array of {len(Xe)} rows is rejected: {str(ex)[:60]}"
            if not (isinstance(y, pd.DataFrame) and "ilocs" in y.columns and isinstance(y.index, pd.RangeIndex)):
                return "other:MalformedOutput", stage, str(type(y))
            # integer locations also when nothing is detected: int64 changepoints, or left-closed int64 intervals
            dt = y["ilocs"].dtype
            if not (dt == np.int64 or (isinstance(dt, pd.IntervalDtype) and dt.subtype == np.int64 and dt.closed == "left")):
                return "other:MalformedOutput", stage, f"ilocs has dtype {dt} ({len(y)} detections)"
            return "completed", stage, ""
        except ValueError as ex:
            return "ValueError", stage, str(ex)[:90]
        except Hang as ex:
            return "other:DoesNotReturn", stage, str(ex)[:90]
        except RuntimeError as ex:
            if "positive definite" in str(ex):
                return "documented-npd", stage, str(ex)[:90]     # the documented error for a non-positive-definite sample covariance (constant data)
            return "other:RuntimeError", stage, str(ex)[:90]
        except Exception as ex:  # noqa
            return "other:" + type(ex).__name__, stage, str(ex)[:90]

    def record(det_coq, det_name, params, cfg, mk, p, min_len, boundary, lohi=True):
        ns = sorted(set([max(0, min_len - 2), max(0, min_len - 1), min_len, min_len + 1, min_len + 6] + ([] if quick else [min_len + 2, min_len + 3])))
        for n in ns:
            for nan in ([False, True] if (n >= min_len and n > 0 and (not quick or n in (min_len, min_len + 6))) else [False]):
                res, stage, msg = attempt(mk, n, p, nan, min_len)
                inp = {"detector": det_name, "params": params, "p": p, "n": n, "nan": nan, "outcome": res, "stage": stage, "message": msg}
                ctx.count("detector", det_name)
                ctx.count("outcome", res.split(":")[0] + "@" + stage)
                ctx.case({k: inp[k] for k in ("detector", "params", "p", "n", "nan")}, nontrivial=boundary or res != "completed" or n == min_len,
                         sample={k: inp[k] for k in ("detector", "params", "p", "n", "nan", "outcome", "stage")})
                if res == "documented-npd":
                    continue
                if res.startswith("other:"):
                    ctx.violation(f"{det_name}({params}) on n={n}, p={p}{', NaN' if nan else ''}: {stage} raised {res.split(':')[1]} ({msg}) -- only ValueError "
                                  f"or a well-formed result is permitted", inp, {"what": "exception-class", "detector": det_name, "cls": res.split(":")[1], "stage": stage})
                    continue
                cases.append(f"({det_coq}, {cfg}, {n}, {coq_bool(nan)}, {coq_bool(lohi)}, {coq_bool(res == 'completed')})")
                meta.append(inp)

    ps = [1, 2] if quick else [1, 2, 3]
    scales = [-1.0, 0.0, 1.0, None]
    # ---------------- PELT ----------------
    for p in ps:
        for (cn, mkc, ms) in [("L2Cost", L2Cost, 1), ("GaussianVarCost", GaussianVarCost, 2), ("GaussianCovCost", GaussianCovCost, p + 1)]:
            for m, sc in itertools.product([0, 1, 2, 3, 5], scales):
                ok_sc = sc is not None and sc >= 0            # PELT: tuning (None) is documented as not supported -> ValueError
                record("Pelt", "PELT", {"cost": cn, "min_segment_length": m, "penalty_scale": sc}, cfg_term(m=m, scales_ok=ok_sc, ms=ms),
                       lambda: PELT(cost=mkc(), penalty_scale=sc, min_segment_length=m), p, 2 * max(m, 0), m in (1, ms) or sc == 0)
    # ---------------- MovingWindow ----------------
    for p in ps:
        for (cn, mkc, ms) in [("CUSUM", CUSUM, 1), ("L2Cost", L2Cost, 1), ("GaussianVarCost", GaussianVarCost, 2)]:
            for b, mdi, sc in itertools.product([0, 1, 2, 3, 6], [0, 1, 2, 3], scales):
                if quick and cn == "L2Cost" and mdi not in (1, 2):
                    continue
                ok_sc = sc is None or sc >= 0
                record("Mw", "MovingWindow", {"change_score": cn, "bandwidth": b, "min_detection_interval": mdi, "threshold_scale": sc},
                       cfg_term(b=b, mdi=mdi, scales_ok=ok_sc, ms=ms),
                       lambda: MovingWindow(change_score=mkc(), bandwidth=b, threshold_scale=sc, min_detection_interval=mdi), p, 2 * max(b, 0),
                       b in (1, ms) or mdi in (1, b // 2 - 1) or sc in (0, None))
    # ---------------- seeded / circular binary segmentation ----------------
    for p in ps:
        for m in [0, 1, 2, 5]:
            for M in sorted(set([2 * m - 1, 2 * m, 2 * m + 1, 100])):
                for gf, sc in itertools.product([1.0, 1.01, 1.5, 2.0, 2.5], scales):
                    if quick and gf in (1.01, 2.5) and sc in (0.0, None) and M == 100:
                        continue
                    gf_ok = 1.0 < gf <= 2.0
                    ok_sc = sc is None or sc >= 0
                    for (cn, mkc, ms) in [("CUSUM", CUSUM, 1), ("GaussianVarCost", GaussianVarCost, 2)]:
                        if quick and cn != "CUSUM" and gf not in (1.5, 2.0):
                            continue
                        record("Sbs", "SeededBinarySegmentation", {"change_score": cn, "min_segment_length": m, "max_interval_length": M, "growth_factor": gf, "threshold_scale": sc},
                               cfg_term(m=m, M=M, gf_ok=gf_ok, scales_ok=ok_sc, ms=ms),
                               lambda: SeededBinarySegmentation(change_score=mkc(), threshold_scale=sc, min_segment_length=m, max_interval_length=M, growth_factor=gf),
                               p, 2 * max(m, 0), m == 1 or M == 2 * m or gf == 2.0)
                    for (cn, mkc, ms) in [("L2Cost", L2Cost, 1), ("GaussianVarCost", GaussianVarCost, 2)]:
                        if quick and cn != "L2Cost" and gf not in (1.5, 2.0):
                            continue
                        record("Cbs", "CircularBinarySegmentation", {"anomaly_score": cn, "min_segment_length": m, "max_interval_length": M, "growth_factor": gf, "threshold_scale": sc},
                               cfg_term(m=m, M=M, gf_ok=gf_ok, scales_ok=ok_sc, ms=ms),
                               lambda: CircularBinarySegmentation(anomaly_score=mkc(), threshold_scale=sc, min_segment_length=m, max_interval_length=M, growth_factor=gf),
                               p, 2 * max(m, 0), m == 1 or M == 2 * m or gf == 2.0)
    # ---------------- CAPA / MVCAPA ----------------
    for p in ps:
        savs = [("L2Saving", lambda: L2Saving(), 1), ("Saving(GaussianVarCost)", lambda: Saving(GaussianVarCost((0.0, 1.0))), 2)]
        for (sn, mks, ms) in savs:
            for m in [1, 2, 3]:
                for M in sorted(set([m - 1, m, m + 3, 1000])):
                    for (s1, s2) in [(-1.0, 1.0), (1.0, -1.0), (0.0, 0.0), (1.0, 1.0)]:
                        for (pn, mkp, pms) in [("L2Saving", lambda: L2Saving(), 1), ("Saving(GaussianVarCost)", lambda: Saving(GaussianVarCost((0.0, 1.0))), 2)]:
                            if pms == 2 and (quick and (m != 2 or M != m + 3)):
                                continue
                            ok_sc = s1 >= 0 and s2 >= 0
                            prm = {"collective_saving": sn, "point_saving": pn, "min_segment_length": m, "max_segment_length": M,
                                   "collective_penalty_scale": s1, "point_penalty_scale": s2}
                            record("Capa", "CAPA", prm, cfg_term(m=m, M=M, scales_ok=ok_sc, ms=ms, pms=pms),
                                   lambda: CAPA(collective_saving=mks(), point_saving=mkp(), collective_penalty_scale=s1, point_penalty_scale=s2,
                                                min_segment_length=m, max_segment_length=M), p, max(m, 0), m == 2 or M == m)
                            for pen in (["combined"] if quick else ["combined", "dense", "sparse"] + (["intermediate"] if p >= 2 else [])):
                                record("Mvcapa", "MVCAPA", dict(prm, collective_penalty=pen), cfg_term(m=m, M=M, scales_ok=ok_sc, ms=ms, pms=pms),
                                       lambda: MVCAPA(collective_saving=mks(), point_saving=mkp(), collective_penalty=pen, collective_penalty_scale=s1,
                                                      point_penalty_scale=s2, min_segment_length=m, max_segment_length=M), p, max(m, 0), m == 2 or M == m)
    # ---------------- StatThresholdAnomaliser ----------------
    for (lo, hi) in [(-1.0, 1.0), (0.5, 0.5), (1.0, -1.0), (2.0, 1.999)]:
        for m in [1, 2]:
            record("Pelt", "StatThresholdAnomaliser", {"change_detector": f"PELT(min_segment_length={m})", "stat_lower": lo, "stat_upper": hi},
                   cfg_term(m=m, scales_ok=True, ms=1),
                   lambda: StatThresholdAnomaliser(PELT(min_segment_length=m), stat_lower=lo, stat_upper=hi), 1, 2 * m, lo >= hi, lohi=lo <= hi)
    ctx.exhaustive = True
    bad = coq_bad_cases(ctx.cid, HEADER, "c14_case", "c14_ok", cases, shard=600)
    for i in bad[:60]:
        m = meta[i]
        want = "complete with well-formed output" if m["outcome"] != "completed" else "raise ValueError"
        ctx.violation(f"{m['detector']}({m['params']}) on n={m['n']}, p={m['p']}{', NaN' if m['nan'] else ''}: {m['outcome']} at {m['stage']}"
                      f"{' (' + m['message'] + ')' if m['message'] else ''}; the documented domain says it must {want}", m,
                      {"what": "outcome", "detector": m["detector"], "impl": m["outcome"], "stage": m["stage"]})
    # ---- a COST OBJECT that served another detector on data of another width: what it remembers must not decide whether a valid configuration runs ----
    from skchange.costs import GaussianCovCost as _GCr
    for rep in range(ctx.n(3, 12)):
        shared = _GCr()
        X3 = pd.DataFrame(rng.normal(size=(40, 3)))
        X1 = pd.DataFrame(rng.normal(size=(30, 1)))
        X1.iloc[15:] += 4.0
        inp = {"history": ["PELT(cost=c, min_segment_length=4).fit(40 x 3).predict", "PELT(cost=c, min_segment_length=2).fit(30 x 1).predict"], "cost": "GaussianCovCost"}
        ctx.case({"shared_cost": rep}, nontrivial=True)
        try:
            with time_limit(10):
                PELT(cost=shared, min_segment_length=4).fit(X3).predict(X3)
                second = PELT(cost=shared, min_segment_length=2).fit(X1)
                y2 = second.predict(X1)
                fresh = PELT(cost=_GCr(), min_segment_length=2).fit(X1).predict(X1)
            if y2["ilocs"].tolist() != fresh["ilocs"].tolist():
                ctx.violation(f"PELT(min_segment_length=2) on 30 x 1 data with a GaussianCovCost object that served a 3-column detector before reports {y2['ilocs'].tolist()}, "
                              f"with a fresh cost {fresh['ilocs'].tolist()}", inp, {"what": "shared-cost-object", "detector": "PELT"})
        except Exception as ex:
            ctx.violation(f"PELT(cost=c, min_segment_length=2) on 30 x 1 data raised {type(ex).__name__}: {str(ex)[:120]} -- the configuration is valid (the cost needs p + 1 = 2 rows) and "
                          f"runs with a fresh cost object; c had served a 3-column detector before", inp, {"what": "shared-cost-object", "detector": "PELT", "cls": type(ex).__name__})
    # ---- DEFAULT configurations on long, wide series run to completion with well-formed output (no hyper-parameter passed at all) ----
    from skchange.anomaly_detectors import CAPA as _CAPAl, MVCAPA as _MVCAPAl, CircularBinarySegmentation as _CBSl, StatThresholdAnomaliser as _STAl
    from skchange.change_detectors import MovingWindow as _MWl, SeededBinarySegmentation as _SBSl
    for n_l, p_l in [(600, 10), (2500, 3), (1100, 1), (250, 1), (163, 2)]:
        Xl = pd.DataFrame(rng.normal(size=(n_l, p_l)))
        Xl.iloc[n_l // 3: n_l // 2] += 3.0
        for name_l, mk_l in [("PELT", PELT), ("MovingWindow", _MWl), ("SeededBinarySegmentation", _SBSl), ("CAPA", _CAPAl), ("MVCAPA", _MVCAPAl),
                             ("StatThresholdAnomaliser(PELT())", lambda: _STAl(PELT()))] + ([("CircularBinarySegmentation", _CBSl)] if n_l <= 250 else []):
            if name_l.startswith("Stat") and p_l != 1:
                continue
            inp = {"detector": name_l, "defaults": True, "n": n_l, "p": p_l}
            ctx.case({"default_long": name_l, "n": n_l, "p": p_l}, nontrivial=True)
            try:
                with time_limit(120):
                    y_l = mk_l().fit(Xl).predict(Xl)
                dt = y_l["ilocs"].dtype
                if not (isinstance(y_l.index, pd.RangeIndex) and (dt == np.int64 or (isinstance(dt, pd.IntervalDtype) and dt.subtype == np.int64 and dt.closed == "left"))):
                    ctx.violation(f"{name_l}() on a {n_l} x {p_l} series: malformed output (index {type(y_l.index).__name__}, ilocs dtype {dt})", inp, {"what": "default-long-malformed", "detector": name_l})
                if n_l >= 600 and not name_l.startswith("Circular"):
                    Xn_l = Xl.copy()
                    Xn_l.iloc[n_l // 2 + 7, p_l - 1] = np.nan
                    for stage_l in ("fit", "predict"):
                        try:
                            with time_limit(120):
                                (mk_l().fit(Xn_l) if stage_l == "fit" else mk_l().fit(Xl).predict(Xn_l))
                            ctx.violation(f"{name_l}(): {stage_l} on a {n_l} x {p_l} series containing a NaN completed; it must raise ValueError", dict(inp, stage=stage_l),
                                          {"what": "default-long-nan-accepted", "detector": name_l})
                        except ValueError:
                            pass
            except Exception as ex:
                ctx.violation(f"{name_l}() with default hyper-parameters on a {n_l} x {p_l} series raised {type(ex).__name__}: {str(ex)[:120]}", inp,
                              {"what": "default-long-exception", "detector": name_l, "cls": type(ex).__name__})

