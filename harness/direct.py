"""Direct (definition-level) evaluation of the built-in scores from the rows X[s:e],
independent of the library's prefix-sum kernels.  Used as the reference for accepted cuts."""
import math

import numpy as np


def cost_direct(kind, param, X, s, e):
    """kind in {l2, gvar, gcov}; returns a 1-D array (p values, or 1 value for gcov)."""
    seg = np.asarray(X[s:e], dtype=float)
    n, p = seg.shape
    if kind == "l2":
        mu = seg.mean(axis=0) if param is None else np.broadcast_to(np.asarray(param, dtype=float).reshape(-1), (p,))
        return ((seg - mu) ** 2).sum(axis=0)
    if kind == "gvar":
        if param is None:
            mu = seg.mean(axis=0)
            var = np.maximum(((seg - mu) ** 2).mean(axis=0), 1e-16)
            return n * np.log(2 * np.pi * var) + n
        mu = np.broadcast_to(np.asarray(param[0], dtype=float).reshape(-1), (p,))
        var = np.broadcast_to(np.asarray(param[1], dtype=float).reshape(-1), (p,))
        return n * np.log(2 * np.pi * var) + ((seg - mu) ** 2).sum(axis=0) / var
    if kind == "gcov":
        if param is None:
            mu = seg.mean(axis=0)
            cov = (seg - mu).T @ (seg - mu) / n
        else:
            mu = np.broadcast_to(np.asarray(param[0], dtype=float).reshape(-1), (p,))
            cov = param[1] * np.eye(p) if np.isscalar(param[1]) else np.asarray(param[1], dtype=float)
        sign, logdet = np.linalg.slogdet(cov)
        if sign <= 0:
            raise RuntimeError("not positive definite")
        c = seg - mu
        quad = float(np.einsum("ij,jk,ik->", c, np.linalg.inv(cov), c))
        return np.array([n * p * math.log(2 * math.pi) + n * logdet + quad])
    raise KeyError(kind)


def change_direct(kind, X, s, k, e):
    return cost_direct(kind, None, X, s, e) - cost_direct(kind, None, X, s, k) - cost_direct(kind, None, X, k, e)


def cusum_direct(X, s, k, e):
    X = np.asarray(X, dtype=float)
    nb, na = k - s, e - k
    return np.sqrt(nb * na / (nb + na)) * np.abs(X[s:k].mean(axis=0) - X[k:e].mean(axis=0))


def saving_direct(kind, param, X, s, e):
    return cost_direct(kind, param, X, s, e) - cost_direct(kind, None, X, s, e)


def l2saving_direct(X, s, e):
    seg = np.asarray(X[s:e], dtype=float)
    return seg.sum(axis=0) ** 2 / (e - s)


def local_direct(kind, X, s, a, b, e):
    X = np.asarray(X, dtype=float)
    pooled = np.concatenate((X[s:a], X[b:e]))
    return cost_direct(kind, None, X, s, e) - cost_direct(kind, None, X, a, b) - cost_direct(kind, None, pooled, 0, len(pooled))


def close(a, b, scale=1.0):
    a, b = np.asarray(a, dtype=float).reshape(-1), np.asarray(b, dtype=float).reshape(-1)
    if a.shape != b.shape:
        return False
    return bool(np.all(np.abs(a - b) <= 1e-7 * (np.abs(a) + np.abs(b) + scale)))
