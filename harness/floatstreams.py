"""Correspondence on BINARY64 score tables (Model/Generic.v at the instance Model/GenericF.v).

The real detectors run with their real built-in scorers on float data.  The harness asks a FRESH scorer of the
same class, fitted on the same data, for the score of every cut the search may use, sums over columns exactly as
the detectors do (np.sum(..., axis=1)) and hands the table to Coq as hexadecimal float literals; the generic
search loop -- the same definition whose Z instance carries the theorems (Proofs/GenericZ.v) -- is evaluated on
Coq's primitive floats and must reproduce the reported scores bit for bit and the detections exactly."""
import math
import numpy as np
import pandas as pd

from harness.engine import coq_bad_cases, coq_list, nlist, pairs_nat
from harness.timelimit import Hang, time_limit

HEADER = ("From Coq Require Import PrimFloat List Arith Bool.\n"
          "From SK Require Import Lib.Base Model.Generic Model.GenericF Model.GenericAny Check.GenericCheck.\n"
          "Import ListNotations.\nOpen Scope float_scope.")


def fl(x):
    x = float(x)
    if x != x:
        return "nan"
    if x in (float("inf"), float("-inf")):
        return "infinity" if x > 0 else "neg_infinity"
    h = x.hex()
    return f"({h})" if h.startswith("-") else h


def flist(xs):
    return coq_list([fl(v) for v in xs])


def _data(rng, n, p, kind):
    X = np.asarray([[rng.gauss(0, 1) for _ in range(p)] for _ in range(n)])
    if kind == "shift" and n >= 4:
        c = rng.randint(1, n - 1)
        X[c:] += rng.choice([3.0, -5.0, 0.7])
    elif kind == "bump" and n >= 6:
        a = rng.randint(1, n - 3)
        b = rng.randint(a + 1, min(n - 1, a + max(2, n // 3)))
        X[a:b] += rng.choice([4.0, -6.0])
    elif kind == "ties":
        X = np.asarray([[float(rng.choice([0, 0, 1, 5])) for _ in range(p)] for _ in range(n)])
    elif kind == "scaled":
        X = X * rng.choice([1e-6, 1e4]) + rng.choice([0.0, 1e3])
    return X


KINDS = ["shift", "shift", "bump", "noise", "ties", "scaled"]


def _pick_threshold(rng, pos):
    """a threshold in the range of the (sorted, non-negative) scores: a score value itself (an exact tie), one just BELOW a score (the score exceeds it by one unit in the
    last place, or by a relative 3e-7: a comparison with a tolerance would miss it), half the maximum, zero"""
    v = pos[rng.choice([len(pos) // 2, (3 * len(pos)) // 4, len(pos) - 1])]
    return float(rng.choice([0.0, v, pos[-1] * 0.5, float(np.nextafter(v, -np.inf)), v * (1.0 - 3e-7), float(np.nextafter(pos[-1], -np.inf)),
                             -1e-12, -0.5 * (abs(v) + 1.0)]))          # ... and NEGATIVE ones (a threshold tuned on noise-level data can be)


def _agg(scorer, cuts):
    return np.sum(scorer.evaluate(np.asarray(cuts, dtype=np.int64)), axis=1)


def pelt_float_stream(ctx, count):
    from skchange.change_detectors import PELT
    from skchange.costs import GaussianVarCost, L2Cost
    rng = ctx.rng
    terms, metas = [], []
    for it in range(count):
        name, mk, ms = [("L2Cost", L2Cost, 1), ("GaussianVarCost", GaussianVarCost, 2), ("L2Cost(0.5)", lambda: L2Cost(0.5), 1)][it % 3]
        m = max(ms, rng.choice([1, 2, 3, 4]))
        n = rng.randint(2 * m, 2 * m + 26)
        p = rng.choice([1, 1, 2, 3])
        kind = rng.choice(KINDS)
        Xn = _data(rng, n, p, kind)
        X = pd.DataFrame(Xn)
        d = PELT(cost=mk(), min_segment_length=m, penalty_scale=rng.choice([0.0, 0.3, 1.0, 2.0])).fit(X)
        pen = float(d.penalty_)
        scores = d.transform_scores(X).to_numpy().reshape(-1)
        cpts = [int(v) for v in d.predict(X)["ilocs"]]
        sc = mk().fit(Xn)
        tab = [[0.0] * (n + 1) for _ in range(n + 1)]
        cuts = [(s, e) for s in range(n + 1) for e in range(s + m, n + 1)]
        vals = _agg(sc, cuts)
        for (s, e), v in zip(cuts, vals):
            tab[s][e] = float(v)
        terms.append("{| fp_n := %d%%nat; fp_m := %d%%nat; fp_pen := %s; fp_tab := %s; fp_cpts := %s; fp_scores := %s |}"
                     % (n, m, fl(pen), coq_list([flist(r) for r in tab]), nlist(cpts), flist(scores)))
        metas.append({"detector": "PELT", "cost": name, "min_segment_length": m, "n": n, "p": p, "data": kind, "X": Xn.tolist(), "penalty": pen,
                      "impl_changepoints": cpts, "impl_scores": [float(v) for v in scores], "_tab": tab})
        ctx.case({"float": "pelt", "it": it, "n": n, "m": m, "cost": name, "x0": float(Xn[0, 0])}, nontrivial=len(cpts) > 0,
                 sample={"stream": "binary64-table PELT", "cost": name, "n": n, "m": m, "p": p, "impl_changepoints": cpts})
        ctx.count("float_stream", "pelt:" + name)
    bad = coq_bad_cases(ctx.cid, HEADER, "fpelt_case", "fpelt_case_ok", terms, shard=12, tag="fpelt")
    # premise of the binary64 run theorems (Properties/C02_binary64.v): every float of the run is finite -- evaluated, not assumed
    nofin = set(coq_bad_cases(ctx.cid, HEADER_RUN, "fpelt_case", "fpelt_case_premise", terms, shard=12, tag="fpeltprem"))
    for i in range(len(terms)):
        ctx.count("binary64_run_theorem_premise(pelt_trace_finite)", "fails" if i in nofin else "holds")
    _spec_all(ctx, metas, bad, lambda mt: _pelt_spec(mt, mt["_tab"]), "PELT", lambda mt: f"PELT({mt['cost']}) on float data (n={mt['n']}, m={mt['min_segment_length']}, p={mt['p']}, {mt['data']})")
    for i in bad[:20]:
        mt = metas[i]
        err = _pelt_spec(mt, mt.pop("_tab"))
        if err:
            ctx.violation(f"PELT({mt['cost']}) on float data (n={mt['n']}, m={mt['min_segment_length']}, p={mt['p']}, {mt['data']}): {err}", mt,
                          {"what": "float-table-spec", "detector": "PELT"})
            continue
        ctx.mismatch(f"PELT({mt['cost']}) on float data (n={mt['n']}, m={mt['min_segment_length']}, p={mt['p']}, {mt['data']}): the generic PELT loop evaluated on the binary64 "
                     f"cost table of the real scorer does not reproduce the implementation (changepoints {mt['impl_changepoints']} / scores bit for bit)", mt,
                     {"what": "float-table-mismatch", "detector": "PELT"})


def pelt_l2_end_to_end_stream(ctx, count):
    """END TO END in binary64 (Properties/C02_binary64_l2.v): one float column, the squared-error cost, no score table handed over -- Coq runs the kernel twin l2_cost_F and
    the generic PELT loop on primitive floats FROM THE DATA and must obtain the implementation's changepoints and scores bit for bit; the four boolean premises of the
    end-to-end near-optimality theorem are evaluated on the same cases (Magf / Bf: powers of two above the run's sums / the data, chosen here, CHECKED there)."""
    from skchange.change_detectors import PELT
    from skchange.costs import L2Cost
    rng = ctx.rng
    terms, metas = [], []
    for it in range(count):
        m = rng.choice([1, 2, 2, 3])
        n = rng.randint(2 * m, 2 * m + 22)
        kind = rng.choice(KINDS)
        Xn = _data(rng, n, 1, kind)
        d = PELT(cost=L2Cost(), min_segment_length=m, penalty_scale=rng.choice([0.0, 0.3, 1.0, 2.0])).fit(pd.DataFrame(Xn))
        pen = float(d.penalty_)
        scores = d.transform_scores(pd.DataFrame(Xn)).to_numpy().reshape(-1)
        cpts = [int(v) for v in d.predict(pd.DataFrame(Xn))["ilocs"]]
        bmax = float(np.max(np.abs(Xn)))
        bf = 2.0 ** math.ceil(math.log2(bmax + 1e-300) + 1e-9) if bmax > 0 else 1.0
        magf = 16.0 * (float(np.sum(Xn ** 2)) + abs(pen) * (n + 1) + 1.0)
        magf = 2.0 ** math.ceil(math.log2(magf))
        terms.append("{| f2_xs := %s; f2_pen := %s; f2_m := %d%%nat; f2_mag := %s; f2_b := %s; f2_cpts := %s; f2_scores := %s |}"
                     % (flist(Xn[:, 0]), fl(pen), m, fl(magf), fl(bf), nlist(cpts), flist(scores)))
        metas.append({"detector": "PELT", "cost": "L2Cost", "min_segment_length": m, "n": n, "p": 1, "data": kind, "X": Xn.tolist(), "penalty": pen, "Magf": magf, "Bf": bf,
                      "impl_changepoints": cpts, "impl_scores": [float(v) for v in scores]})
        # the CONCLUSION of the theorem on the implementation's own output, in exact rational arithmetic: penalised residual sum of squares of the reported changepoints minus
        # the optimum over all admissible segmentations (optimal partitioning on Fractions) must not exceed 3 n (delta + 2 u Mag) with the theorem's delta and Mag
        from fractions import Fraction as _Fr
        xs_q = [_Fr(float(v)) for v in Xn[:, 0]]
        pre1, pre2 = [_Fr(0)], [_Fr(0)]
        for v in xs_q:
            pre1.append(pre1[-1] + v)
            pre2.append(pre2[-1] + v * v)

        def _rss(s_, e_):
            return (pre2[e_] - pre2[s_]) - (pre1[e_] - pre1[s_]) ** 2 / (e_ - s_)
        pen_q = _Fr(pen)
        Fq = {0: -pen_q}
        for t_ in range(m, n + 1):
            Fq[t_] = min(Fq[s_] + _rss(s_, t_) + pen_q for s_ in [0] + list(range(m, t_ - m + 1)) if s_ in Fq)
        bnds = [0] + cpts + [n]
        own_q = sum(_rss(a_, b_) for a_, b_ in zip(bnds[:-1], bnds[1:])) + pen_q * len(cpts)
        u53 = 2.0 ** -53
        bound = 3 * n * ((4.2 * n + 6) * u53 * (n * (n + 1) * bf ** 2) + 2 * u53 * magf / (1 - u53))
        gap = float(own_q - Fq[n])
        ctx.count("binary64_l2_theorem_conclusion", "gap <= bound" if gap <= bound else "gap > bound")
        if gap > bound:
            ctx.violation(f"PELT(L2Cost) on one float column (n={n}, m={m}): the penalised residual sum of squares of the reported changepoints {cpts} exceeds the exact optimum by "
                          f"{gap!r}, more than the proved bound {bound!r} of the binary64 run (C02_binary64_l2_end_to_end)", {"X": Xn.tolist(), "penalty": pen, "min_segment_length": m,
                                                                                                                              "changepoints": cpts, "gap": gap, "bound": bound},
                          {"what": "binary64-theorem-conclusion", "detector": "PELT"})
        ctx.case({"float": "pelt-l2-e2e", "it": it, "n": n, "m": m, "x0": float(Xn[0, 0])}, nontrivial=len(cpts) > 0,
                 sample={"stream": "binary64 end-to-end PELT(L2Cost)", "n": n, "m": m, "impl_changepoints": cpts})
        ctx.count("float_stream", "pelt-l2-end-to-end")
    bad = coq_bad_cases(ctx.cid, HEADER_RUN, "fpl2_case", "fpl2_case_ok", terms, shard=12, tag="fpl2")
    noprem = coq_bad_cases(ctx.cid, HEADER_RUN, "fpl2_case", "fpl2_case_premise", terms, shard=12, tag="fpl2prem")
    ctx.notes["binary64_l2_end_to_end_premises"] = f"all four boolean premises of C02_binary64_l2_end_to_end_all_premises_boolean hold on {len(terms) - len(noprem)} of {len(terms)} cases"
    if len(noprem) > len(terms) // 10:
        ctx.mismatch(f"the premises of the binary64 end-to-end theorem fail on {len(noprem)} of {len(terms)} ordinary cases", {"first": metas[noprem[0]]}, {"what": "float-e2e-premise"})
    for i in bad[:20]:
        mt = metas[i]
        ctx.mismatch(f"PELT(L2Cost) on one float column (n={mt['n']}, m={mt['min_segment_length']}, {mt['data']}): the binary64 kernel twin l2_cost_F followed by the generic PELT "
                     f"loop on primitive floats does not reproduce the implementation from the DATA (changepoints {mt['impl_changepoints']} / scores bit for bit)", mt,
                     {"what": "float-end-to-end-mismatch", "detector": "PELT"})


def pelt_l2_columns_end_to_end_stream(ctx, count):
    """END TO END in binary64 for SEVERAL columns (Properties/C02_binary64_l2_columns.v): 2..7 float columns, squared-error cost; Coq aggregates the per-column kernel twins as
    NumPy's row sum does for fewer than 8 columns (sequentially from the left) and runs the PELT loop on primitive floats from the DATA; scores bit for bit, changepoints, and
    the six boolean premises of the end-to-end theorem."""
    from skchange.change_detectors import PELT
    from skchange.costs import L2Cost
    rng = ctx.rng
    terms, metas = [], []
    for it in range(count):
        m = rng.choice([1, 2, 2, 3])
        n = rng.randint(2 * m, 2 * m + 16)
        p = rng.choice([2, 2, 3, 4, 5, 7])
        kind = rng.choice(KINDS)
        Xn = _data(rng, n, p, kind)
        d = PELT(cost=L2Cost(), min_segment_length=m, penalty_scale=rng.choice([0.0, 0.3, 1.0, 2.0])).fit(pd.DataFrame(Xn))
        pen = float(d.penalty_)
        scores = d.transform_scores(pd.DataFrame(Xn)).to_numpy().reshape(-1)
        cpts = [int(v) for v in d.predict(pd.DataFrame(Xn))["ilocs"]]
        bmax = float(np.max(np.abs(Xn)))
        bf = 2.0 ** math.ceil(math.log2(bmax + 1e-300) + 1e-9) if bmax > 0 else 1.0
        magf = 2.0 ** math.ceil(math.log2(16.0 * (float(np.sum(Xn ** 2)) + abs(pen) * (n + 1) + 1.0)))
        terms.append("{| m2_cols := %s; m2_n := %d%%nat; m2_pen := %s; m2_m := %d%%nat; m2_mag := %s; m2_b := %s; m2_cpts := %s; m2_scores := %s |}"
                     % (coq_list([flist(Xn[:, j]) for j in range(p)]), n, fl(pen), m, fl(magf), fl(bf), nlist(cpts), flist(scores)))
        metas.append({"detector": "PELT", "cost": "L2Cost", "min_segment_length": m, "n": n, "p": p, "data": kind, "X": Xn.tolist(), "penalty": pen, "Magf": magf, "Bf": bf,
                      "impl_changepoints": cpts, "impl_scores": [float(v) for v in scores]})
        ctx.case({"float": "pelt-l2-cols-e2e", "it": it, "n": n, "m": m, "p": p, "x0": float(Xn[0, 0])}, nontrivial=len(cpts) > 0,
                 sample={"stream": "binary64 end-to-end PELT(L2Cost), several columns", "n": n, "m": m, "p": p, "impl_changepoints": cpts})
        ctx.count("float_stream", f"pelt-l2-end-to-end:{p} columns")
    bad = coq_bad_cases(ctx.cid, HEADER_RUN, "fpl2m_case", "fpl2m_case_ok", terms, shard=8, tag="fpl2m")
    noprem = coq_bad_cases(ctx.cid, HEADER_RUN, "fpl2m_case", "fpl2m_case_premise", terms, shard=8, tag="fpl2mprem")
    ctx.notes["binary64_l2_columns_end_to_end_premises"] = f"all six boolean premises of C02_binary64_l2_columns_end_to_end hold on {len(terms) - len(noprem)} of {len(terms)} cases"
    if len(noprem) > len(terms) // 10:
        ctx.mismatch(f"the premises of the binary64 several-column end-to-end theorem fail on {len(noprem)} of {len(terms)} ordinary cases", {"first": metas[noprem[0]]}, {"what": "float-e2e-premise"})
    for i in bad[:20]:
        mt = metas[i]
        ctx.mismatch(f"PELT(L2Cost) on {mt['p']} float columns (n={mt['n']}, m={mt['min_segment_length']}, {mt['data']}): the per-column kernel twins l2_cost_F, added from the left as "
                     f"NumPy's row sum does, followed by the generic PELT loop on primitive floats do not reproduce the implementation from the DATA (changepoints "
                     f"{mt['impl_changepoints']} / scores bit for bit)", mt, {"what": "float-end-to-end-mismatch", "detector": "PELT"})


def _from_data(ctx, case_type, terms2, metas2, what, tag, premise=True, premise_header=None):
    """the univariate CUSUM cases once more WITHOUT the score table: Coq computes the scores with the binary64 kernel twin cusum_F from the data (Check/FloatRunCheck.v) and must
    reproduce the detector; the premise cusum_trace_ok of the kernel's refinement theorem is evaluated on every cut the detector read"""
    if not terms2:
        return
    for _ in terms2:
        ctx.count("float_stream", "from-data:" + what)
    if premise:
        noprem = coq_bad_cases(ctx.cid, premise_header or HEADER_RUN, case_type, case_type.replace("_case", "_case_premise"), terms2, shard=30, tag=tag + "prem")
        ctx.notes[f"binary64_from_data_premise({what})"] = f"the boolean premise of the binary64 end-to-end theorems (every kernel evaluation read stays in the normal range, finite threshold) holds in {len(terms2) - len(noprem)} of {len(terms2)} cases"
    for i in coq_bad_cases(ctx.cid, HEADER_RUN, case_type, case_type.replace("_case", "_case_ok"), terms2, shard=30, tag=tag)[:20]:
        mt = metas2[i]
        ctx.mismatch(f"{what} on one float column (n={mt['n']}, threshold={mt['threshold']!r}): the binary64 kernel twin followed by the generic search loop on primitive floats "
                     f"does not reproduce the implementation from the DATA (changepoints {mt['impl_changepoints']} / scores bit for bit)", mt, {"what": "float-end-to-end-mismatch", "detector": what})


def mw_float_stream(ctx, count):
    from skchange.change_detectors import MovingWindow
    from skchange.change_scores import CUSUM, ChangeScore
    from skchange.costs import GaussianVarCost, L2Cost
    rng = ctx.rng
    terms, metas = [], []
    terms2, metas2 = [], []
    for it in range(count):
        name, mk, ms = [("CUSUM", CUSUM, 1), ("ChangeScore(L2Cost)", lambda: ChangeScore(L2Cost()), 1),
                        ("ChangeScore(GaussianVarCost)", lambda: ChangeScore(GaussianVarCost()), 2)][it % 3]
        b = max(ms, rng.choice([1, 2, 3, 5]))
        n = rng.randint(2 * b, 2 * b + 40)
        p = rng.choice([1, 1, 2, 3])
        kind = rng.choice(KINDS)
        Xn = _data(rng, n, p, kind)
        X = pd.DataFrame(Xn)
        mdi = rng.choice(list(range(1, max(1, b // 2 - 1) + 1)))
        d = MovingWindow(change_score=mk(), bandwidth=b, threshold_scale=0.0, min_detection_interval=mdi).fit(X)
        sc = mk().fit(Xn)
        ts_ = list(range(b, n - b + 1))
        vals = _agg(sc, [(t - b, t, t + b) for t in ts_])
        row = [0.0] * (n + 1)
        for t, v in zip(ts_, vals):
            row[t] = float(v)
        # a threshold in the range of the scores: some score value itself (a tie with the threshold), or just below / above the maximum
        pos = sorted(v for v in vals if v >= 0) or [0.0]
        thr = _pick_threshold(rng, pos)
        d.threshold_ = thr
        scores = d.transform_scores(X).to_numpy().reshape(-1)
        cpts = [int(v) for v in d.predict(X)["ilocs"]]
        terms.append("{| fw_n := %d%%nat; fw_b := %d%%nat; fw_thr := %s; fw_mdi := %d%%nat; fw_row := %s; fw_scores := %s; fw_cpts := %s |}"
                     % (n, b, fl(thr), mdi, flist(row), flist(scores), nlist(cpts)))
        metas.append({"detector": "MovingWindow", "score": name, "bandwidth": b, "min_detection_interval": mdi, "n": n, "p": p, "data": kind, "X": Xn.tolist(),
                      "threshold": thr, "impl_changepoints": cpts, "_row": row, "_scores": [float(v) for v in scores]})
        if name == "CUSUM" and p == 1:
            terms2.append("{| w2_xs := %s; w2_b := %d%%nat; w2_thr := %s; w2_mdi := %d%%nat; w2_scores := %s; w2_cpts := %s |}" % (flist(Xn[:, 0]), b, fl(thr), mdi, flist(scores), nlist(cpts)))
            metas2.append({k_: v_ for k_, v_ in metas[-1].items() if not k_.startswith("_")})
        ctx.case({"float": "mw", "it": it, "n": n, "b": b, "score": name, "x0": float(Xn[0, 0])}, nontrivial=len(cpts) > 0,
                 sample={"stream": "binary64-table MovingWindow", "score": name, "n": n, "bandwidth": b, "impl_changepoints": cpts})
        ctx.count("float_stream", "mw:" + name)
    _from_data(ctx, "fmw2_case", terms2, metas2, "MovingWindow(CUSUM)", "fmw2")
    bad = coq_bad_cases(ctx.cid, HEADER, "fmw_case", "fmw_any_case_ok", terms, shard=60, tag="fmw")
    _spec_all(ctx, metas, bad, lambda mt: _mw_spec(mt, mt["_row"], mt["_scores"]), "MovingWindow",
              lambda mt: f"MovingWindow({mt['score']}) on float data (n={mt['n']}, bandwidth={mt['bandwidth']}, p={mt['p']}, {mt['data']})")
    for i in bad[:20]:
        mt = metas[i]
        err = _mw_spec(mt, mt.pop("_row"), mt.pop("_scores"))
        if err:
            ctx.violation(f"MovingWindow({mt['score']}) on float data (n={mt['n']}, bandwidth={mt['bandwidth']}, p={mt['p']}, {mt['data']}): {err}", mt,
                          {"what": "float-table-spec", "detector": "MovingWindow"})
            continue
        ctx.mismatch(f"MovingWindow({mt['score']}) on float data (n={mt['n']}, bandwidth={mt['bandwidth']}, threshold={mt['threshold']!r}): the generic moving-window model on the "
                     f"binary64 scores of the real scorer does not reproduce the implementation (changepoints {mt['impl_changepoints']} / scores bit for bit)", mt,
                     {"what": "float-table-mismatch", "detector": "MovingWindow"})


def sbs_float_stream(ctx, count):
    from skchange.change_detectors import SeededBinarySegmentation
    from skchange.change_scores import CUSUM, ChangeScore
    from skchange.costs import GaussianVarCost, L2Cost
    rng = ctx.rng
    terms, metas = [], []
    terms2, metas2 = [], []
    for it in range(count):
        name, mk, ms = [("CUSUM", CUSUM, 1), ("ChangeScore(L2Cost)", lambda: ChangeScore(L2Cost()), 1),
                        ("ChangeScore(GaussianVarCost)", lambda: ChangeScore(GaussianVarCost()), 2)][it % 3]
        m = max(ms, rng.choice([1, 2, 3]))
        n = rng.randint(2 * m, 2 * m + 30)
        p = rng.choice([1, 1, 2, 3])
        kind = rng.choice(KINDS)
        Xn = _data(rng, n, p, kind)
        X = pd.DataFrame(Xn)
        M = rng.choice([2 * m, 3 * m + 2, 100])
        gf = rng.choice([1.2, 1.5, 2.0])
        d = SeededBinarySegmentation(change_score=mk(), threshold_scale=0.0, min_segment_length=m, max_interval_length=M, growth_factor=gf).fit(X)
        d.predict(X)
        tabl = d.scores
        ivs = [(int(a), int(b_)) for a, b_ in zip(tabl["start"], tabl["end"])]
        pos = sorted(float(v) for v in tabl["score"] if v >= 0) or [0.0]
        thr = _pick_threshold(rng, pos)
        d.threshold_ = thr
        try:
            with time_limit(10):
                cpts = [int(v) for v in d.predict(X)["ilocs"]]
        except Hang as ex:
            ctx.violation(f"SeededBinarySegmentation({name}) with threshold {thr!r} on float data (n={n}, m={m}): predict does not return ({ex})",
                          {"detector": "SeededBinarySegmentation", "score": name, "n": n, "m": m, "threshold": thr, "X": Xn.tolist()}, {"what": "hang", "detector": "SeededBinarySegmentation"})
            continue
        tabl = d.scores
        sc = mk().fit(Xn)
        rows = []
        for (s, e) in ivs:
            ks = list(range(s + m, e - m + 1))
            rows.append([float(v) for v in _agg(sc, [(s, k, e) for k in ks])] if ks else [])
        terms.append("{| fs_m := %d%%nat; fs_thr := %s; fs_ivs := %s; fs_rows := %s; fs_cpts := %s; fs_argmax := %s; fs_max := %s |}"
                     % (m, fl(thr), pairs_nat(ivs), coq_list([flist(r) for r in rows]), nlist(cpts), nlist([int(v) for v in tabl["argmax_cpt"]]),
                        flist([float(v) for v in tabl["score"]])))
        metas.append({"detector": "SeededBinarySegmentation", "score": name, "min_segment_length": m, "max_interval_length": M, "growth_factor": gf, "n": n, "p": p,
                      "data": kind, "X": Xn.tolist(), "threshold": thr, "impl_changepoints": cpts, "intervals": [list(t) for t in ivs],
                      "_rows": rows, "_argmax": [int(v) for v in tabl["argmax_cpt"]], "_max": [float(v) for v in tabl["score"]]})
        if name == "CUSUM" and p == 1:
            terms2.append("{| s2_xs := %s; s2_m := %d%%nat; s2_thr := %s; s2_ivs := %s; s2_cpts := %s; s2_argmax := %s; s2_max := %s |}"
                          % (flist(Xn[:, 0]), m, fl(thr), pairs_nat(ivs), nlist(cpts), nlist([int(v) for v in tabl["argmax_cpt"]]), flist([float(v) for v in tabl["score"]])))
            metas2.append({k_: v_ for k_, v_ in metas[-1].items() if not k_.startswith("_")})
        ctx.case({"float": "sbs", "it": it, "n": n, "m": m, "score": name, "x0": float(Xn[0, 0])}, nontrivial=len(cpts) > 0,
                 sample={"stream": "binary64-table SeededBinarySegmentation", "score": name, "n": n, "m": m, "n_intervals": len(ivs), "impl_changepoints": cpts})
        ctx.count("float_stream", "sbs:" + name)
    _from_data(ctx, "fsbs2_case", terms2, metas2, "SeededBinarySegmentation(CUSUM)", "fsbs2")
    bad = coq_bad_cases(ctx.cid, HEADER, "fsbs_case", "fsbs_any_case_ok", terms, shard=40, tag="fsbs")
    _spec_all(ctx, metas, bad, lambda mt: _sbs_spec(mt, mt["_rows"], mt["_argmax"], mt["_max"]), "SeededBinarySegmentation",
              lambda mt: f"SeededBinarySegmentation({mt['score']}) on float data (n={mt['n']}, m={mt['min_segment_length']}, p={mt['p']}, {mt['data']})")
    for i in bad[:20]:
        mt = metas[i]
        err = _sbs_spec(mt, mt.pop("_rows"), mt.pop("_argmax"), mt.pop("_max"))
        if err:
            ctx.violation(f"SeededBinarySegmentation({mt['score']}) on float data (n={mt['n']}, m={mt['min_segment_length']}, p={mt['p']}, {mt['data']}): {err}", mt,
                          {"what": "float-table-spec", "detector": "SeededBinarySegmentation"})
            continue
        ctx.mismatch(f"SeededBinarySegmentation({mt['score']}) on float data (n={mt['n']}, m={mt['min_segment_length']}, threshold={mt['threshold']!r}): the generic model on the "
                     f"binary64 scores of the real scorer does not reproduce the implementation (changepoints {mt['impl_changepoints']}, per-interval argmax / maximum)", mt,
                     {"what": "float-table-mismatch", "detector": "SeededBinarySegmentation"})


def model_anomaly_intervals(s, e, m):
    """Model/Cbs.anomaly_intervals, in its order"""
    return [(i, j) for i in range(s + 1, e - m + 2) for j in range(i + m, e) if (e - j) + (i - s) >= m]


def cbs_float_stream(ctx, count):
    from skchange.anomaly_detectors import CircularBinarySegmentation
    from skchange.anomaly_scores import LocalAnomalyScore
    from skchange.costs import GaussianVarCost, L2Cost
    rng = ctx.rng
    terms, metas = [], []
    terms2, metas2 = [], []
    for it in range(count):
        name, mk, ms = [("LocalAnomalyScore(L2Cost)", lambda: LocalAnomalyScore(L2Cost()), 1),
                        ("LocalAnomalyScore(GaussianVarCost)", lambda: LocalAnomalyScore(GaussianVarCost()), 2)][it % 2]
        m = max(ms, rng.choice([1, 2, 3]))
        n = rng.randint(2 * m, 2 * m + 18)
        p = rng.choice([1, 1, 2])
        kind = rng.choice(KINDS)
        Xn = _data(rng, n, p, kind)
        X = pd.DataFrame(Xn)
        M = rng.choice([2 * m, 3 * m + 2, 40])
        d = CircularBinarySegmentation(anomaly_score=mk(), threshold_scale=0.0, min_segment_length=m, max_interval_length=M).fit(X)
        d.predict(X)
        tabl = d.scores
        ivs = [(int(a), int(b_)) for a, b_ in zip(tabl["interval_start"], tabl["interval_end"])]
        pos = sorted(float(v) for v in tabl["score"] if v >= 0) or [0.0]
        thr = _pick_threshold(rng, pos)
        d.threshold_ = thr
        try:
            with time_limit(10):
                y = d.predict(X)
        except Hang as ex:
            ctx.violation(f"CircularBinarySegmentation({name}) with threshold {thr!r} on float data (n={n}, m={m}): predict does not return ({ex})",
                          {"detector": "CircularBinarySegmentation", "score": name, "n": n, "m": m, "threshold": thr, "X": Xn.tolist()}, {"what": "hang", "detector": "CircularBinarySegmentation"})
            continue
        anoms = [(int(l), int(r)) for l, r in zip(y["ilocs"].array.left, y["ilocs"].array.right)]
        tabl = d.scores
        sc = mk().fit(Xn)
        rows = []
        for (s, e) in ivs:
            cands = model_anomaly_intervals(s, e, m)
            rows.append([float(v) for v in _agg(sc, [(s, a, b_, e) for a, b_ in cands])] if cands else [])
        inner = [(int(a), int(b_)) for a, b_ in zip(tabl["argmax_anomaly_start"], tabl["argmax_anomaly_end"])]
        terms.append("{| fc_m := %d%%nat; fc_thr := %s; fc_ivs := %s; fc_rows := %s; fc_anoms := %s; fc_inner := %s; fc_max := %s |}"
                     % (m, fl(thr), pairs_nat(ivs), coq_list([flist(r) for r in rows]), pairs_nat(anoms), pairs_nat(inner), flist([float(v) for v in tabl["score"]])))
        metas.append({"detector": "CircularBinarySegmentation", "score": name, "min_segment_length": m, "max_interval_length": M, "n": n, "p": p, "data": kind,
                      "X": Xn.tolist(), "threshold": thr, "impl_anomalies": [list(t) for t in anoms], "intervals": [list(t) for t in ivs],
                      "_rows": rows, "_inner": inner, "_max": [float(v) for v in tabl["score"]]})
        if name == "LocalAnomalyScore(L2Cost)" and p == 1:
            terms2.append("{| c2_xs := %s; c2_m := %d%%nat; c2_thr := %s; c2_ivs := %s; c2_anoms := %s; c2_inner := %s; c2_max := %s |}"
                          % (flist(Xn[:, 0]), m, fl(thr), pairs_nat(ivs), pairs_nat(anoms), pairs_nat(inner), flist([float(v) for v in tabl["score"]])))
            metas2.append(dict({k_: v_ for k_, v_ in metas[-1].items() if not k_.startswith("_")}, impl_changepoints=[list(t) for t in anoms]))
        ctx.case({"float": "cbs", "it": it, "n": n, "m": m, "score": name, "x0": float(Xn[0, 0])}, nontrivial=len(anoms) > 0,
                 sample={"stream": "binary64-table CircularBinarySegmentation", "score": name, "n": n, "m": m, "n_intervals": len(ivs), "impl_anomalies": anoms})
        ctx.count("float_stream", "cbs:" + name)
    _from_data(ctx, "fcbs2_case", terms2, metas2, "CircularBinarySegmentation(LocalAnomalyScore(L2Cost))", "fcbs2", premise_header=HEADER_RUN.replace("Check.FloatRunCheck.", "Check.FloatRunCheck Check.FloatRunCheck2."))
    bad = coq_bad_cases(ctx.cid, HEADER, "fcbs_case", "fcbs_any_case_ok", terms, shard=20, tag="fcbs")
    _spec_all(ctx, metas, bad, lambda mt: _cbs_spec(mt, mt["_rows"], mt["_inner"], mt["_max"]), "CircularBinarySegmentation",
              lambda mt: f"CircularBinarySegmentation({mt['score']}) on float data (n={mt['n']}, m={mt['min_segment_length']}, p={mt['p']}, {mt['data']})")
    for i in bad[:20]:
        mt = metas[i]
        err = _cbs_spec(mt, mt.pop("_rows"), mt.pop("_inner"), mt.pop("_max"))
        if err:
            ctx.violation(f"CircularBinarySegmentation({mt['score']}) on float data (n={mt['n']}, m={mt['min_segment_length']}, p={mt['p']}, {mt['data']}): {err}", mt,
                          {"what": "float-table-spec", "detector": "CircularBinarySegmentation"})
            continue
        ctx.mismatch(f"CircularBinarySegmentation({mt['score']}) on float data (n={mt['n']}, m={mt['min_segment_length']}, threshold={mt['threshold']!r}): the generic model on the "
                     f"binary64 scores of the real scorer does not reproduce the implementation (anomalies {mt['impl_anomalies']}, per-interval inner interval / maximum)", mt,
                     {"what": "float-table-mismatch", "detector": "CircularBinarySegmentation"})


# ------------------------------------------------------------------------------------------------------------------
# property-level re-checks used when the model and the implementation disagree on a float case: they decide whether the
# disagreement is a violation of the property (stated on the scorer's own values) or only a broken tie
# ------------------------------------------------------------------------------------------------------------------
def _spec_all(ctx, metas, bad, spec, det, describe):
    """the property-level re-check on EVERY case the model agrees with (cases in `bad` are handled by the caller)"""
    skip = set(bad)
    for i, mt in enumerate(metas):
        if i in skip:
            continue
        err = spec(mt)
        if err:
            ctx.violation(f"{describe(mt)}: {err}", {k: v for k, v in mt.items() if not k.startswith("_")}, {"what": "float-table-spec", "detector": det})


def _rel(a, b):
    return abs(a - b) <= 1e-9 * (abs(a) + abs(b)) + 1e-300


def _argmax_first(vals):
    best, bi = None, None
    for i, v in enumerate(vals):
        if best is None or v > best:
            best, bi = v, i
    return bi


def _mw_spec(mt, row, scores):
    n, b, thr, mdi = mt["n"], mt["bandwidth"], mt["threshold"], mt["min_detection_interval"]
    for t in range(n):
        want = row[t] if b <= t <= n - b else 0.0
        if not _rel(float(scores[t]), want):
            return f"score[{t}] = {float(scores[t])!r} but the change score of ({t - b}, {t}, {t + b}) summed over columns is {want!r}"
    want_cp, t = [], b            # runs are taken over the ADMISSIBLE positions b .. n - b only (the border entries are placeholders, not scores)
    sc = [float(v) for v in scores]
    hi_ = n - b + 1
    while t < hi_:
        if sc[t] > thr:
            e = t
            while e < hi_ and sc[e] > thr:
                e += 1
            if e - t >= mdi:
                want_cp.append(t + _argmax_first(sc[t:e]))
            t = e
        else:
            t += 1
    if want_cp != mt["impl_changepoints"]:
        return f"changepoints {mt['impl_changepoints']} are not the peaks {want_cp} of the runs of the REPORTED scores above the threshold {thr!r}"
    return None


def _greedy(ivs, picks, scores, thr, hit):
    scores = list(scores)
    out = []
    for _ in range(len(ivs) + 1):
        if not any(v > thr for v in scores):
            return out
        i = _argmax_first(scores)
        out.append(picks[i])
        scores = [(float("-inf") if hit(iv, picks[i]) else v) for iv, v in zip(ivs, scores)]
    return out


def _sbs_spec(mt, rows, tab_argmax, tab_max):
    m, thr = mt["min_segment_length"], mt["threshold"]
    ivs = [tuple(t) for t in mt["intervals"]]
    for (s, e), r, am, mx in zip(ivs, rows, tab_argmax, tab_max):
        if r:
            i = _argmax_first(r)
            if not _rel(r[i], float(mx)) or (s + m + i != int(am) and not _rel(r[int(am) - s - m] if 0 <= int(am) - s - m < len(r) else float("nan"), r[i])):
                return f"interval [{s}, {e}): reported maximum {float(mx)!r} at {int(am)}, the scorer's values give {r[i]!r} at {s + m + i}"
    want = sorted(_greedy(ivs, [int(v) for v in tab_argmax], [float(v) for v in tab_max], thr, lambda iv, c: iv[0] <= c < iv[1]))
    if want != mt["impl_changepoints"]:
        return f"changepoints {mt['impl_changepoints']} are not the greedy above-threshold picks {want} of the REPORTED table (threshold {thr!r})"
    return None


def _cbs_spec(mt, rows, inner, tab_max):
    m, thr = mt["min_segment_length"], mt["threshold"]
    ivs = [tuple(t) for t in mt["intervals"]]
    for (s, e), r, ab, mx in zip(ivs, rows, inner, tab_max):
        if r:
            cands = model_anomaly_intervals(s, e, m)
            i = _argmax_first(r)
            if not _rel(r[i], float(mx)) or (cands[i] != tuple(ab) and not (tuple(ab) in cands and _rel(r[cands.index(tuple(ab))], r[i]))):
                return f"candidate [{s}, {e}): reported maximum {float(mx)!r} at {tuple(ab)}, the scorer's values give {r[i]!r} at {cands[i]}"
    live = [(iv, ab, v) for iv, ab, v in zip(ivs, inner, tab_max) if ab[1] > ab[0]]
    want = sorted(_greedy([x[0] for x in live], [tuple(x[1]) for x in live], [float(x[2]) for x in live], thr,
                          lambda iv, ab: ab[1] > iv[0] and ab[0] < iv[1]))
    if want != [tuple(t) for t in mt["impl_anomalies"]]:
        return f"anomalies {mt['impl_anomalies']} are not the greedy above-threshold picks {want} of the REPORTED table (threshold {thr!r})"
    return None


def _pelt_spec(mt, tab):
    n, m, pen = mt["n"], mt["min_segment_length"], mt["penalty"]
    F = [-pen] + [float("inf")] * n
    for t in range(m, n + 1):
        F[t] = min([F[s] + tab[s][t] + pen for s in [0] + list(range(m, t - m + 1))])
    cp = [0] + mt["impl_changepoints"] + [n]
    if any(b - a < m for a, b in zip(cp, cp[1:])):
        return f"changepoints {mt['impl_changepoints']} leave a segment shorter than min_segment_length = {m}"
    own = sum(tab[a][b] for a, b in zip(cp, cp[1:])) + pen * len(mt["impl_changepoints"])
    # the code adds and subtracts the penalty in floating point (opt_cost[0] = -penalty): its magnitude enters the rounding error of every score
    tol = 1e-9 * (abs(F[n]) + abs(own) + sum(abs(tab[0][e]) for e in range(m, n + 1)) / max(1, n) + abs(pen) * (len(cp) + 1)) + 1e-300
    if abs(mt["impl_scores"][-1] - own) > tol:
        return f"final score {mt['impl_scores'][-1]!r} is not the penalised cost {own!r} of the reported changepoints {mt['impl_changepoints']}"
    # optimality is claimed for costs that satisfy the split inequality: decide it ON THIS FLOAT TABLE (it fails e.g. for the Gaussian cost with the variance
    # floor active or when cancellation noise dominates the costs -- theorem C06_gaussian_split_can_fail_at_the_floor); without it only the clauses above apply
    split_ok = all(tab[a][k] + tab[k][b] <= tab[a][b] + tol for a in range(n + 1) for k in range(a + m, n + 1) for b in range(k + m, n + 1))
    mt["split_inequality_on_table"] = split_ok
    if not split_ok:
        return None
    if own > F[n] + tol:
        return f"penalised cost of the reported changepoints {mt['impl_changepoints']} is {own!r}, the optimum over admissible segmentations is {F[n]!r}"
    if abs(mt["impl_scores"][-1] - F[n]) > tol:
        return f"final score {mt['impl_scores'][-1]!r} is not the optimal penalised cost {F[n]!r}"
    return None


HEADER_RUN = ("From Coq Require Import PrimFloat List Arith Bool.\n"
              "From SK Require Import Lib.Base Model.Generic Model.GenericF Model.GenericCapa Check.GenericCheck Check.GenericCapaCheck Check.FloatRunCheck.\n"
              "Import ListNotations.\nOpen Scope float_scope.")
HEADER_CAPA = ("From Coq Require Import PrimFloat List Arith Bool.\n"
               "From SK Require Import Lib.Base Model.Generic Model.GenericF Model.GenericCapa Check.GenericCheck Check.GenericCapaCheck.\n"
               "Import ListNotations.\nOpen Scope float_scope.")


def capa_float_stream(ctx, count):
    """CAPA / MVCAPA with the real L2 saving on float data against the generic dynamic programme on primitive floats (Check/GenericCapaCheck.v).
    Configurations are restricted to those whose floating-point OPERATION ORDER the model shares with NumPy: fewer than 8 columns when the penalised saving is a plain
    row sum (NumPy then adds sequentially from the left, as the model's gsum does; from 8 columns on it adds pairwise), any number of columns when the per-component penalties
    differ (sort + sequential cumsum)."""
    from skchange.anomaly_detectors import CAPA, MVCAPA
    from skchange.anomaly_scores import L2Saving
    rng = ctx.rng
    terms, metas = [], []
    for it in range(count):
        kind = ["capa", "mvcapa-unequal", "mvcapa-equal"][it % 3]
        p = rng.choice([1, 2, 3, 5, 7]) if kind != "mvcapa-unequal" else rng.choice([2, 3, 4])     # fewer than 8: NumPy's row sum is sequential from the left, as the model's gsum
        n = rng.randint(8, 24)
        m = rng.choice([2, 3])
        M = rng.choice([m + 2, 8, n])
        X = np.asarray([[rng.gauss(0, 1) for _ in range(p)] for _ in range(n)])
        a = rng.randint(1, n - m - 1)
        X[a:a + rng.randint(m, min(M, n - a)), : rng.randint(1, p)] += rng.choice([3.0, -4.0])
        X[rng.randrange(n), rng.randrange(p)] += rng.choice([7.0, -9.0])
        ac, ap = float(rng.choice([1.5, 4.25, 9.0])), float(rng.choice([2.5, 6.0, 12.75]))
        if kind == "capa":
            bc = bp = [0.0] * p
            d = CAPA(min_segment_length=m, max_segment_length=M).fit(X)
            d.collective_penalty_, d.point_penalty_ = ac, ap
        else:
            if kind == "mvcapa-equal":
                bc = bp = [float(rng.choice([0.5, 1.25]))] * p
            else:
                while True:
                    bc = [float(rng.choice([0.25, 0.5, 1.25, 3.0])) for _ in range(p)]
                    if len(set(bc)) > 1:
                        break
                bp = list(bc)
            mk = lambda al, be: (lambda n, p, n_params_per_variable=1, scale=1.0: (float(al), np.array(be, dtype=float)))
            d = MVCAPA(min_segment_length=m, max_segment_length=M, collective_penalty=mk(ac, bc), point_penalty=mk(ap, bp)).fit(X)
        y = d.predict(X)
        scores = d.transform_scores(X).to_numpy().reshape(-1)
        iv = [(int(l), int(r)) for l, r in zip(y["ilocs"].array.left, y["ilocs"].array.right)]
        coll, pts = [t for t in iv if t[1] - t[0] > 1], [t for t in iv if t[1] - t[0] == 1]
        sc = L2Saving().fit(X)
        tab = [[[] for _ in range(n + 1)] for _ in range(n + 1)]
        cuts = [(s, e) for s in range(n) for e in range(s + m, min(n, s + M) + 1)]
        for (s, e), row in zip(cuts, sc.evaluate(np.asarray(cuts))):
            tab[s][e] = [float(v) for v in row]
        sp = [[float(v) for v in row] for row in sc.evaluate(np.asarray([(t, t + 1) for t in range(n)]))]
        terms.append("{| fa_n := %d%%nat; fa_m := %d%%nat; fa_M := %d%%nat; fa_ac := %s; fa_bc := %s; fa_ap := %s; fa_bp := %s; fa_sc := %s; fa_sp := %s; "
                     "fa_scores := %s; fa_coll := %s; fa_pts := %s |}"
                     % (n, m, M, fl(ac), flist(bc), fl(ap), flist(bp), coq_list([coq_list([flist(c) for c in r]) for r in tab]), coq_list([flist(r) for r in sp]),
                        flist(scores), pairs_nat(coll), pairs_nat(pts)))
        metas.append({"detector": "CAPA" if kind == "capa" else "MVCAPA", "penalty_shape": kind, "n": n, "p": p, "min_segment_length": m, "max_segment_length": M,
                      "alpha_collective": ac, "betas_collective": bc, "alpha_point": ap, "betas_point": bp, "X": X.tolist(), "impl_anomalies": [list(t) for t in iv],
                      "impl_final_score": float(scores[-1])})
        ctx.case({"float": "capa", "it": it, "n": n, "p": p, "kind": kind, "x0": float(X[0, 0])}, nontrivial=len(iv) > 0,
                 sample={"stream": "binary64-table " + kind, "n": n, "p": p, "m": m, "M": M, "impl_anomalies": iv})
        ctx.count("float_stream", "capa:" + kind)
    bad = coq_bad_cases(ctx.cid, HEADER_CAPA, "fcapa_case", "fcapa_case_ok", terms, shard=10, tag="fcapa")
    # premise of the binary64 run theorems (Properties/C03_binary64.v): every float of the run is finite -- evaluated, not assumed
    nofin = set(coq_bad_cases(ctx.cid, HEADER_RUN, "fcapa_case", "fcapa_case_premise", terms, shard=10, tag="fcapaprem"))
    for i in range(len(terms)):
        ctx.count("binary64_run_theorem_premise(capa_trace_finite)", "fails" if i in nofin else "holds")
    for i in bad[:20]:
        mt = metas[i]
        ctx.mismatch(f"{mt['detector']} ({mt['penalty_shape']}) on float data (n={mt['n']}, p={mt['p']}, m={mt['min_segment_length']}, M={mt['max_segment_length']}): the generic dynamic "
                     f"programme evaluated on the binary64 savings of the real scorer does not reproduce the implementation (anomalies {mt['impl_anomalies']} / scores bit for bit)", mt,
                     {"what": "float-table-mismatch", "detector": mt["detector"]})


def capa_l2_end_to_end_stream(ctx, count):
    """END TO END in binary64 (Properties/C03_binary64_l2.v): CAPA with the L2 saving on ONE float column, no saving table handed over -- Coq runs the kernel twin l2_saving_F and
    the generic CAPA loop on primitive floats FROM THE DATA and must obtain the implementation's cumulative scores bit for bit and its anomalies; the four boolean premises of the
    end-to-end near-optimality theorem are evaluated on the same cases."""
    from skchange.anomaly_detectors import CAPA
    rng = ctx.rng
    terms, metas = [], []
    for it in range(count):
        n = rng.randint(8, 26)
        m = rng.choice([2, 3])
        M = rng.choice([m + 2, 8, n])
        X = np.asarray([[rng.gauss(0, 1)] for _ in range(n)]) * rng.choice([1.0, 1.0, 0.01, 50.0])
        sc_ = float(np.std(X)) + 1e-12
        a = rng.randint(1, n - m - 1)
        X[a:a + rng.randint(m, min(M, n - a))] += rng.choice([3.0, -4.0]) * sc_
        X[rng.randrange(n)] += rng.choice([7.0, -9.0]) * sc_
        ac, ap = float(rng.choice([1.5, 4.25, 9.0])) * sc_ ** 2, float(rng.choice([2.5, 6.0, 12.75])) * sc_ ** 2
        d = CAPA(min_segment_length=m, max_segment_length=M).fit(X)
        d.collective_penalty_, d.point_penalty_ = ac, ap
        y = d.predict(X)
        scores = d.transform_scores(X).to_numpy().reshape(-1)
        iv = [(int(l), int(r)) for l, r in zip(y["ilocs"].array.left, y["ilocs"].array.right)]
        coll, pts = [t for t in iv if t[1] - t[0] > 1], [t for t in iv if t[1] - t[0] == 1]
        bmax = float(np.max(np.abs(X)))
        bf = 2.0 ** math.ceil(math.log2(bmax) + 1e-9)
        magf = 2.0 ** math.ceil(math.log2(16.0 * (float(np.sum(np.abs(X))) ** 2 + (abs(ac) + abs(ap)) * (n + 1) + 1e-300)))
        terms.append("{| g2_xs := %s; g2_ac := %s; g2_ap := %s; g2_m := %d%%nat; g2_M := %d%%nat; g2_mag := %s; g2_b := %s; g2_scores := %s; g2_coll := %s; g2_pts := %s |}"
                     % (flist(X[:, 0]), fl(ac), fl(ap), m, M, fl(magf), fl(bf), flist(scores), pairs_nat(coll), pairs_nat(pts)))
        metas.append({"detector": "CAPA", "saving": "L2Saving", "n": n, "min_segment_length": m, "max_segment_length": M, "alpha_collective": ac, "alpha_point": ap, "X": X.tolist(),
                      "Magf": magf, "Bf": bf, "impl_anomalies": [list(t) for t in iv], "impl_final_score": float(scores[-1])})
        # the CONCLUSION of C03_binary64_l2_end_to_end on the implementation's own output, in exact rational arithmetic: optimum of the total penalised L2 saving (dynamic
        # programme on Fractions of the floats' values) minus the total of the reported anomalies <= 3 n (delta + u Mag), delta = (4.2 n + 5) u (n Bf)^2 + u Mag
        from fractions import Fraction as _Fr
        xq = [_Fr(float(v)) for v in X[:, 0]]
        pq = [_Fr(0)]
        for v in xq:
            pq.append(pq[-1] + v)

        def _sav(s_, e_):
            return (pq[e_] - pq[s_]) ** 2 / (e_ - s_)
        aq, apq = _Fr(ac), _Fr(ap)
        Gq = [_Fr(0)] * (n + 1)
        for t_ in range(1, n + 1):
            best_ = max(Gq[t_ - 1], Gq[t_ - 1] + _sav(t_ - 1, t_) - apq)
            for s_ in range(max(0, t_ - M), t_ - m + 1):
                best_ = max(best_, Gq[s_] + _sav(s_, t_) - aq)
            Gq[t_] = best_
        own_q = sum(_sav(l_, r_) - (apq if r_ - l_ == 1 else aq) for l_, r_ in iv)
        u53 = 2.0 ** -53
        mag_r = magf / (1 - u53)
        bound = 3 * n * (((4.2 * n + 5) * u53 * (n * bf) ** 2 + u53 * mag_r) + u53 * mag_r)
        gap = float(Gq[n] - own_q)
        ctx.count("binary64_l2_theorem_conclusion", "gap <= bound" if gap <= bound else "gap > bound")
        if gap > bound:
            ctx.violation(f"CAPA(L2Saving) on one float column (n={n}, m={m}, M={M}): the optimum of the total penalised saving exceeds the total of the reported anomalies {iv} by "
                          f"{gap!r}, more than the proved bound {bound!r} of the binary64 run (C03_binary64_l2_end_to_end)", {"X": X.tolist(), "alpha_collective": ac, "alpha_point": ap,
                                                                                                                             "anomalies": [list(t) for t in iv], "gap": gap, "bound": bound},
                          {"what": "binary64-theorem-conclusion", "detector": "CAPA"})
        ctx.case({"float": "capa-l2-e2e", "it": it, "n": n, "m": m, "x0": float(X[0, 0])}, nontrivial=len(iv) > 0,
                 sample={"stream": "binary64 end-to-end CAPA(L2Saving)", "n": n, "m": m, "M": M, "impl_anomalies": iv})
        ctx.count("float_stream", "capa-l2-end-to-end")
    bad = coq_bad_cases(ctx.cid, HEADER_RUN, "fcl2_case", "fcl2_case_ok", terms, shard=10, tag="fcl2")
    noprem = coq_bad_cases(ctx.cid, HEADER_RUN, "fcl2_case", "fcl2_case_premise", terms, shard=10, tag="fcl2prem")
    ctx.notes["binary64_l2_end_to_end_premises"] = f"all four boolean premises of C03_binary64_l2_end_to_end_all_premises_boolean hold on {len(terms) - len(noprem)} of {len(terms)} cases"
    if len(noprem) > len(terms) // 10:
        ctx.mismatch(f"the premises of the binary64 end-to-end theorem fail on {len(noprem)} of {len(terms)} ordinary cases", {"first": metas[noprem[0]]}, {"what": "float-e2e-premise"})
    for i in bad[:20]:
        mt = metas[i]
        ctx.mismatch(f"CAPA(L2Saving) on one float column (n={mt['n']}, m={mt['min_segment_length']}, M={mt['max_segment_length']}): the binary64 kernel twin l2_saving_F followed by the "
                     f"generic CAPA loop on primitive floats does not reproduce the implementation from the DATA (anomalies {mt['impl_anomalies']} / scores bit for bit)", mt,
                     {"what": "float-end-to-end-mismatch", "detector": "CAPA"})


def capa_l2_columns_end_to_end_stream(ctx, count):
    """END TO END in binary64 for SEVERAL columns (Properties/C03_binary64_l2_columns.v): CAPA (all per-component penalties zero) with the L2 saving on 2..7 float columns from
    the DATA; cumulative scores bit for bit, anomalies, and the six boolean premises of the end-to-end theorem."""
    from skchange.anomaly_detectors import CAPA
    rng = ctx.rng
    terms, metas = [], []
    for it in range(count):
        n = rng.randint(8, 20)
        m = rng.choice([2, 3])
        M = rng.choice([m + 2, 8, n])
        p = rng.choice([2, 3, 4, 7])
        X = np.asarray([[rng.gauss(0, 1) for _ in range(p)] for _ in range(n)]) * rng.choice([1.0, 1.0, 0.01, 50.0])
        sc_ = float(np.std(X)) + 1e-12
        a = rng.randint(1, n - m - 1)
        X[a:a + rng.randint(m, min(M, n - a)), : rng.randint(1, p)] += rng.choice([3.0, -4.0]) * sc_
        X[rng.randrange(n), rng.randrange(p)] += rng.choice([7.0, -9.0]) * sc_
        ac, ap = float(rng.choice([1.5, 4.25, 9.0])) * p * sc_ ** 2, float(rng.choice([2.5, 6.0, 12.75])) * p * sc_ ** 2
        d = CAPA(min_segment_length=m, max_segment_length=M).fit(X)
        d.collective_penalty_, d.point_penalty_ = ac, ap
        y = d.predict(X)
        scores = d.transform_scores(X).to_numpy().reshape(-1)
        iv = [(int(l), int(r)) for l, r in zip(y["ilocs"].array.left, y["ilocs"].array.right)]
        coll, pts = [t for t in iv if t[1] - t[0] > 1], [t for t in iv if t[1] - t[0] == 1]
        bf = 2.0 ** math.ceil(math.log2(float(np.max(np.abs(X)))) + 1e-9)
        magf = 2.0 ** math.ceil(math.log2(16.0 * (float(np.sum(np.sum(np.abs(X), axis=0) ** 2)) + (abs(ac) + abs(ap)) * (n + 1) + 1e-300)))
        terms.append("{| h2_cols := %s; h2_n := %d%%nat; h2_ac := %s; h2_ap := %s; h2_m := %d%%nat; h2_M := %d%%nat; h2_mag := %s; h2_b := %s; h2_scores := %s; h2_coll := %s; h2_pts := %s |}"
                     % (coq_list([flist(X[:, j]) for j in range(p)]), n, fl(ac), fl(ap), m, M, fl(magf), fl(bf), flist(scores), pairs_nat(coll), pairs_nat(pts)))
        metas.append({"detector": "CAPA", "saving": "L2Saving", "n": n, "p": p, "min_segment_length": m, "max_segment_length": M, "alpha_collective": ac, "alpha_point": ap, "X": X.tolist(),
                      "Magf": magf, "Bf": bf, "impl_anomalies": [list(t) for t in iv], "impl_final_score": float(scores[-1])})
        ctx.case({"float": "capa-l2-cols-e2e", "it": it, "n": n, "m": m, "p": p, "x0": float(X[0, 0])}, nontrivial=len(iv) > 0,
                 sample={"stream": "binary64 end-to-end CAPA(L2Saving), several columns", "n": n, "p": p, "m": m, "M": M, "impl_anomalies": iv})
        ctx.count("float_stream", f"capa-l2-end-to-end:{p} columns")
    bad = coq_bad_cases(ctx.cid, HEADER_RUN, "fcl2m_case", "fcl2m_case_ok", terms, shard=8, tag="fcl2m")
    noprem = coq_bad_cases(ctx.cid, HEADER_RUN, "fcl2m_case", "fcl2m_case_premise", terms, shard=8, tag="fcl2mprem")
    ctx.notes["binary64_l2_columns_end_to_end_premises"] = f"all six boolean premises of C03_binary64_l2_columns_end_to_end hold on {len(terms) - len(noprem)} of {len(terms)} cases"
    if len(noprem) > len(terms) // 10:
        ctx.mismatch(f"the premises of the binary64 several-column end-to-end theorem fail on {len(noprem)} of {len(terms)} ordinary cases", {"first": metas[noprem[0]]}, {"what": "float-e2e-premise"})
    for i in bad[:20]:
        mt = metas[i]
        ctx.mismatch(f"CAPA(L2Saving) on {mt['p']} float columns (n={mt['n']}, m={mt['min_segment_length']}, M={mt['max_segment_length']}): the per-column kernel twins l2_saving_F, "
                     f"added from the left as NumPy's row sum does, followed by the generic CAPA loop on primitive floats do not reproduce the implementation from the DATA (anomalies "
                     f"{mt['impl_anomalies']} / scores bit for bit)", mt, {"what": "float-end-to-end-mismatch", "detector": "CAPA"})


# ------------------------------------------------------------------------------------------------------------------
# DEFAULT configurations at REALISTIC scale (hundreds to thousands of rows, up to ten columns): the exact correspondences above use short series and
# small hyper-parameters; defects that need a long series, many columns or the default values (bandwidth 30, max_interval_length 200 / 1000, ...)
# would pass them.  Here the detectors run as a user would run them and the property-level re-checks (_pelt_spec, _mw_spec, _sbs_spec, _cbs_spec -- the
# Python twins of the models, on the scorer's own values) decide.
# ------------------------------------------------------------------------------------------------------------------
def _scorer_vs_definition(ctx, det, kind, sc, Xn, m=1):
    """on a LONG series the built-in scorer's values themselves are compared with the definition computed from the rows (segment means / sums of squares): cuts spread over
    the whole series, in particular across multiples of 256 / 512 / 1024 rows"""
    from harness import direct
    rng = ctx.rng
    n = len(Xn)
    marks = [b for b in (256, 512, 1024, 2048) if b < n - 2 * m - 2]
    for _ in range(24):
        if marks and rng.random() < 0.6:
            b = rng.choice(marks)
            s = rng.randint(max(0, b - 150), b - m - 1)
            e = rng.randint(b + m + 1, min(n, b + 150))
        else:
            s = rng.randint(0, n - 2 * m - 2)
            e = rng.randint(s + 2 * m + 1, min(n, s + 400))
        if kind == "l2cost":
            cut, want = [s, e], direct.cost_direct("l2", None, Xn, s, e)
        elif kind == "l2saving":
            cut, want = [s, e], direct.l2saving_direct(Xn, s, e)
        elif kind == "cusum":
            k = rng.randint(s + m, e - m)
            cut, want = [s, k, e], direct.cusum_direct(Xn, s, k, e)
        else:
            if e - s < 3 * m + 3:
                continue
            a = rng.randint(s + 1, e - m - 2)
            b_ = rng.randint(a + m, e - 1)
            if (a - s) + (e - b_) < m:
                continue
            cut, want = [s, a, b_, e], direct.local_direct("l2", Xn, s, a, b_, e)
        got = sc.evaluate(np.asarray([cut]))[0]
        if not direct.close(got, want, scale=float(np.sum(np.asarray(Xn)[cut[0]:cut[-1]] ** 2)) + 1.0):
            ctx.violation(f"{det}: on a {n} x {Xn.shape[1]} series the built-in scorer gives {np.asarray(got).tolist()[:4]} on the cut {cut}, the definition computed from the rows gives "
                          f"{np.asarray(want).tolist()[:4]}", {"detector": det, "scorer": kind, "n": n, "p": int(Xn.shape[1]), "cut": cut}, {"what": "default-scale-scorer", "detector": det})
            return


def _long_series(rng, n, p):
    X = np.asarray([[rng.gauss(0, 1) for _ in range(p)] for _ in range(n)])
    k = max(1, n // 150)
    for c in sorted(rng.sample(range(20, n - 20), min(k, n - 40))):
        X[c:, : rng.randint(1, p)] += rng.choice([3.0, -4.0, 1.5])
    return X


def pelt_default_scale_stream(ctx, count, n_range=(300, 700)):
    from skchange.change_detectors import PELT
    from skchange.costs import L2Cost
    rng = ctx.rng
    for it in range(count):
        n, p = (rng.randint(*n_range) if it else rng.randint(560, 700)), rng.choice([1, 3, 10])
        Xn = _long_series(rng, n, p)
        if it % 2 == 1:
            # few changes and long flat stretches (hundreds of admissible starts stay alive), then a spike and a dip right before a level shift, at both parities
            n, p = rng.randint(420, 520), 1
            Xn = np.asarray([[rng.gauss(0, 1)] for _ in range(n)])
            Xn[80:] += 3.0
            t0 = rng.randint(290, 330)
            Xn[t0] += 7.0
            Xn[t0 + 1] -= 7.0
            Xn[t0 + 2:] += 3.0
        X = pd.DataFrame(Xn)
        d = PELT().fit(X)
        m, pen = d.min_segment_length, float(d.penalty_)
        scores = d.transform_scores(X).to_numpy().reshape(-1)
        cpts = [int(v) for v in d.predict(X)["ilocs"]]
        sc = L2Cost().fit(Xn)
        _scorer_vs_definition(ctx, "PELT", "l2cost", sc, Xn, m)
        tab = [[0.0] * (n + 1) for _ in range(n + 1)]
        cuts = np.asarray([(s, e) for s in range(n + 1) for e in range(s + m, n + 1)])
        for (s, e), v in zip(cuts, _agg(sc, cuts)):
            tab[s][e] = float(v)
        mt = {"detector": "PELT", "cost": "L2Cost (defaults)", "min_segment_length": m, "n": n, "p": p, "data": "long series", "penalty": pen, "impl_changepoints": cpts,
              "impl_scores": [float(v) for v in scores], "data_seed_note": "X is regenerated from the check's seed"}
        ctx.case({"default_scale": "pelt", "it": it, "n": n, "p": p, "x0": float(Xn[0, 0])}, nontrivial=len(cpts) > 0,
                 sample={"stream": "default configuration at scale", "detector": "PELT", "n": n, "p": p, "impl_changepoints": cpts[:10]})
        ctx.count("default_scale", "PELT")
        err = _pelt_spec_fast(mt, tab)
        if err:
            ctx.violation(f"PELT() with default hyper-parameters on a {n} x {p} series: {err}", dict(mt, impl_scores=None, X=Xn.tolist() if n * p <= 4000 else None),
                          {"what": "default-scale-spec", "detector": "PELT"})


def _pelt_spec_fast(mt, tab):
    """_pelt_spec without the O(n^3) split-inequality scan (the squared-error cost satisfies it up to rounding): admissibility, final score = own cost = optimum"""
    n, m, pen = mt["n"], mt["min_segment_length"], mt["penalty"]
    F = [-pen] + [float("inf")] * n
    for t in range(m, n + 1):
        best = F[0] + tab[0][t] + pen
        for s in range(m, t - m + 1):
            v = F[s] + tab[s][t] + pen
            if v < best:
                best = v
        F[t] = best
    cp = [0] + mt["impl_changepoints"] + [n]
    if any(b - a < m for a, b in zip(cp, cp[1:])):
        return f"changepoints {mt['impl_changepoints'][:12]} leave a segment shorter than min_segment_length = {m}"
    own = sum(tab[a][b] for a, b in zip(cp, cp[1:])) + pen * len(mt["impl_changepoints"])
    tol = 1e-8 * (abs(F[n]) + abs(own) + abs(tab[0][n]) + abs(pen) * (len(cp) + 1)) + 1e-300
    if abs(mt["impl_scores"][-1] - own) > tol:
        return f"final score {mt['impl_scores'][-1]!r} is not the penalised cost {own!r} of the reported changepoints"
    if own > F[n] + tol:
        return f"penalised cost of the reported changepoints is {own!r}, the optimum over admissible segmentations is {F[n]!r}"
    return None


def mw_default_scale_stream(ctx, count, n_range=(400, 3000)):
    from skchange.change_detectors import MovingWindow
    from skchange.change_scores import CUSUM
    rng = ctx.rng
    for it in range(count):
        n, p = (rng.randint(*n_range) if it else rng.randint(1100, 1600)), rng.choice([1, 3, 10])
        Xn = _long_series(rng, n, p)
        X = pd.DataFrame(Xn)
        d = MovingWindow().fit(X)
        if it % 3 == 2:
            # a long series with the threshold at the median score: well over a hundred separate runs above it
            n, p = rng.randint(2000, 2600), 1
            Xn = np.asarray([[rng.gauss(0, 1)] for _ in range(n)])
            X = pd.DataFrame(Xn)
            d = MovingWindow().fit(X)
            d.threshold_ = float(np.median(d.transform_scores(X).to_numpy()[30:-30]))
        b, mdi = d.bandwidth, d.min_detection_interval
        scores = d.transform_scores(X).to_numpy().reshape(-1)
        cpts = [int(v) for v in d.predict(X)["ilocs"]]
        ts_ = list(range(b, n - b + 1))
        sc_ = CUSUM().fit(Xn)
        _scorer_vs_definition(ctx, "MovingWindow", "cusum", sc_, Xn, 1)
        vals = _agg(sc_, [(t - b, t, t + b) for t in ts_])
        row = [0.0] * (n + 1)
        for t, v in zip(ts_, vals):
            row[t] = float(v)
        mt = {"detector": "MovingWindow", "score": "CUSUM (defaults)", "bandwidth": b, "min_detection_interval": mdi, "n": n, "p": p, "data": "long series",
              "threshold": float(d.threshold_), "impl_changepoints": cpts}
        ctx.case({"default_scale": "mw", "it": it, "n": n, "p": p, "x0": float(Xn[0, 0])}, nontrivial=len(cpts) > 0,
                 sample={"stream": "default configuration at scale", "detector": "MovingWindow", "n": n, "p": p, "impl_changepoints": cpts[:10]})
        ctx.count("default_scale", "MovingWindow")
        err = _mw_spec(mt, row, [float(v) for v in scores])
        if err:
            ctx.violation(f"MovingWindow() with default hyper-parameters on a {n} x {p} series: {err}", dict(mt, X=Xn.tolist() if n * p <= 4000 else None),
                          {"what": "default-scale-spec", "detector": "MovingWindow"})


def gcov_many_columns_stream(ctx, name, make, count=2, scores_invariant=True):
    """MANY columns with the multivariate Gaussian cost, in another unit: with 40 columns the determinant of a sample covariance leaves the binary64 range (1e-4 ^ 80, 1e4 ^ 80)
    although its logarithm is an ordinary number.  make() builds the detector around GaussianCovCost.  The detector must run, find the planted change in every unit, and -- the
    change / local anomaly scores being invariant under a common rescaling of the data -- publish the same scores (up to rounding) as on the unit-scale series."""
    rng = ctx.rng
    for it in range(count):
        n, p = rng.randint(170, 200), 40
        c = rng.randint(70, n - 70)
        base = np.asarray([[rng.gauss(0, 1) for _ in range(p)] for _ in range(n)])
        base[c:] += 3.0
        ref = None
        for unit in (1.0, 1e-4, 1e4, "offset"):
            # "offset": the unit-scale series on a common level of a million (the scores are invariant under a shift as well; a covariance computed from raw second
            # moments instead of centred data loses its digits there)
            Xn = base + 1e6 if unit == "offset" else base * unit
            inp = {"detector": name, "n": n, "p": p, "unit": unit, "planted_change": c, "seed_note": "40 gaussian columns, level shift of 3 sd in every column"}
            ctx.case({"gcov-wide": name, "it": it, "unit": unit}, nontrivial=True)
            ctx.count("many_columns_unit", str(unit))
            try:
                d = make().fit(pd.DataFrame(Xn))
                y = d.predict(pd.DataFrame(Xn))
                try:
                    sc = np.asarray(d.transform_scores(pd.DataFrame(Xn)).to_numpy(), dtype=float).reshape(-1)
                except NotImplementedError:
                    t = d.scores
                    sc = np.asarray(t["score"] if isinstance(t, pd.DataFrame) and "score" in t else t, dtype=float).reshape(-1)
            except Exception as ex:
                ctx.violation(f"{name} on a {n} x {p} series in the unit {unit}: raised {type(ex).__name__}: {str(ex)[:120]} (the same series in the unit 1 runs)", inp,
                              {"what": "many-columns-exception", "detector": name})
                break
            if "icolumns" in y or (len(y) and isinstance(y["ilocs"].iloc[0], pd.Interval)):
                det = [(int(l), int(r)) for l, r in zip(y["ilocs"].array.left, y["ilocs"].array.right)]
            else:
                det = [int(v) for v in y["ilocs"]]
            if ref is None:
                ref = (det, sc)
                continue
            if det != ref[0]:
                ctx.violation(f"{name} on a {n} x {p} series: detections {det} in the unit {unit}, {ref[0]} in the unit 1 (planted change at {c})", dict(inp, unit1=ref[0], got=det),
                              {"what": "many-columns-unit", "detector": name})
                break
            fin = np.isfinite(ref[1])
            if scores_invariant and (sc.shape != ref[1].shape or not np.array_equal(np.isfinite(sc), fin)
                                     or not np.allclose(sc[fin], ref[1][fin], rtol=1e-6, atol=1e-6 * (1.0 + float(np.max(np.abs(ref[1][fin]), initial=0.0))))):
                ctx.violation(f"{name} on a {n} x {p} series: the published scores in the unit {unit} differ from those in the unit 1 (first entries {sc[:3].tolist()} vs "
                              f"{ref[1][:3].tolist()}) although the score is invariant under a common rescaling", inp, {"what": "many-columns-unit-scores", "detector": name})
                break


def sbs_default_scale_stream(ctx, count, n_range=(300, 1200)):
    from skchange.change_detectors import SeededBinarySegmentation
    from skchange.change_scores import CUSUM
    rng = ctx.rng
    for it in range(count):
        n, p = (rng.randint(*n_range) if it else rng.randint(1100, 1500)), rng.choice([1, 3, 10])
        Xn = _long_series(rng, n, p)
        X = pd.DataFrame(Xn)
        d = SeededBinarySegmentation().fit(X)
        m = d.min_segment_length
        cpts = [int(v) for v in d.predict(X)["ilocs"]]
        tabl = d.scores
        ivs = [(int(a), int(b_)) for a, b_ in zip(tabl["start"], tabl["end"])]
        sc = CUSUM().fit(Xn)
        _scorer_vs_definition(ctx, "SeededBinarySegmentation", "cusum", sc, Xn, m)
        rows = []
        for (s, e) in ivs:
            ks = list(range(s + m, e - m + 1))
            rows.append([float(v) for v in _agg(sc, [(s, k, e) for k in ks])] if ks else [])
        mt = {"detector": "SeededBinarySegmentation", "score": "CUSUM (defaults)", "min_segment_length": m, "n": n, "p": p, "data": "long series",
              "threshold": float(d.threshold_), "impl_changepoints": cpts, "intervals": [list(t) for t in ivs]}
        ctx.case({"default_scale": "sbs", "it": it, "n": n, "p": p, "x0": float(Xn[0, 0])}, nontrivial=len(cpts) > 0,
                 sample={"stream": "default configuration at scale", "detector": "SeededBinarySegmentation", "n": n, "p": p, "n_intervals": len(ivs), "impl_changepoints": cpts[:10]})
        ctx.count("default_scale", "SeededBinarySegmentation")
        err = None
        lens = [e - s for s, e in ivs]
        if not ivs or min(lens) < 2 * m or max(lens) > min(d.max_interval_length, n) or any(s < 0 or e > n for s, e in ivs):
            err = f"candidate intervals with lengths {min(lens) if lens else None} .. {max(lens) if lens else None} outside [2 m, min(max_interval_length, n)] = [{2 * m}, {min(d.max_interval_length, n)}]"
        err = err or _sbs_spec(mt, rows, [int(v) for v in tabl["argmax_cpt"]], [float(v) for v in tabl["score"]])
        if err:
            ctx.violation(f"SeededBinarySegmentation() with default hyper-parameters on a {n} x {p} series: {err}", dict(mt, intervals=None, X=Xn.tolist() if n * p <= 4000 else None),
                          {"what": "default-scale-spec", "detector": "SeededBinarySegmentation"})


def cbs_default_scale_stream(ctx, count, n_range=(150, 220)):
    from skchange.anomaly_detectors import CircularBinarySegmentation
    from skchange.anomaly_scores import LocalAnomalyScore
    from skchange.costs import L2Cost
    rng = ctx.rng
    for it in range(count):
        n, p = (rng.randint(*n_range) if it else rng.randint(262, 290)), (rng.choice([1, 3]) if it else 1)
        Xn = np.asarray([[rng.gauss(0, 1) for _ in range(p)] for _ in range(n)])
        a = rng.randint(10, n - 40) if it % 2 else 2 * rng.randint(10, 22)
        # a short event, or one that spans most of the series (EVEN start, ODD end: not on any coarser grid anchored at the first admissible inner start)
        Xn[a:(a + rng.randint(6, 25)) if it % 2 else ((n - rng.randint(12, 40)) | 1)] += rng.choice([4.0, -5.0])
        X = pd.DataFrame(Xn)
        d = CircularBinarySegmentation().fit(X)
        m = d.min_segment_length
        y = d.predict(X)
        anoms = [(int(l), int(r)) for l, r in zip(y["ilocs"].array.left, y["ilocs"].array.right)]
        tabl = d.scores
        ivs = [(int(a_), int(b_)) for a_, b_ in zip(tabl["interval_start"], tabl["interval_end"])]
        sc = LocalAnomalyScore(L2Cost()).fit(Xn)
        _scorer_vs_definition(ctx, "CircularBinarySegmentation", "local", sc, Xn, m)
        rows = []
        for (s, e) in ivs:
            cands = model_anomaly_intervals(s, e, m)
            rows.append([float(v) for v in _agg(sc, [(s, a_, b_, e) for a_, b_ in cands])] if cands else [])
        inner = [(int(a_), int(b_)) for a_, b_ in zip(tabl["argmax_anomaly_start"], tabl["argmax_anomaly_end"])]
        mt = {"detector": "CircularBinarySegmentation", "score": "L2Cost (defaults)", "min_segment_length": m, "n": n, "p": p, "data": "one collective anomaly",
              "threshold": float(d.threshold_), "impl_anomalies": [list(t) for t in anoms], "intervals": [list(t) for t in ivs]}
        ctx.case({"default_scale": "cbs", "it": it, "n": n, "p": p, "x0": float(Xn[0, 0])}, nontrivial=len(anoms) > 0,
                 sample={"stream": "default configuration at scale", "detector": "CircularBinarySegmentation", "n": n, "p": p, "n_intervals": len(ivs), "impl_anomalies": anoms})
        ctx.count("default_scale", "CircularBinarySegmentation")
        err = _cbs_spec(mt, rows, inner, [float(v) for v in tabl["score"]])
        if err:
            ctx.violation(f"CircularBinarySegmentation() with default hyper-parameters on a {n} x {p} series: {err}", dict(mt, intervals=None, X=Xn.tolist()),
                          {"what": "default-scale-spec", "detector": "CircularBinarySegmentation"})
