import json
import os
import sys
import time

from harness import engine


def main(argv):
    if not argv:
        print(__doc__ or "usage: check setup | Cxx [--tier quick|thorough] | all | replay <file>")
        return 2
    cmd = argv[0]
    tier = os.environ.get("VERIF_TIER", "quick")
    if "--tier" in argv:
        tier = argv[argv.index("--tier") + 1]
    if tier not in ("quick", "thorough"):
        tier = "quick"
    try:
        seed = int(os.environ.get("VERIF_SEED", "0"))
    except ValueError:
        seed = 0
    if cmd == "setup":
        t0 = time.time()
        ok, msg = engine.regenerate_gen()
        if not ok:
            print("translator:", msg)
        ok2, log = engine.coq_make(None)
        print(log[-3000:])
        print(f"setup {'ok' if ok2 else 'FAILED'} in {time.time() - t0:.1f}s")
        return 0 if ok2 else 1
    if cmd == "replay":
        from harness import replay
        return replay.main(argv[1])
    if cmd == "all":
        man = json.load(open(os.path.join(engine.VERIF, "MANIFEST.json")))
        rc = 0
        for c in man["checks"]:
            rc |= engine.run_check(c["property_id"], tier, seed)
        return rc
    if cmd.upper().startswith("C") and cmd[1:].isdigit():
        return engine.run_check(cmd.upper(), tier, seed)
    print("unknown command", cmd)
    return 2


if __name__ == "__main__":
    sys.exit(main(sys.argv[1:]))
