"""Exact integer "table" scorers plugged into the real detectors through the public
extension points (_fit / _evaluate / min_size / get_param_size).  Values are
integer-valued float64 (|v| < 2^40), so every sum / comparison the detectors perform
on them is exact and model output must EQUAL implementation output."""
import numpy as np

from skchange.anomaly_scores.base import BaseLocalAnomalyScore, BaseSaving
from skchange.change_scores.base import BaseChangeScore
from skchange.costs.base import BaseCost


from skchange.change_scores import ChangeScore as _ChangeScore
from skchange.anomaly_scores import LocalAnomalyScore as _LocalAnomalyScore
from skchange.costs import L2Cost as _L2Cost


class TableCost(BaseCost):
    """table[j][s][e] = cost of column j on [s, e)."""

    def __init__(self, table=None, min_size_=1, param=None, int_dtype=False):
        self.table = table
        self.min_size_ = min_size_
        self.int_dtype = int_dtype
        super().__init__(param)
        self._t = np.asarray(table, dtype=np.int64 if int_dtype else float)   # int_dtype: evaluate returns an integer array

    @property
    def min_size(self):
        return self.min_size_

    def _fit(self, X, y=None):
        return self

    def _evaluate_optim_param(self, starts, ends):
        return self._t[:, starts, ends].T.copy()

    def _evaluate_fixed_param(self, starts, ends):
        return self._t[:, starts, ends].T.copy()


class TableSaving(BaseSaving):
    def __init__(self, table=None, n_params_per_variable=1):
        self.table = table
        self.n_params_per_variable = n_params_per_variable
        super().__init__()
        self._t = np.asarray(table, dtype=float)

    def get_param_size(self, p):
        return self.n_params_per_variable * p

    def _fit(self, X, y=None):
        return self

    def _evaluate(self, cuts):
        return self._t[:, cuts[:, 0], cuts[:, 1]].T.copy()


class FnChangeScore(BaseChangeScore):
    """fn(j, s, k, e) -> int, for p columns."""

    def __init__(self, fn=None, p=1, min_size_=1, int_dtype=False):
        self.int_dtype = int_dtype          # evaluate returns an int64 array (a user-defined scorer may)
        self.fn = fn
        self.p = p
        self.min_size_ = min_size_
        super().__init__()

    @property
    def min_size(self):
        return self.min_size_

    def _fit(self, X, y=None):
        return self

    def _evaluate(self, cuts):
        out = np.array([[float(self.fn(j, *map(int, c))) for j in range(self.p)] for c in cuts]).reshape(len(cuts), self.p)
        return out.astype(np.int64) if self.int_dtype else out


class FnChangeScoreSub(_ChangeScore):
    """A user-defined change score that DERIVES FROM the library's cost-based ChangeScore and overrides its evaluation: fn(j, s, k, e) -> int.  A detector must use the
    object's own evaluate, not what its base class would have computed from the wrapped cost."""

    def __init__(self, cost=None, fn=None, p=1, min_size_=1):
        self.fn = fn
        self.p = p
        self.min_size_ = min_size_
        super().__init__(cost if cost is not None else _L2Cost())

    @property
    def min_size(self):
        return self.min_size_

    def _fit(self, X, y=None):
        self.cost.fit(X)
        return self

    def _evaluate(self, cuts):
        return np.array([[float(self.fn(j, *map(int, c))) for j in range(self.p)] for c in cuts]).reshape(len(cuts), self.p)


class FnLocalScoreSub(_LocalAnomalyScore):
    """The same for a local anomaly score deriving from the library's cost-based LocalAnomalyScore: fn(j, s, a, b, e) -> int."""

    def __init__(self, cost=None, fn=None, p=1, min_size_=1):
        self.fn = fn
        self.p = p
        self.min_size_ = min_size_
        super().__init__(cost if cost is not None else _L2Cost())

    @property
    def min_size(self):
        return self.min_size_

    def _fit(self, X, y=None):
        return self

    def _evaluate(self, cuts):
        return np.array([[float(self.fn(j, *map(int, c))) for j in range(self.p)] for c in cuts]).reshape(len(cuts), self.p)


class FnLocalScore(BaseLocalAnomalyScore):
    """fn(j, s, a, b, e) -> int, for p columns."""

    def __init__(self, fn=None, p=1, min_size_=1, int_dtype=False):
        self.int_dtype = int_dtype          # evaluate returns an int64 array (a user-defined scorer may)
        self.fn = fn
        self.p = p
        self.min_size_ = min_size_
        super().__init__()

    @property
    def min_size(self):
        return self.min_size_

    def _fit(self, X, y=None):
        return self

    def _evaluate(self, cuts):
        out = np.array([[float(self.fn(j, *map(int, c))) for j in range(self.p)] for c in cuts]).reshape(len(cuts), self.p)
        return out.astype(np.int64) if self.int_dtype else out


# ----------------------------------------------------------------------------------------
# generators of integer score tables
# ----------------------------------------------------------------------------------------
def loss_table(rng, n, K, hi):
    return [[rng.randint(0, hi) for _ in range(K)] for _ in range(n)]


def cost_from_loss(loss, n):
    """C(s,e) = min_theta sum_{i in [s,e)} loss[i][theta]: super-additive for every split."""
    K = len(loss[0]) if loss else 1
    pre = [[0] * K]
    for i in range(n):
        pre.append([pre[-1][t] + loss[i][t] for t in range(K)])
    return [[(min(pre[e][t] - pre[s][t] for t in range(K)) if e > s else 0) for e in range(n + 1)] for s in range(n + 1)]


def saving_from_loss(loss, n):
    """S(s,e) = sum loss[i][0] - min_theta sum loss[i][theta] >= 0, sub-additive under splitting."""
    K = len(loss[0]) if loss else 1
    pre = [[0] * K]
    for i in range(n):
        pre.append([pre[-1][t] + loss[i][t] for t in range(K)])
    return [[((pre[e][0] - pre[s][0]) - min(pre[e][t] - pre[s][t] for t in range(K)) if e > s else 0)
             for e in range(n + 1)] for s in range(n + 1)]


def arbitrary_table(rng, n, lo, hi):
    return [[(rng.randint(lo, hi) if e > s else 0) for e in range(n + 1)] for s in range(n + 1)]


def agg(tables):
    """sum over columns of p tables."""
    n1 = len(tables[0])
    return [[sum(t[s][e] for t in tables) for e in range(n1)] for s in range(n1)]
