"""C05: dense labels and sparse detections describe the same events for any index."""
import numpy as np
import pandas as pd

from harness.engine import coq_bad_cases, coq_list, nlist, pairs_nat

INFO = {
    "extra_targets": ["Check/ConvertCheck.vo"],
    "level": "proof",
    "rule": "hand-built and random VALID sparse outputs (changepoints incl. 1 and n-1; anomaly intervals incl. adjacent, length-1, "
            "touching 0 and n; subset anomalies with random non-empty column subsets in random order) x index kinds {RangeIndex(0..n), "
            "RangeIndex(5..), RangeIndex(-3..), RangeIndex step 2, DatetimeIndex, PeriodIndex} x column labels {default ints, strings}: "
            "the static converters sparse_to_dense / dense_to_sparse of the three base classes AND transform() of stub detectors that "
            "return the given sparse output, plus the real detectors on seeded data; dense output must carry X's own index and equal the "
            "index-blind Coq model, dense_to_sparse(dense) must equal the sparse input; non-trivial = at least one event",
    "trusted_base": ["Coq 8.16.1 kernel + vm_compute", "harness/c05.py (generators, stub detectors, canonicalisation of pandas frames)",
                     "Model/Convert.v hand-written", "pandas index machinery (platform)"],
    "assumptions": ["sparse outputs are valid (sorted, disjoint, non-empty, inside [0,n]); index types as listed in the property"],
}
HEADER = ("From Coq Require Import List Arith Bool.\nFrom SK Require Import Lib.Base Model.Convert Check.ConvertCheck.\n"
          "Import ListNotations.\nClose Scope Z_scope.\nOpen Scope nat_scope.")

INDEX_KINDS = ["range0", "range5", "range-3", "step2", "datetime", "period"]


def make_index(kind, n):
    if kind == "range0":
        return pd.RangeIndex(n)
    if kind == "range5":
        return pd.RangeIndex(5, 5 + n)
    if kind == "range-3":
        return pd.RangeIndex(-3, n - 3)
    if kind == "step2":
        return pd.RangeIndex(0, 2 * n, 2)
    if kind == "datetime":
        return pd.date_range("2021-03-01", periods=n, freq="D")
    if kind == "period":
        return pd.period_range("2020-01", periods=n, freq="M")
    raise ValueError(kind)


def rand_cpts(rng, n):
    if n < 2:
        return []
    k = rng.choice([0, 1, 1, 2, 3, 5])
    pts = sorted(rng.sample(range(1, n), min(k, n - 1)))
    if rng.random() < 0.3 and 1 not in pts:
        pts = sorted(set(pts + [1]))
    if rng.random() < 0.3:
        pts = sorted(set(pts + [n - 1]))
    return pts


def rand_ivs(rng, n):
    """sorted, disjoint, non-empty intervals in [0, n]; adjacency, length 1 and the ends are frequent"""
    ivs, pos = [], 0
    if rng.random() < 0.6:
        pos = rng.choice([0, 0, rng.randint(0, max(0, n - 1))])
    while pos < n and len(ivs) < 5:
        ln = rng.choice([1, 1, 2, 3, rng.randint(1, max(1, n - pos))])
        e = min(n, pos + ln)
        ivs.append((pos, e))
        if rng.random() < 0.45:
            pos = e              # adjacent
        else:
            pos = e + rng.randint(1, 4)
        if rng.random() < 0.25:
            break
    if ivs and rng.random() < 0.3 and ivs[-1][1] < n:
        s = max(ivs[-1][1], n - rng.randint(1, 2))
        ivs.append((s, n))
    return ivs


def corpus():
    yield ("ca", 6, [(0, 2), (2, 4)], None)            # D12: adjacent anomalies were merged
    yield ("ca", 5, [(1, 2), (2, 3), (3, 5)], None)
    yield ("ca", 4, [(0, 4)], None)
    yield ("ca", 4, [(0, 1), (3, 4)], None)
    yield ("cd", 6, [1, 5], None)
    yield ("cd", 6, [3], None)                          # D11: datetime / offset index
    yield ("sub", 5, [(0, 2), (2, 5)], [[1], [0, 2]])
    yield ("sub", 4, [(1, 2)], [[2, 0]])


def run(ctx):
    from skchange.anomaly_detectors.base import CollectiveAnomalyDetector, SubsetCollectiveAnomalyDetector
    from skchange.change_detectors.base import ChangeDetector

    class StubCD(ChangeDetector):
        def __init__(self, cpts=None):
            self.cpts = cpts
            super().__init__()

        def _fit(self, X, y=None):
            return self

        def _predict(self, X):
            return ChangeDetector._format_sparse_output(list(self.cpts))

    class StubCA(CollectiveAnomalyDetector):
        def __init__(self, ivs=None):
            self.ivs = ivs
            super().__init__()

        def _fit(self, X, y=None):
            return self

        def _predict(self, X):
            return CollectiveAnomalyDetector._format_sparse_output(list(self.ivs))

    class StubSub(SubsetCollectiveAnomalyDetector):
        def __init__(self, anoms=None):
            self.anoms = anoms
            super().__init__()

        def _fit(self, X, y=None):
            return self

        def _predict(self, X):
            return SubsetCollectiveAnomalyDetector._format_sparse_output([(s, e, c) for s, e, c in self.anoms])

    rng = ctx.rng
    N = ctx.n(240, 3000)
    specs = list(corpus())
    for i in range(N):
        n = rng.randint(1, 14) if i % 4 else rng.randint(10, 40)
        kind = rng.choice(["cd", "ca", "ca", "sub"])
        if kind == "cd":
            specs.append(("cd", n, rand_cpts(rng, n), None))
        else:
            ivs = rand_ivs(rng, n)
            cols = None
            if kind == "sub":
                p = rng.randint(1, 4)
                cols = []
                for _ in ivs:
                    c = rng.sample(range(p), rng.randint(1, p))
                    cols.append(c)
            specs.append((kind, n, ivs, cols))
    cd_cases, ca_cases, sub_cases, cd_meta, ca_meta, sub_meta = [], [], [], [], [], []
    for si, (kind, n, ev, cols) in enumerate(specs):
        kinds = INDEX_KINDS if (si < 12 or not ctx.quick()) else [INDEX_KINDS[0], rng.choice(INDEX_KINDS[1:]), rng.choice(INDEX_KINDS[1:])]
        for ik in kinds:
            index = make_index(ik, n)
            strcols = rng.random() < 0.5
            p = 1 if kind != "sub" else (max(max(c) for c in cols) + 1 if cols else 1)
            p = max(p, 1)
            colnames = [f"c{j}" for j in range(p)] if strcols else list(range(p))
            X = pd.DataFrame(np.zeros((n, p)), index=index, columns=colnames)
            inp = {"kind": kind, "n": n, "events": [list(e) if isinstance(e, tuple) else e for e in ev], "columns": cols,
                   "index": ik, "string_columns": strcols}
            sig = {"kind": kind, "index": ik}
            try:
                if kind == "cd":
                    ys = ChangeDetector._format_sparse_output(list(ev))
                    dense = ChangeDetector.sparse_to_dense(ys, X.index, X.columns)
                    tr = StubCD(list(ev)).fit(X).transform(X)
                    back = ChangeDetector.dense_to_sparse(dense)
                    ok_index = dense.index.equals(X.index) and tr.index.equals(X.index)
                    dl = [int(v) for v in dense["labels"].to_numpy()]
                    tl = [int(v) for v in tr["labels"].to_numpy()]
                    bl = [int(v) for v in back["ilocs"].to_numpy()]
                    frame_ok = isinstance(back.index, pd.RangeIndex) and back["ilocs"].dtype == np.int64
                elif kind == "ca":
                    ys = CollectiveAnomalyDetector._format_sparse_output(list(ev))
                    dense = CollectiveAnomalyDetector.sparse_to_dense(ys, X.index, X.columns)
                    tr = StubCA(list(ev)).fit(X).transform(X)
                    back = CollectiveAnomalyDetector.dense_to_sparse(dense)
                    ok_index = dense.index.equals(X.index) and tr.index.equals(X.index)
                    dl = [int(v) for v in dense["labels"].to_numpy()]
                    tl = [int(v) for v in tr["labels"].to_numpy()]
                    bl = [(int(a), int(b)) for a, b in zip(back["ilocs"].array.left, back["ilocs"].array.right)]
                    frame_ok = (isinstance(back.index, pd.RangeIndex) and back["ilocs"].array.closed == "left"
                                and list(back["labels"]) == list(range(1, len(bl) + 1)))
                else:
                    anoms = [(s, e, c) for (s, e), c in zip(ev, cols)]
                    ys = SubsetCollectiveAnomalyDetector._format_sparse_output(anoms)
                    dense = SubsetCollectiveAnomalyDetector.sparse_to_dense(ys, X.index, X.columns)
                    tr = StubSub(anoms).fit(X).transform(X)
                    back = SubsetCollectiveAnomalyDetector.dense_to_sparse(dense)
                    ok_index = dense.index.equals(X.index) and tr.index.equals(X.index)
                    dl = [[int(v) for v in r] for r in dense.to_numpy()]
                    tl = [[int(v) for v in r] for r in tr.to_numpy()]
                    bl = [(int(a), int(b), [int(c) for c in cc]) for a, b, cc in
                          zip(back["ilocs"].array.left, back["ilocs"].array.right, back["icolumns"])]
                    frame_ok = (isinstance(back.index, pd.RangeIndex) and back["ilocs"].array.closed == "left"
                                and list(back["labels"]) == list(range(1, len(bl) + 1))
                                and list(dense.columns) == [f"labels_{c}" for c in colnames])
            except Exception as ex:
                ctx.violation(f"{kind} converter raised {type(ex).__name__}: {str(ex)[:120]} (n={n}, events={ev}, index={ik})",
                              inp, dict(sig, what="exception", cls=type(ex).__name__))
                continue
            inp.update({"impl_dense": dl, "impl_transform": tl, "impl_back": [list(b) if isinstance(b, tuple) else b for b in bl]})
            if not ok_index:
                ctx.violation(f"{kind}: dense output does not carry X's own index (index kind {ik})", inp, dict(sig, what="index"))
            if not frame_ok:
                ctx.violation(f"{kind}: dense_to_sparse output frame is not in the documented sparse format", inp, dict(sig, what="frame"))
            if tl != dl:
                ctx.violation(f"{kind}: transform(X) differs from sparse_to_dense(predict(X), X.index) (index kind {ik})", inp,
                              dict(sig, what="transform"))
            flat = bl if kind == "cd" else [v for b in bl for v in b[:2]]
            if any(v < 0 for v in flat):
                ctx.violation(f"{kind}: dense_to_sparse returned a negative position {bl}: index labels instead of integer positions "
                              f"(n={n}, events={ev}, index={ik})", inp, dict(sig, what="labels/roundtrip"))
                continue
            if kind == "cd":
                cd_cases.append(f"({n}, {nlist(ev)}, {nlist(dl)}, {nlist(bl)})")
                cd_meta.append((inp, sig))
            elif kind == "ca":
                ca_cases.append(f"({n}, {pairs_nat(ev)}, {nlist(dl)}, {pairs_nat(bl)})")
                ca_meta.append((inp, sig))
            else:
                a3 = lambda lst: coq_list([f"({s}, {e}, {nlist(c)})" for s, e, c in lst])
                sub_cases.append(f"({n}, {p}, {a3(anoms)}, {coq_list([nlist(r) for r in dl])}, {a3(bl)})")
                sub_meta.append((inp, sig))
            ctx.case({"k": kind, "n": n, "ev": ev, "cols": cols, "ik": ik}, nontrivial=len(ev) > 0,
                     sample={"kind": kind, "n": n, "events": inp["events"], "columns": cols, "index": ik, "dense": dl if n <= 12 else "(long)"})
            ctx.count("kind", kind)
            ctx.count("index", ik)
            ctx.count("n_events", min(len(ev), 5))
            if kind != "cd":
                ctx.count("adjacent", any(a[1] == b[0] for a, b in zip(ev, ev[1:])))

    def report(bad, meta, name):
        for i in bad[:25]:
            inp, sig = meta[i]
            dl, bl = inp["impl_dense"], inp["impl_back"]
            ctx.violation(f"{name}: dense labels / round trip disagree with the positional definition: n={inp['n']} events={inp['events']} "
                          f"index={inp['index']} impl dense={dl if inp['n'] <= 14 else '(long)'} impl dense_to_sparse={bl}", inp,
                          dict(sig, what="labels/roundtrip"))
    report(coq_bad_cases(ctx.cid, HEADER, "cd_case", "cd_case_ok", cd_cases, shard=400, tag="cd"), cd_meta, "change detector")
    report(coq_bad_cases(ctx.cid, HEADER, "ca_case", "ca_case_ok", ca_cases, shard=400, tag="ca"), ca_meta, "collective anomaly detector")
    report(coq_bad_cases(ctx.cid, HEADER, "sub_case", "sub_case_ok", sub_cases, shard=300, tag="sub"), sub_meta, "subset anomaly detector")

    # ---- real detectors: transform / predict / dense_to_sparse agree for every index kind ----
    real_detectors(ctx)


def real_detectors(ctx):
    from skchange.anomaly_detectors import CAPA, MVCAPA, CircularBinarySegmentation, StatThresholdAnomaliser
    from skchange.change_detectors import PELT, MovingWindow, SeededBinarySegmentation
    rng = np.random.default_rng(ctx.seed + 5)
    nrep = 2 if ctx.quick() else 8
    for rep in range(nrep):
        n = int(rng.integers(30, 60))
        base = rng.normal(size=(n, 2))
        a, b = sorted(rng.choice(np.arange(5, n - 5), 2, replace=False))
        if b - a < 3:
            b = a + 3
        base[a:b] += 6.0
        base[b:b + 2, 0] -= 7.0         # a second, adjacent event
        if rep % 2 == 0:
            base[int(rng.integers(0, a - 2)), rep % 4 // 2] += 16.0      # an isolated spike BEFORE the collective event (a point anomaly precedes a collective one)
        if rep % 2 == 1 or rep % 4 == 0:
            if b + 6 < n - 1:
                base[int(rng.integers(b + 5, n - 1)), 0] -= 17.0          # ... and one AFTER it (a collective anomaly precedes a point anomaly): time order, not kind order
        dets = [("PELT", lambda: PELT(), 2), ("MovingWindow", lambda: MovingWindow(bandwidth=4), 2),
                ("SeededBinarySegmentation", lambda: SeededBinarySegmentation(), 2),
                ("CAPA", lambda: CAPA(), 2), ("MVCAPA", lambda: MVCAPA(), 2),
                # the other mode: point anomalies dropped -- several collective anomalies must still come out in time order
                ("CAPA(ignore_point_anomalies)", lambda: CAPA(ignore_point_anomalies=True), 2), ("MVCAPA(ignore_point_anomalies)", lambda: MVCAPA(ignore_point_anomalies=True), 2),
                ("CircularBinarySegmentation", lambda: CircularBinarySegmentation(), 2),
                ("StatThresholdAnomaliser", lambda: StatThresholdAnomaliser(PELT(), stat_lower=-2.0, stat_upper=2.0), 1),
                # configurations under which NOTHING is detected: the dense output must still have the detector's own format
                ("PELT(nothing detected)", lambda: PELT(penalty_scale=1e6), 2), ("MovingWindow(nothing detected)", lambda: MovingWindow(bandwidth=4, threshold_scale=1e6), 2),
                ("CAPA(nothing detected)", lambda: CAPA(collective_penalty_scale=1e6, point_penalty_scale=1e6), 2),
                ("MVCAPA(nothing detected)", lambda: MVCAPA(collective_penalty_scale=1e6, point_penalty_scale=1e6), 2),
                ("CircularBinarySegmentation(nothing detected)", lambda: CircularBinarySegmentation(threshold_scale=1e6), 2),
                ("StatThresholdAnomaliser(nothing detected)", lambda: StatThresholdAnomaliser(PELT(), stat_lower=-1e9, stat_upper=1e9), 1)]
        for name, mk, p in dets:
            ref = None
            for ik in INDEX_KINDS:
                X = pd.DataFrame(base[:, :p], index=make_index(ik, n), columns=[f"v{j}" for j in range(p)])
                inp = {"detector": name, "index": ik, "n": n, "X": base[:, :p].tolist()}
                sig = {"kind": "real:" + name, "index": ik}
                try:
                    d = mk().fit(X)
                    sp = d.predict(X)
                    tr = d.transform(X)
                    back = d.dense_to_sparse(tr)
                except Exception as ex:
                    ctx.violation(f"{name}: fit/predict/transform raised {type(ex).__name__}: {str(ex)[:100]} for index kind {ik}", inp,
                                  dict(sig, what="exception", cls=type(ex).__name__))
                    continue
                def canon(y):
                    if "icolumns" in y:
                        return [(int(l), int(r), sorted(int(c) for c in cc)) for l, r, cc in
                                zip(y["ilocs"].array.left, y["ilocs"].array.right, y["icolumns"])]
                    if len(y) and isinstance(y["ilocs"].iloc[0], pd.Interval):
                        return [(int(l), int(r)) for l, r in zip(y["ilocs"].array.left, y["ilocs"].array.right)]
                    return [int(v) for v in y["ilocs"]]
                cs, cb = canon(sp), canon(back)
                dense = tr.to_numpy().tolist()
                inp.update({"predict": cs, "dense_to_sparse_of_transform": cb})
                ctx.case({"real": name, "rep": rep, "ik": ik}, nontrivial=len(cs) > 0)
                ctx.count("real", name)
                if not tr.index.equals(X.index):
                    ctx.violation(f"{name}: transform(X) does not carry X's index ({ik})", inp, dict(sig, what="index"))
                if cs != cb:
                    ctx.violation(f"{name}: dense_to_sparse(transform(X)) = {cb} differs from predict(X) = {cs} (index kind {ik})", inp,
                                  dict(sig, what="roundtrip"))
                try:
                    want = d.sparse_to_dense(sp, X.index, X.columns)
                    wf = want if isinstance(want, pd.DataFrame) else want.to_frame()
                    tf = tr if isinstance(tr, pd.DataFrame) else tr.to_frame()
                    if tf.shape != wf.shape or [str(c) for c in tf.columns] != [str(c) for c in wf.columns] or not np.array_equal(tf.to_numpy(), wf.to_numpy()):
                        ctx.violation(f"{name}: transform(X) (shape {tf.shape}, columns {list(tf.columns)[:3]}) is not sparse_to_dense(predict(X), X.index, X.columns) "
                                      f"(shape {wf.shape}, columns {list(wf.columns)[:3]}); index kind {ik}", inp, dict(sig, what="transform-vs-sparse_to_dense"))
                except Exception as ex:
                    ctx.violation(f"{name}: sparse_to_dense(predict(X), X.index, X.columns) raised {type(ex).__name__}: {str(ex)[:100]}", inp,
                                  dict(sig, what="exception", cls=type(ex).__name__))
                if ref is None:
                    ref = (cs, dense)
                elif ref != (cs, dense):
                    ctx.violation(f"{name}: predict/transform depend on the index kind ({ik} vs range0): predict {cs} vs {ref[0]}", inp,
                                  dict(sig, what="index-dependence"))
            # ---- fitted on ONE frame, applied to ANOTHER: other length, other row labels, other column labels (renamed / integers / the training labels in another
            #      order) or a bare array.  The dense output must be labelled by the frame that is SCORED and invert to predict of that frame. ----
            n2 = n + 9 + rep
            other = np.vstack([base[:, :p], base[:9 + rep, :p]])
            variants = [("renamed", [f"w{j}" for j in range(p)]), ("integers", [7 + 3 * j for j in range(p)]), ("training-labels-reversed", [f"v{j}" for j in range(p)][::-1]), ("ndarray", None)]
            try:
                d = mk().fit(pd.DataFrame(base[:, :p], columns=[f"v{j}" for j in range(p)]))
                sp_ref = canon(d.predict(other.copy()))
            except Exception as ex:
                ctx.violation(f"{name}: fit on one frame / predict on an array of another length raised {type(ex).__name__}: {str(ex)[:100]}", {"detector": name, "n": n, "n_new": n2},
                              {"kind": "real:" + name, "what": "exception", "cls": type(ex).__name__})
                continue
            for vk, (vname, cols) in enumerate(variants):
                ik2 = INDEX_KINDS[(rep + vk) % len(INDEX_KINDS)]
                B = other.copy() if cols is None else pd.DataFrame(other.copy(), index=make_index(ik2, n2), columns=cols)
                inp = {"detector": name, "fitted_on": "frame with columns v0..", "scored": vname, "index": ik2, "n_train": n, "n_new": n2, "X_train": base[:, :p].tolist(), "X_new": other.tolist()}
                sig = {"kind": "real-other-frame:" + name, "variant": vname}
                try:
                    sp = d.predict(B)
                    tr = d.transform(B)
                    back = d.dense_to_sparse(tr)
                    Bf = pd.DataFrame(B)
                    want = d.sparse_to_dense(sp, Bf.index, Bf.columns)
                except Exception as ex:
                    ctx.violation(f"{name}: fitted on a frame, predict/transform of another frame ({vname}, index {ik2}) raised {type(ex).__name__}: {str(ex)[:100]}", inp,
                                  dict(sig, what="exception", cls=type(ex).__name__))
                    continue
                ctx.case({"real-other": name, "rep": rep, "variant": vname}, nontrivial=len(sp) > 0)
                ctx.count("real_other_frame", vname)
                cs, cb = canon(sp), canon(back)
                wf = want if isinstance(want, pd.DataFrame) else want.to_frame()
                tf = tr if isinstance(tr, pd.DataFrame) else tr.to_frame()
                if cs != sp_ref:
                    ctx.violation(f"{name}: predict of the frame ({vname}) = {cs} differs from predict of the same numbers as an array = {sp_ref}", inp, dict(sig, what="other-frame-predict"))
                elif cs != cb:
                    ctx.violation(f"{name}: fitted on one frame, dense_to_sparse(transform(B)) = {cb} differs from predict(B) = {cs} ({vname})", inp, dict(sig, what="other-frame-roundtrip"))
                elif not tf.index.equals(Bf.index) or tf.shape != wf.shape or [str(c) for c in tf.columns] != [str(c) for c in wf.columns] or not np.array_equal(tf.to_numpy(), wf.to_numpy()):
                    ctx.violation(f"{name}: fitted on a frame with columns v0.., transform(B) for B with columns {list(Bf.columns)} has columns {list(tf.columns)[:4]} / index of kind "
                                  f"{type(tf.index).__name__}; sparse_to_dense(predict(B), B.index, B.columns) has columns {list(wf.columns)[:4]}", inp, dict(sig, what="other-frame-labels"))
