"""Python twins of coq/Check/Scores.v (integer change scores / local anomaly scores)."""


def psum(xs):
    out = [0]
    for v in xs:
        out.append(out[-1] + v)
    return out


class Cs:
    """one column of an integer change score"""

    def __init__(self, kind, **kw):
        self.kind, self.kw = kind, kw
        if kind == "cusum":
            self.S = psum(kw["xs"])

    def __call__(self, s, k, e):
        if self.kind == "formula":
            a, b, c, d, q, off = (self.kw[x] for x in "abcdqo")
            return ((a * s + b * k + c * e + d * s * e + k * k) % q) - off
        S = self.S
        return abs((e - k) * (S[k] - S[s]) - (k - s) * (S[e] - S[k]))

    def coq(self):
        from harness.engine import zlist, zlit
        if self.kind == "formula":
            return "(CsFormula %s)" % " ".join(zlit(self.kw[x]) for x in "abcdqo")
        return "(CsCusum %s)" % zlist(self.kw["xs"])

    def json(self):
        return {"kind": self.kind, **self.kw}


class Ls:
    """one column of an integer local anomaly score"""

    def __init__(self, kind, **kw):
        self.kind, self.kw = kind, kw
        if kind == "mean":
            self.S = psum(kw["xs"])

    def __call__(self, s, x, y, e):
        if self.kind == "formula":
            a, b, c, d, q, off = (self.kw[k] for k in "abcdqo")
            return ((a * s + b * x + c * y + d * e + x * y) % q) - off
        S = self.S
        sin = S[y] - S[x]
        sout = (S[x] - S[s]) + (S[e] - S[y])
        return abs(((x - s) + (e - y)) * sin - (y - x) * sout)

    def coq(self):
        from harness.engine import zlist, zlit
        if self.kind == "formula":
            return "(LsFormula %s)" % " ".join(zlit(self.kw[k]) for k in "abcdqo")
        return "(LsMean %s)" % zlist(self.kw["xs"])

    def json(self):
        return {"kind": self.kind, **self.kw}


def random_cs(rng, n, p):
    out = []
    for _ in range(p):
        if rng.random() < 0.5:
            q = rng.choice([3, 5, 7, 11, 13])
            out.append(Cs("formula", a=rng.randint(0, 9), b=rng.randint(0, 9), c=rng.randint(0, 9), d=rng.randint(0, 3),
                          q=q, o=rng.choice([0, 0, 1, q // 2])))
        else:
            xs = [rng.randint(-2, 2) for _ in range(n)]
            for _ in range(rng.choice([0, 1, 1, 2])):       # level shifts
                c = rng.randint(1, n - 1)
                d = rng.choice([-5, 4, 6])
                xs = [v + (d if i >= c else 0) for i, v in enumerate(xs)]
            out.append(Cs("cusum", xs=xs))
    return out


def random_ls(rng, n, p):
    out = []
    for _ in range(p):
        if rng.random() < 0.5:
            q = rng.choice([3, 5, 7, 11, 13])
            out.append(Ls("formula", a=rng.randint(0, 9), b=rng.randint(0, 9), c=rng.randint(0, 9), d=rng.randint(0, 9),
                          q=q, o=rng.choice([0, 0, 1, q // 2])))
        else:
            xs = [rng.randint(-2, 2) for _ in range(n)]
            for _ in range(rng.choice([0, 1, 1, 2])):       # epidemic bumps
                a = rng.randint(0, n - 2)
                b = rng.randint(a + 1, n)
                d = rng.choice([-5, 4, 6])
                xs = [v + (d if a <= i < b else 0) for i, v in enumerate(xs)]
            out.append(Ls("mean", xs=xs))
    return out


def seeded_lens(n, min_length, max_length, growth_factor):
    """The floating-point front end of make_seeded_intervals, with the SAME NumPy expressions
    (oracle input of Model/Sbs.seeded_intervals). Returns [(interval_len, step)]."""
    import numpy as np
    step_factor = 1 - 1 / growth_factor
    max_length = min(max_length, n)
    n_lengths = int(np.ceil(np.log(max_length / min_length) / np.log(growth_factor)))
    n_lengths = max(1, n_lengths)
    interval_lens = np.unique(np.round(np.geomspace(min_length, max_length, n_lengths)))
    out = []
    for interval_len in interval_lens:
        step = max(1, np.round(step_factor * interval_len))
        out.append((int(interval_len), int(step)))
    return out
