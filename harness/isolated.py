"""Run detector configurations in a FRESH interpreter (no state shared with the calling process) and print their canonical outputs as JSON.
  python -m harness.isolated   < {"X": [[...]], "configs": [["CircularBinarySegmentation", {"min_segment_length": 5}], ...]}"""
import json
import sys

import numpy as np


def build(name, kw):
    import skchange.anomaly_detectors as A
    import skchange.change_detectors as C
    cls = getattr(C, name, None) or getattr(A, name)
    return cls(**kw)


def canon(y):
    import pandas as pd
    if "icolumns" in y:
        return [[int(l), int(r), sorted(int(c) for c in cc)] for l, r, cc in zip(y["ilocs"].array.left, y["ilocs"].array.right, y["icolumns"])]
    if len(y) and isinstance(y["ilocs"].iloc[0], pd.Interval):
        return [[int(l), int(r)] for l, r in zip(y["ilocs"].array.left, y["ilocs"].array.right)]
    return [int(v) for v in y["ilocs"]]


def run_one(name, kw, X):
    """detections plus the published score table / score vector (as hex floats) of a fresh detector"""
    import pandas as pd
    d = build(name, kw).fit(X.copy())
    det = canon(d.predict(X.copy()))
    sc = getattr(d, "scores", None)
    if isinstance(sc, pd.DataFrame):
        sc = sc.select_dtypes("number").to_numpy()
    tab = [float(v).hex() for v in np.asarray(sc, dtype=float).reshape(-1)] if sc is not None else []
    return [det, tab]


def main():
    job = json.load(sys.stdin)
    X = np.asarray(job["X"], dtype=float)
    out = []
    for name, kw in job["configs"]:
        out.append(run_one(name, kw, X))
    json.dump(out, sys.stdout)


if __name__ == "__main__":
    main()
