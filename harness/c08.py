"""C08: moving window -- symmetric two-sided scores and peak-of-run detections."""
import numpy as np
import pandas as pd

from harness import scorespec as ss
from harness import table_scorers as ts
from harness.engine import coq_bad_cases, coq_eval, coq_list, nlist, zlist, zlit

INFO = {
    "extra_targets": ["Check/MwCheck.vo", "Check/GenericCheck.vo", "Check/FloatRunCheck.vo"],
    "level": "proof",
    "rule": "integer change scores (formula columns / integer CUSUM numerators with level shifts, p = 1..3) through the real "
            "MovingWindow with integer threshold_: bandwidth 1..6, n in [2b, 36], every admissible min_detection_interval, "
            "thresholds 0..40; each case is also run on the time-reversed score function (reversal clause); non-trivial = at least "
            "one changepoint; distinct by input hash",
    "trusted_base": ["Coq 8.16.1 kernel + vm_compute", "harness/c08.py, scorespec.py", "Model/Mw.v hand-written"],
    "assumptions": ["threshold >= 0 for the range statement"],
}
HEADER = ("From Coq Require Import ZArith List Bool.\nFrom SK Require Import Lib.Base Model.Mw Check.Scores Check.MwCheck.\n"
          "Import ListNotations.\nOpen Scope Z_scope.")


def run_impl(c, fn):
    from skchange.change_detectors import MovingWindow
    p = len(c["score"])
    X = pd.DataFrame(np.zeros((c["n"], p)))
    d = MovingWindow(change_score=(ts.FnChangeScoreSub(None, fn, p) if (c["n"] + c["b"]) % 3 == 1 else ts.FnChangeScore(fn, p, int_dtype=(c["n"] + c["b"]) % 3 == 0)), bandwidth=c["b"], threshold_scale=1.0,
                     min_detection_interval=c["mdi"]).fit(pd.DataFrame(np.zeros((len(X) + (len(X) * 7 + 3) % 5, X.shape[1]))))
    d.threshold_ = float(c["thr"])
    scores = d.transform_scores(X).to_numpy()
    cpts = [int(v) for v in d.predict(X)["ilocs"]]
    if not np.all(scores == np.round(scores)):
        raise RuntimeError("non-integer scores")
    return [int(v) for v in scores], cpts


def gen_case(rng, i):
    b = rng.choice([1, 1, 2, 2, 3, 4, 5, 6])
    n = rng.randint(2 * b, 36 if i % 3 == 0 else 16)
    mdis = list(range(1, int(max(1, b / 2 - 1)) + 1))
    p = rng.choice([1, 1, 2, 3])
    return {"n": n, "b": b, "mdi": rng.choice(mdis), "thr": rng.choice([0, 0, 1, 2, 3, 5, 8, 15, 40]),
            "score": ss.random_cs(rng, n, p)}


def corpus_cases():
    yield {"n": 2, "b": 1, "mdi": 1, "thr": 0, "score": [ss.Cs("cusum", xs=[0, 5])]}          # D1: b = 1 raised
    yield {"n": 8, "b": 2, "mdi": 1, "thr": 3, "score": [ss.Cs("cusum", xs=[0, 0, 0, 0, 6, 6, 6, 6])]}  # D1: left window one short


def jcase(c):
    d = dict(c)
    d["score"] = [x.json() for x in c["score"]]
    return d


def run(ctx):
    N = ctx.n(500, 6000)
    cases = list(corpus_cases()) + [gen_case(ctx.rng, i) for i in range(N)]
    terms, metas, revs = [], [], []
    for c in cases:
        cols, n = c["score"], c["n"]
        try:
            scores, cpts = run_impl(c, lambda j, s, k, e: cols[j](s, k, e))
            rscores, rcpts = run_impl(c, lambda j, s, k, e: cols[j](n - e, n - k, n - s))
        except Exception as ex:
            ctx.violation(f"MovingWindow raised {type(ex).__name__}: {str(ex)[:150]} on a valid configuration "
                          f"(n={c['n']}, bandwidth={c['b']})", jcase(c),
                          {"what": "exception", "class": type(ex).__name__, "b_eq_1": c["b"] == 1})
            continue
        terms.append("{| mc_n := %d%%nat; mc_b := %d%%nat; mc_mdi := %d%%nat; mc_thr := %s; mc_score := %s; mc_scores := %s; mc_cpts := %s |}"
                     % (n, c["b"], c["mdi"], zlit(c["thr"]), coq_list([x.coq() for x in cols]), zlist(scores), nlist(cpts)))
        revs.append(f"({n}%nat, {zlist(scores)}, {zlist(rscores)})")
        metas.append((c, scores, cpts, rscores))
        ctx.case(jcase(c), nontrivial=len(cpts) > 0,
                 sample={"n": n, "bandwidth": c["b"], "min_detection_interval": c["mdi"], "threshold": c["thr"],
                         "columns": [x.kind for x in cols], "impl_scores": scores, "impl_changepoints": cpts})
        ctx.count("b", c["b"])
        ctx.count("n_cpts", min(len(cpts), 5))
        ctx.count("mdi", c["mdi"])
    bad = coq_bad_cases(ctx.cid, HEADER, "mw_case", "mw_case_ok", terms, shard=80)
    if bad:
        exprs = [f"let c := {terms[i]} in (mw_scores_ok c, mw_wf_ok c, mw_model_eq c, "
                 f"mw (cs_agg (mc_score c)) (mc_b c) (mc_n c) (mc_thr c) (mc_mdi c))" for i in bad[:40]]
        outs = coq_eval(ctx.cid, HEADER, exprs, tag="diag")
        for i, o in zip(bad[:40], outs):
            c, scores, cpts, _ = metas[i]
            flags = o.replace("\n", " ")
            sc_ok, wf_ok = [x.strip() for x in flags.lstrip("= (").split(",")[:2]]
            inp = jcase(c)
            inp.update({"impl_scores": scores, "impl_changepoints": cpts, "coq": flags[:1200]})
            if sc_ok == "false":
                ctx.violation(f"MovingWindow scores are not the two-sided change score of X[t-b:t] vs X[t:t+b]: n={c['n']} b={c['b']} "
                              f"impl scores={scores} model: {flags[:200]}", inp, {"what": "scores"})
            elif wf_ok == "false":
                ctx.violation(f"MovingWindow changepoints ill-formed: n={c['n']} b={c['b']} thr={c['thr']} cpts={cpts}", inp,
                              {"what": "ill-formed"})
            else:
                ctx.violation(f"MovingWindow changepoints are not the first maxima of the maximal above-threshold runs: n={c['n']} "
                              f"b={c['b']} thr={c['thr']} mdi={c['mdi']} scores={scores} impl cpts={cpts}; model: {flags[:200]}", inp,
                              {"what": "run-peaks"})
    bad = coq_bad_cases(ctx.cid, HEADER, "nat * list Z * list Z", "mw_reversal_ok", revs, shard=1000, tag="rev")
    for i in bad[:20]:
        c, scores, cpts, rscores = metas[i]
        inp = jcase(c)
        inp.update({"scores": scores, "scores_of_reversed_series": rscores})
        ctx.violation(f"time reversal does not map the score at t to n-t: n={c['n']} b={c['b']} scores={scores} reversed={rscores}",
                      inp, {"what": "reversal"})
    # ---- object reuse: built-in scores, the same detector over several series ----
    from harness.reuse import reuse_stream
    from skchange.costs import GaussianVarCost
    from skchange.change_detectors import MovingWindow as MW
    reuse_stream(ctx, "MovingWindow(CUSUM)", lambda: MW(bandwidth=3), ctx.n(6, 40), tuned_make=lambda: MW(bandwidth=4, threshold_scale=None, level=0.1))
    reuse_stream(ctx, "MovingWindow(GaussianVarCost)", lambda: MW(change_score=GaussianVarCost(), bandwidth=5), ctx.n(3, 20))
    # ---- built-in score on multi-column data: transform_scores against the DEFINITION (two windows of b samples) ----
    import numpy as _np
    import pandas as _pd
    from harness import direct as _direct
    for it in range(ctx.n(12, 100)):
        p = ctx.rng.choice([1, 2, 3])
        b = ctx.rng.choice([1, 2, 3, 5])
        n = ctx.rng.randint(2 * b, 2 * b + 14)
        Xn = _np.asarray([[ctx.rng.randint(-4, 4) + 20.0 * j for j in range(p)] for _ in range(n)], dtype=float)
        Xn[ctx.rng.randint(0, n - 1):] += ctx.rng.choice([6.0, -8.0])
        Xin = _pd.DataFrame(Xn.astype(_np.int64)) if it % 2 else _pd.DataFrame(Xn)       # the same integer values stored as int64 / float64
        sc = _np.asarray(MW(bandwidth=b, threshold_scale=0.0).fit(Xin).transform_scores(Xin).to_numpy(), dtype=float).ravel()
        want = _np.zeros(n)
        for t in range(b, n - b + 1):
            if t < n:
                want[t] = float(_np.sum(_direct.cusum_direct(Xn, t - b, t, t + b)))
        ctx.case({"real-mw": it, "X": Xn.tolist(), "b": b}, nontrivial=p > 1)
        if not _np.all(_np.abs(sc - want) <= 1e-7 * (_np.abs(sc) + _np.abs(want) + 1)):
            ctx.violation(f"MovingWindow(CUSUM), p={p}, bandwidth={b}: transform_scores {sc.tolist()} differs from the two-sided CUSUM computed from the rows {want.tolist()}",
                          {"n": n, "p": p, "bandwidth": b, "X": Xn.tolist(), "scores": sc.tolist(), "definition": want.tolist()},
                          {"what": "scores-vs-definition", "multi_column": p > 1})
    from harness import helpers as _helpers
    _helpers.mw_helpers(ctx)
    # ---- the same search loop on BINARY64 score tables of the real built-in scorers (Model/Generic.v at Model/GenericF.v), bit for bit ----
    from harness import floatstreams
    floatstreams.mw_float_stream(ctx, ctx.n(45, 300))
    floatstreams.gcov_many_columns_stream(ctx, "MovingWindow(GaussianCovCost)", lambda: __import__("skchange.change_detectors", fromlist=["MovingWindow"]).MovingWindow(change_score=__import__("skchange.costs", fromlist=["GaussianCovCost"]).GaussianCovCost(), bandwidth=50), ctx.n(1, 4))
    # the DEFAULT configuration on series of realistic length and width, decided by the property-level twin of the model
    floatstreams.mw_default_scale_stream(ctx, ctx.n(3, 20))

    from harness.variants import variants_stream
    from skchange.change_detectors import MovingWindow as _MW
    from skchange.costs import GaussianVarCost as _GV
    variants_stream(ctx, "MovingWindow(CUSUM)", lambda: _MW(bandwidth=5), ctx.n(3, 20), flat_make=lambda: _MW(bandwidth=5, threshold_scale=1e6))
    variants_stream(ctx, "MovingWindow(GaussianVarCost)", lambda: _MW(change_score=_GV(), bandwidth=6, threshold_scale=1.0), ctx.n(2, 12), nested=("change_score__param", (0.0, 1.0)))
