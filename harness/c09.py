"""C09: circular binary segmentation reports greedy disjoint above-threshold anomalies."""
import numpy as np
import pandas as pd

from harness import scorespec as ss
from harness import table_scorers as ts
from harness.engine import coq_bad_cases, coq_eval, coq_list, pairs_nat, zlit

INFO = {
    "extra_targets": ["Check/CbsCheck.vo", "Check/GenericCheck.vo", "Check/FloatRunCheck.vo", "Check/FloatRunCheck2.vo"],
    "level": "proof",
    "rule": "integer local anomaly scores (formula columns / integer inside-vs-outside mean contrasts of data with epidemic bumps, "
            "p = 1..3) through the real CircularBinarySegmentation with integer threshold_: m in 1..3, n in [2m, 22], "
            "max_interval_length in [2m, n+4], growth_factor in {1.1,...,2}; each case re-run at a higher threshold; non-trivial = at "
            "least one anomaly; distinct by input hash",
    "trusted_base": ["Coq 8.16.1 kernel + vm_compute", "harness/c09.py, scorespec.py (incl. the float front-end oracle seeded_lens)",
                     "Model/Cbs.v hand-written; candidate intervals reuse Model/Sbs.seeded_intervals with the float front end as oracle"],
    "assumptions": ["threshold >= 0"],
}
HEADER = ("From Coq Require Import ZArith List Bool.\nFrom SK Require Import Lib.Base Model.Sbs Model.Cbs Check.Scores Check.CbsCheck.\n"
          "Import ListNotations.\nOpen Scope Z_scope.")
GF = [1.1, 1.2, 1.25, 4 / 3, 1.5, 1.9, 2.0]


def run_impl(c, thr):
    from skchange.anomaly_detectors import CircularBinarySegmentation
    cols = c["score"]
    X = pd.DataFrame(np.zeros((c["n"], len(cols))))
    d = CircularBinarySegmentation(anomaly_score=(ts.FnLocalScoreSub(None, lambda j, s, a, b, e: cols[j](s, a, b, e), len(cols)) if (c["n"] + c["m"]) % 3 == 1 else ts.FnLocalScore(lambda j, s, a, b, e: cols[j](s, a, b, e), len(cols), int_dtype=(c["n"] + c["m"]) % 3 == 0)),
                                   threshold_scale=1.0, min_segment_length=c["m"], max_interval_length=c["maxlen"],
                                   growth_factor=c["g"]).fit(pd.DataFrame(np.zeros((len(X) + (len(X) * 7 + 3) % 5, X.shape[1]))))
    d.threshold_ = float(thr)
    y = d.predict(X)
    iv = y["ilocs"].array
    anoms = [(int(a), int(b)) for a, b in zip(iv.left, iv.right)]
    sc = d.scores
    rows = [((int(a), int(b)), (int(x), int(y_)), int(v)) for a, b, x, y_, v in
            zip(sc["interval_start"], sc["interval_end"], sc["argmax_anomaly_start"], sc["argmax_anomaly_end"], sc["score"])]
    if any(float(v) != int(v) for v in sc["score"]):
        raise RuntimeError("non-integer scores")
    return anoms, rows


def gen_case(rng, i):
    m = rng.choice([1, 1, 2, 2, 3])
    n = rng.randint(2 * m, 22 if i % 3 == 0 else 13)
    maxlen = rng.choice([2 * m, 2 * m + 1, 2 * m + 2, n, n + 4, rng.randint(2 * m, n + 4)])
    p = rng.choice([1, 1, 2, 3])
    return {"n": n, "m": m, "maxlen": maxlen, "g": rng.choice(GF), "score": ss.random_ls(rng, n, p),
            "thr": rng.choice([0, 0, 1, 2, 3, 5, 8, 15, 40]), "dthr": rng.choice([1, 2, 5, 20])}


def corpus_cases():
    # D3: m = 1 -> candidate intervals of length 2 admit no inner interval (np.argmax of an empty array)
    yield {"n": 6, "m": 1, "maxlen": 4, "g": 2.0, "score": [ss.Ls("mean", xs=[0, 0, 8, 8, 0, 0])], "thr": 3, "dthr": 2}
    yield {"n": 2, "m": 1, "maxlen": 2, "g": 1.5, "score": [ss.Ls("mean", xs=[0, 3])], "thr": 0, "dthr": 1}
    # D4: argmax columns of the scores table
    yield {"n": 10, "m": 2, "maxlen": 10, "g": 1.5, "score": [ss.Ls("mean", xs=[0, 0, 0, 7, 7, 7, 0, 0, 0, 0])], "thr": 5, "dthr": 3}


def jcase(c):
    d = dict(c)
    d["score"] = [x.json() for x in c["score"]]
    return d


def run(ctx):
    N = ctx.n(420, 5000)
    cases = list(corpus_cases()) + [gen_case(ctx.rng, i) for i in range(N)]
    terms, metas, mono = [], [], []
    for c in cases:
        try:
            anoms, rows = run_impl(c, c["thr"])
            anoms2, _ = run_impl(c, c["thr"] + c["dthr"])
        except Exception as ex:
            ctx.violation(f"CircularBinarySegmentation raised {type(ex).__name__}: {str(ex)[:150]} on a valid configuration "
                          f"(n={c['n']}, m={c['m']}, max_interval_length={c['maxlen']}, g={c['g']})", jcase(c),
                          {"what": "exception", "class": type(ex).__name__, "m_eq_1": c["m"] == 1})
            continue
        lens = ss.seeded_lens(c["n"], 2 * c["m"], c["maxlen"], c["g"])
        terms.append("{| bc_n := %d%%nat; bc_m := %d%%nat; bc_maxlen := %d%%nat; bc_lens := %s; bc_thr := %s; bc_score := %s; "
                     "bc_anoms := %s; bc_rows := %s |}"
                     % (c["n"], c["m"], c["maxlen"], pairs_nat(lens), zlit(c["thr"]), coq_list([x.coq() for x in c["score"]]),
                        pairs_nat(anoms),
                        coq_list(["((%d%%nat, %d%%nat), (%d%%nat, %d%%nat), %s)" % (iv[0], iv[1], inn[0], inn[1], zlit(v))
                                  for iv, inn, v in rows])))
        mono.append(f"({pairs_nat(anoms2)}, {pairs_nat(anoms)})")
        metas.append((c, anoms, rows, anoms2))
        ctx.case(jcase(c), nontrivial=len(anoms) > 0,
                 sample={"n": c["n"], "m": c["m"], "max_interval_length": c["maxlen"], "growth_factor": c["g"], "threshold": c["thr"],
                         "columns": [x.kind for x in c["score"]], "n_candidates": len(rows), "impl_anomalies": anoms})
        ctx.count("m", c["m"])
        ctx.count("n_anoms", min(len(anoms), 4))
    bad = coq_bad_cases(ctx.cid, HEADER, "cbs_case", "cbs_case_ok", terms, shard=40)
    if bad:
        exprs = [f"let c := {terms[i]} in (cbs_spec_ok c, cbs_model_eq c, cbs_rows_ok c, anoms_wf (bc_m c) 0 (bc_anoms c) (bc_n c), "
                 f"cbs_supported_ok c, cbs_complete_ok c, cbs (ls_agg (bc_score c)) (bc_m c) (bc_thr c) (seeded_intervals (bc_n c) (2 * bc_m c) (bc_lens c)))"
                 for i in bad[:30]]
        outs = coq_eval(ctx.cid, HEADER, exprs, tag="diag")
        for i, o in zip(bad[:30], outs):
            c, anoms, rows, _ = metas[i]
            flags = o.replace("\n", " ")
            spec_ok, model_eq, rows_ok = [x.strip() for x in flags.lstrip("= (").split(",")[:3]]
            inp = jcase(c)
            inp.update({"impl_anomalies": anoms, "impl_scores_table": rows, "coq": flags[:1500]})
            if spec_ok == "false":
                ctx.violation(f"CircularBinarySegmentation output violates C09: n={c['n']} m={c['m']} maxlen={c['maxlen']} thr={c['thr']} "
                              f"anomalies={anoms} (Coq flags: {flags[:100]})", inp, {"what": "spec", "rows_ok": rows_ok})
            elif rows_ok == "true":
                ctx.violation(f"CircularBinarySegmentation anomalies {anoms} are not the greedy above-threshold picks (take the inner interval of the highest-scoring "
                              f"remaining candidate, discard every candidate overlapping it): n={c['n']} m={c['m']} maxlen={c['maxlen']} thr={c['thr']}", inp,
                              {"what": "greedy-selection"})
            else:
                ctx.mismatch(f"CBS model <> implementation: n={c['n']} m={c['m']} maxlen={c['maxlen']} g={c['g']} anomalies={anoms}",
                             inp, {"what": "model-mismatch"})
    bad = coq_bad_cases(ctx.cid, HEADER, "list (nat * nat) * list (nat * nat)", "incl_pairs_ok", mono, shard=1000, tag="mono")
    for i in bad[:20]:
        c, anoms, rows, anoms2 = metas[i]
        inp = jcase(c)
        inp.update({"anomalies_at_thr": anoms, "anomalies_at_higher_thr": anoms2})
        ctx.violation(f"raising the threshold from {c['thr']} to {c['thr'] + c['dthr']} added anomalies: {anoms} -> {anoms2}", inp,
                      {"what": "threshold-monotonicity"})
    # ---- object reuse: built-in scores, the same detector over several series ----
    from harness.reuse import reuse_stream
    from skchange.anomaly_detectors import CircularBinarySegmentation as CBSD
    from skchange.costs import GaussianVarCost
    reuse_stream(ctx, "CircularBinarySegmentation(L2Cost)", lambda: CBSD(min_segment_length=2, max_interval_length=20), ctx.n(5, 30), n_range=(20, 30),
                 tuned_make=lambda: CBSD(min_segment_length=2, max_interval_length=16, threshold_scale=None, level=0.1))
    reuse_stream(ctx, "CircularBinarySegmentation(GaussianVarCost)", lambda: CBSD(anomaly_score=GaussianVarCost(), min_segment_length=3, max_interval_length=18),
                 ctx.n(2, 12), n_range=(20, 28), p_choices=(1, 2))
    # ---- built-in cost on multi-column data: the scores table against a brute-force evaluation of the DEFINITION ----
    import numpy as _np
    import pandas as _pd
    from harness import direct as _direct
    from skchange.costs import L2Cost as _L2
    for it in range(ctx.n(12, 100)):
        p = ctx.rng.choice([1, 2, 3])
        n = ctx.rng.randint(10, 18)
        m = ctx.rng.choice([1, 2, 3])
        Xn = _np.asarray([[ctx.rng.randint(-4, 4) + 30.0 * j for j in range(p)] for _ in range(n)], dtype=float)
        a0 = ctx.rng.randint(1, n - 4)
        Xn[a0:a0 + 3] += ctx.rng.choice([7.0, -9.0])
        d = CBSD(anomaly_score=_L2(), min_segment_length=m, max_interval_length=ctx.rng.choice([2 * m + 2, 12]), threshold_scale=0.3).fit(_pd.DataFrame(Xn))
        d.predict(_pd.DataFrame(Xn))
        tab = d.scores
        inp = {"n": n, "p": p, "m": m, "X": Xn.tolist()}
        ctx.case({"real-cbs": it, "X": Xn.tolist(), "m": m}, nontrivial=p > 1)
        for _, row in tab.iterrows():
            s, e = int(row["interval_start"]), int(row["interval_end"])
            best = None
            for a in range(s + 1, e):
                for z in range(a + m, e):
                    if (a - s) + (e - z) >= m:
                        v = float(_np.sum(_direct.local_direct("l2", Xn, s, a, z, e)))
                        if best is None or v > best[0] + 1e-9:
                            best = (v, a, z)
            got = float(row["score"])
            want = 0.0 if best is None else best[0]
            if abs(got - want) > 1e-7 * (abs(got) + abs(want) + float(_np.sum(Xn ** 2)) + 1):
                ctx.violation(f"CircularBinarySegmentation(L2Cost), p={p}: candidate [{s},{e}) has score {got}, the maximum of the local anomaly score (definition from the "
                              f"rows, summed over columns) over the admissible inner intervals is {want}", dict(inp, candidate=[s, e], score=got, definition=want),
                              {"what": "scores-table-vs-definition", "multi_column": p > 1})
                break
    # ---- a user-defined cost (sum of absolute deviations from the median, reads self._X when evaluated) through LocalAnomalyScore ----
    from harness.c06 import absdev as _absdev, make_user_costs as _mk
    _AbsDev = _mk()[3]
    for it in range(ctx.n(8, 60)):
        p = ctx.rng.choice([1, 2])
        n = ctx.rng.randint(9, 15)
        m = ctx.rng.choice([1, 2])
        Xn = _np.asarray([[float(ctx.rng.randint(-3, 3)) for _ in range(p)] for _ in range(n)])
        a0 = ctx.rng.randint(1, n - 4)
        Xn[a0:a0 + 3] += ctx.rng.choice([8.0, -9.0])
        d = CBSD(anomaly_score=_AbsDev(), min_segment_length=m, max_interval_length=ctx.rng.choice([2 * m + 2, 10]), threshold_scale=0.3).fit(_pd.DataFrame(Xn))
        d.predict(_pd.DataFrame(Xn))
        ctx.case({"user-cbs": it, "X": Xn.tolist(), "m": m}, nontrivial=True)
        for _, row in d.scores.iterrows():
            s, e = int(row["interval_start"]), int(row["interval_end"])
            best = None
            for a in range(s + 1, e):
                for z in range(a + m, e):
                    if (a - s) + (e - z) >= m:
                        v = sum(_absdev(Xn[s:e, j]) - _absdev(Xn[a:z, j]) - _absdev(list(Xn[s:a, j]) + list(Xn[z:e, j])) for j in range(p))
                        if best is None or v > best:
                            best = v
            want = 0.0 if best is None else float(best)
            if abs(float(row["score"]) - want) > 1e-9:
                ctx.violation(f"CircularBinarySegmentation(user-defined cost): candidate [{s},{e}) has score {float(row['score'])}, the maximum of the local anomaly score "
                              f"computed from the cost's definition over the admissible inner intervals is {want}",
                              {"n": n, "p": p, "m": m, "X": Xn.tolist(), "candidate": [s, e]}, {"what": "scores-table-vs-definition", "user_cost": True})
                break
    # ---- exhaustive grid of the inner-candidate enumeration: make_anomaly_intervals(s, e, m) against Model/Cbs.anomaly_intervals (same order) ----
    from skchange.anomaly_detectors.circular_binseg import make_anomaly_intervals
    acases, ameta = [], []
    for s_ in range(0, 3):
        for ln_ in range(0, 13 if ctx.quick() else 22):
            for m_ in range(1, 6):
                a_, z_ = make_anomaly_intervals(s_, s_ + ln_, m_)
                impl = [(int(x), int(y)) for x, y in zip(a_, z_)]
                acases.append(f"({s_}%nat, {s_ + ln_}%nat, {m_}%nat, {pairs_nat(impl)})")
                ameta.append({"interval": [s_, s_ + ln_], "m": m_, "impl": impl})
                ctx.case({"agrid": [s_, ln_, m_]}, nontrivial=len(impl) > 0)
    AH = HEADER + ("\nDefinition ai_case := (nat * nat * nat * list (nat * nat))%type.\n"
                   "Definition ai_ok (c : ai_case) : bool := let '(s, e, m, impl) := c in\n"
                   "  let ivs := anomaly_intervals s e m in (length ivs =? length impl)%nat && forallb (fun xy => pair_eqb (fst xy) (snd xy)) (combine ivs impl).")
    for i in coq_bad_cases(ctx.cid, AH, "ai_case", "ai_ok", acases, shard=400, tag="agrid")[:10]:
        g = ameta[i]
        ctx.violation(f"make_anomaly_intervals{tuple(g['interval']) + (g['m'],)} = {g['impl']} is not the list of inner intervals strictly inside the candidate with length >= m "
                      f"and >= m surrounding samples", g, {"what": "candidate-enumeration"})
    ctx.notes["candidate_grid"] = f"exhaustive: start 0..2, length 0..{12 if ctx.quick() else 21}, min_segment_length 1..5: {len(acases)} candidates"
    from harness import helpers as _helpers
    _helpers.cbs_helpers(ctx)
    # ---- the same search loop on BINARY64 score tables of the real built-in scorers (Model/Generic.v at Model/GenericF.v), bit for bit ----
    from harness import floatstreams
    floatstreams.cbs_float_stream(ctx, ctx.n(24, 120))
    floatstreams.gcov_many_columns_stream(ctx, "CircularBinarySegmentation(GaussianCovCost)", lambda: __import__("skchange.anomaly_detectors", fromlist=["CircularBinarySegmentation"]).CircularBinarySegmentation(anomaly_score=__import__("skchange.costs", fromlist=["GaussianCovCost"]).GaussianCovCost(), min_segment_length=45, max_interval_length=150), ctx.n(1, 2))
    # the DEFAULT configuration on series of realistic length and width, decided by the property-level twin of the model
    floatstreams.cbs_default_scale_stream(ctx, ctx.n(2, 10))

    from harness.variants import variants_stream
    from skchange.anomaly_detectors import CircularBinarySegmentation as _CBS
    from skchange.costs import GaussianVarCost as _GV
    variants_stream(ctx, "CircularBinarySegmentation(L2Cost)", lambda: _CBS(min_segment_length=2, max_interval_length=40), ctx.n(3, 14), n_range=(30, 46),
                    flat_make=lambda: _CBS(min_segment_length=2, max_interval_length=40, threshold_scale=1e6))
    variants_stream(ctx, "CircularBinarySegmentation(GaussianVarCost)", lambda: _CBS(anomaly_score=_GV(), min_segment_length=3, max_interval_length=30), ctx.n(1, 8), n_range=(30, 40), nested=("anomaly_score__param", (0.0, 1.0)))
