"""C04: detections are well-formed and respect the configured length limits."""
import numpy as np
import pandas as pd

from harness import table_scorers as ts
from harness.c03 import pen_callable
from harness.engine import coq_bad_cases, coq_list, nlist, pairs_nat

INFO = {
    "extra_targets": ["Check/AffectedCheck.vo"],
    "level": "proof",
    "rule": "all seven real detectors with built-in scorers on hostile integer / float data (constant, ties, isolated spikes, level shifts at the first and "
            "last admissible position, alternating blocks, n at the documented minimum, p = 1..4) over boundary and interior hyper-parameters (thresholds / "
            "penalties scaled down so that many events are reported), plus PELT / CAPA / MVCAPA on ARBITRARY integer score tables (no split hypothesis); "
            "every predict output is checked by the verified Coq checkers of Proofs/WellFormed.v (cpts_wf_b, intervals_wf_b, proved sound) and by the "
            "frame-structure clauses (RangeIndex 0..K-1, int64 ilocs, left-closed intervals, labels 1..K, MVCAPA column lists non-empty / distinct / < p); "
            "non-trivial = at least one reported event",
    "trusted_base": ["Coq 8.16.1 kernel + vm_compute", "harness/c04.py (data and configuration generators, frame-structure clauses)",
                     "checkers cpts_wf_b / intervals_wf_b proved sound (C04_checker_*_sound)"],
    "assumptions": ["finite data of admissible length; thresholds >= 0 for the moving-window and binary-segmentation range statements"],
}
HEADER = ("From Coq Require Import ZArith List Arith Bool.\nFrom SK Require Import Lib.Base Properties.C02 Proofs.WellFormed Check.AffectedCheck.\n"
          "Import ListNotations.\nClose Scope Z_scope.\nOpen Scope nat_scope.\n"
          "Inductive wf_case :=\n"
          "| WCpts (m n : nat) (cpts : list nat)                       (* PELT, seeded binary segmentation *)\n"
          "| WMw (b n : nat) (cpts : list nat)                          (* moving window *)\n"
          "| WAnoms (m M n : nat) (ivs : list (nat * nat))              (* CAPA, MVCAPA *)\n"
          "| WCbs (m n : nat) (ivs : list (nat * nat))                  (* circular binary segmentation *)\n"
          "| WCols (p : nat) (cols : list nat).                         (* MVCAPA affected columns *)\n"
          "Fixpoint incr (l : list nat) : bool := match l with x :: ((y :: _) as t) => (x <? y) && incr t | _ => true end.\n"
          "Fixpoint disj (l : list (nat * nat)) : bool := match l with x :: ((y :: _) as t) => (fst x <? fst y) && (snd x <=? fst y) && disj t | _ => true end.\n"
          "Definition wf_ok (c : wf_case) : bool :=\n"
          "  match c with\n"
          "  | WCpts m n cpts => cpts_wf_b m n cpts\n"
          "  | WMw b n cpts => incr cpts && forallb (fun c => (b <=? c) && (c + b <=? n) && (1 <=? c) && (c <=? n - 1)) cpts\n"
          "  | WAnoms m M n ivs => intervals_wf_b m M n ivs\n"
          "  | WCbs m n ivs => disj ivs && forallb (fun az => (fst az <? snd az) && (1 <=? fst az) && (snd az <=? n - 1) && (fst az + m <=? snd az)) ivs\n"
          "  | WCols p cols => negb (Nat.eqb (length cols) 0) && nodupb cols && forallb (fun j => j <? p) cols\n"
          "  end.")


def hostile(rng, n, p, kind):
    X = np.zeros((n, p))
    if kind == "constant":
        X[:] = 3.0
    elif kind == "spikes":
        for _ in range(max(1, n // 6)):
            X[rng.randrange(n), rng.randrange(p)] = rng.choice([25.0, -40.0])
    elif kind == "ends":
        a = rng.choice([1, 2, 3])
        X[:a] += 9.0
        X[n - rng.choice([1, 2, 3]):] -= 7.0
    elif kind == "blocks":
        L = rng.choice([1, 2, 3, 5])
        for t in range(n):
            X[t] = 6.0 * ((t // L) % 2)
    elif kind == "ties":
        X = np.asarray([[float(rng.choice([0, 0, 1, 5])) for _ in range(p)] for _ in range(n)])
    elif kind == "noise":
        X = np.asarray([[rng.gauss(0, 1) for _ in range(p)] for _ in range(n)])
        c = rng.randrange(n)
        X[c:] += rng.choice([4.0, -6.0])
    return X


def frame_ok_cpts(y):
    return isinstance(y.index, pd.RangeIndex) and y.index.start == 0 and y.index.step == 1 and list(y.columns) == ["ilocs"] and y["ilocs"].dtype == np.int64


def frame_ok_anoms(y, subset=False):
    K = len(y)
    ok = isinstance(y.index, pd.RangeIndex) and y.index.start == 0 and list(y["labels"]) == list(range(1, K + 1))
    ok = ok and (K == 0 or (y["ilocs"].array.closed == "left" and str(y["ilocs"].array.left.dtype) == "int64"))
    ok = ok and list(y.columns) == (["ilocs", "labels", "icolumns"] if subset else ["ilocs", "labels"])
    return ok


def run(ctx):
    from skchange.anomaly_detectors import CAPA, MVCAPA, CircularBinarySegmentation, StatThresholdAnomaliser
    from skchange.anomaly_scores import L2Saving, Saving
    from skchange.change_detectors import PELT, MovingWindow, SeededBinarySegmentation
    from skchange.change_scores import CUSUM
    from skchange.costs import GaussianVarCost, L2Cost
    rng = ctx.rng
    cases, meta = [], []

    def add(term, inp, events):
        cases.append("(" + term + ")")
        meta.append(inp)
        ctx.case({k: inp[k] for k in inp if k not in ("X",)} | {"h": hash(str(inp.get("X")))}, nontrivial=len(events) > 0,
                 sample={k: inp[k] for k in inp if k != "X"})
        ctx.count("detector", inp["detector"])
        ctx.count("n_events", min(len(events), 6))
        ctx.count("data", inp.get("data", "table"))

    def attempt(name, mk, X, inp):
        try:
            d = mk().fit(X)
            return d, d.predict(X)
        except Exception as ex:
            ctx.violation(f"{name} raised {type(ex).__name__}: {str(ex)[:120]} on a valid input ({ {k: v for k, v in inp.items() if k != 'X'} })",
                          inp, {"what": "exception", "detector": name, "cls": type(ex).__name__})
            return None, None

    N = ctx.n(160, 1600)
    for it in range(N):
        p = rng.choice([1, 1, 2, 3, 4])
        kind = rng.choice(["constant", "spikes", "ends", "blocks", "ties", "noise"])
        # ---- PELT ----
        m = rng.choice([1, 1, 2, 3, 5])
        n = rng.choice([2 * m, 2 * m + 1, rng.randint(2 * m, 2 * m + 30)])
        Xn = hostile(rng, n, p, kind)
        X = pd.DataFrame(Xn)
        cost_name, mkc = rng.choice([("L2Cost", L2Cost), ("GaussianVarCost", GaussianVarCost)])
        if cost_name == "GaussianVarCost" and m < 2:
            cost_name, mkc = "L2Cost", L2Cost
        sc = rng.choice([0.0, 0.01, 0.2, 1.0])
        inp = {"detector": "PELT", "cost": cost_name, "min_segment_length": m, "penalty_scale": sc, "n": n, "p": p, "data": kind, "X": Xn.tolist()}
        d, y = attempt("PELT", lambda: PELT(cost=mkc(), penalty_scale=sc, min_segment_length=m), X, inp)
        if y is not None:
            cp = [int(v) for v in y["ilocs"]]
            inp["changepoints"] = cp
            if not frame_ok_cpts(y):
                ctx.violation("PELT.predict: not a RangeIndex frame with a single int64 ilocs column", inp, {"what": "frame", "detector": "PELT"})
            add(f"WCpts {m} {n} {nlist(cp)}", inp, cp)
        # ---- seeded binary segmentation ----
        m = rng.choice([1, 1, 2, 3, 5])
        n = rng.choice([2 * m, 2 * m + 1, rng.randint(2 * m, 2 * m + 30)])
        Xn = hostile(rng, n, p, kind)
        X = pd.DataFrame(Xn)
        M = rng.choice([2 * m, 2 * m + 1, 3 * m + 2, 100])
        gf = rng.choice([1.1, 1.5, 2.0])
        sc = rng.choice([0.0, 0.05, 0.5, 1.0])
        inp = {"detector": "SeededBinarySegmentation", "min_segment_length": m, "max_interval_length": M, "growth_factor": gf, "threshold_scale": sc,
               "n": n, "p": p, "data": kind, "X": Xn.tolist()}
        d, y = attempt("SeededBinarySegmentation", lambda: SeededBinarySegmentation(threshold_scale=sc, min_segment_length=m, max_interval_length=M, growth_factor=gf), X, inp)
        if y is not None:
            cp = [int(v) for v in y["ilocs"]]
            inp["changepoints"] = cp
            if not frame_ok_cpts(y):
                ctx.violation("SeededBinarySegmentation.predict: malformed frame", inp, {"what": "frame", "detector": "SeededBinarySegmentation"})
            add(f"WCpts {m} {n} {nlist(cp)}", inp, cp)
        # ---- moving window ----
        b = rng.choice([1, 1, 2, 3, 6])
        n = rng.choice([2 * b, 2 * b + 1, rng.randint(2 * b, 2 * b + 30)])
        Xn = hostile(rng, n, p, kind)
        X = pd.DataFrame(Xn)
        mdi = rng.choice([v for v in range(1, max(1, b // 2 - 1) + 1)])
        sc = rng.choice([0.0, 0.05, 0.5, 1.0])
        if n / b <= np.e + 0.01:
            sc = 0.0            # the default threshold formula needs log(log(n / b)) (see DESIGN appendix B); threshold 0 is always defined... by scale 0
        inp = {"detector": "MovingWindow", "bandwidth": b, "min_detection_interval": mdi, "threshold_scale": sc, "n": n, "p": p, "data": kind, "X": Xn.tolist()}
        try:
            dmw = MovingWindow(bandwidth=b, threshold_scale=1.0, min_detection_interval=mdi).fit(X)
            dmw.threshold_ = float(sc) * (abs(float(dmw.threshold_)) if np.isfinite(dmw.threshold_) else 1.0)
            y = dmw.predict(X)
        except Exception as ex:
            ctx.violation(f"MovingWindow raised {type(ex).__name__}: {str(ex)[:120]}", inp, {"what": "exception", "detector": "MovingWindow", "cls": type(ex).__name__})
            y = None
        if y is not None:
            cp = [int(v) for v in y["ilocs"]]
            inp["changepoints"] = cp
            if not frame_ok_cpts(y):
                ctx.violation("MovingWindow.predict: malformed frame", inp, {"what": "frame", "detector": "MovingWindow"})
            add(f"WMw {b} {n} {nlist(cp)}", inp, cp)
        # ---- CAPA / MVCAPA ----
        m = rng.choice([2, 2, 3, 4])
        M = rng.choice([m, m + 1, m + 4, 1000])
        n = rng.choice([m, m + 1, rng.randint(m, m + 30)])
        Xn = hostile(rng, n, p, kind)
        X = pd.DataFrame(Xn)
        sc = rng.choice([0.0, 0.05, 0.3, 1.0])
        ign = rng.random() < 0.5
        for name, mk in [("CAPA", lambda: CAPA(collective_penalty_scale=sc, point_penalty_scale=sc, min_segment_length=m, max_segment_length=M,
                                               ignore_point_anomalies=ign)),
                         ("MVCAPA", lambda: MVCAPA(collective_penalty_scale=sc, point_penalty_scale=sc, min_segment_length=m, max_segment_length=M,
                                                   collective_penalty=rng.choice(["combined", "dense", "sparse"]), ignore_point_anomalies=ign))]:
            inp = {"detector": name, "min_segment_length": m, "max_segment_length": M, "penalty_scales": sc, "n": n, "p": p, "data": kind, "X": Xn.tolist()}
            d, y = attempt(name, mk, X, inp)
            if y is None:
                continue
            iv = [(int(l), int(r)) for l, r in zip(y["ilocs"].array.left, y["ilocs"].array.right)]
            inp["anomalies"] = [list(t) for t in iv]
            if not frame_ok_anoms(y, subset=(name == "MVCAPA")):
                ctx.violation(f"{name}.predict: malformed frame", inp, {"what": "frame", "detector": name})
            add(f"WAnoms {m} {M} {n} {pairs_nat(iv)}", inp, iv)
            if name == "MVCAPA":
                for cols in y["icolumns"]:
                    cl = [int(c) for c in cols]
                    add(f"WCols {p} {nlist(cl)}", dict(inp, icolumns=cl), cl)
        # ---- circular binary segmentation ----
        m = rng.choice([1, 1, 2, 3])
        n = rng.choice([2 * m, 2 * m + 1, rng.randint(2 * m, 2 * m + 25)])
        Xn = hostile(rng, n, p, kind)
        X = pd.DataFrame(Xn)
        M = rng.choice([2 * m, 2 * m + 3, 40])
        sc = rng.choice([0.0, 0.02, 0.3, 1.0])
        inp = {"detector": "CircularBinarySegmentation", "min_segment_length": m, "max_interval_length": M, "threshold_scale": sc, "n": n, "p": p, "data": kind,
               "X": Xn.tolist()}
        d, y = attempt("CircularBinarySegmentation", lambda: CircularBinarySegmentation(threshold_scale=sc, min_segment_length=m, max_interval_length=M), X, inp)
        if y is not None:
            iv = [(int(l), int(r)) for l, r in zip(y["ilocs"].array.left, y["ilocs"].array.right)]
            inp["anomalies"] = [list(t) for t in iv]
            if not frame_ok_anoms(y):
                ctx.violation("CircularBinarySegmentation.predict: malformed frame", inp, {"what": "frame", "detector": "CircularBinarySegmentation"})
            add(f"WCbs {m} {n} {pairs_nat(iv)}", inp, iv)
        # ---- StatThresholdAnomaliser (univariate) ----
        if p == 1:
            n = rng.randint(4, 30)
            Xn = hostile(rng, n, 1, kind)
            # the row labels play no role for POSITIONS: default labels, labels shared by neighbouring rows (several records per time stamp), time stamps with a repeated hour
            ixk = ["default", "repeated-labels", "repeated-hour"][n % 3]
            X = pd.DataFrame(Xn, index=None if ixk == "default" else (pd.Index(np.arange(n) // 2) if ixk == "repeated-labels" else
                                                                        pd.DatetimeIndex(sorted(list(pd.date_range("2021-10-31", periods=n - 1, freq="h")) + [pd.Timestamp("2021-10-31 02:00")][: 1 if n > 3 else 0] + ([] if n > 3 else [pd.Timestamp("2021-10-31 00:00")])))))
            inp = {"detector": "StatThresholdAnomaliser", "n": n, "p": 1, "data": kind, "X": Xn.tolist(), "row_labels": ixk}
            d, y = attempt("StatThresholdAnomaliser", lambda: StatThresholdAnomaliser(PELT(min_segment_length=1, penalty_scale=0.2), stat_lower=-0.5, stat_upper=0.5), X, inp)
            if y is not None:
                iv = [(int(l), int(r)) for l, r in zip(y["ilocs"].array.left, y["ilocs"].array.right)]
                inp["anomalies"] = [list(t) for t in iv]
                if not frame_ok_anoms(y):
                    ctx.violation("StatThresholdAnomaliser.predict: malformed frame", inp, {"what": "frame", "detector": "StatThresholdAnomaliser"})
                add(f"WAnoms 1 {n} {n} {pairs_nat(iv)}", inp, iv)
        # ---- arbitrary integer tables: PELT, CAPA, MVCAPA ----
        n = rng.randint(4, 14)
        pt = rng.choice([1, 2, 3])
        m = rng.choice([1, 2])
        if 2 * m <= n:
            tabs = [ts.arbitrary_table(rng, n, -5, 9) for _ in range(pt)]
            Xz = pd.DataFrame(np.zeros((n, pt)))
            dp = PELT(cost=ts.TableCost(tabs), min_segment_length=m).fit(Xz)
            dp.penalty_ = float(rng.choice([0, 1, 4]))
            inp = {"detector": "PELT(table)", "min_segment_length": m, "n": n, "p": pt, "tables": tabs, "penalty": dp.penalty_}
            try:
                cp = [int(v) for v in dp.predict(Xz)["ilocs"]]
                inp["changepoints"] = cp
                add(f"WCpts {m} {n} {nlist(cp)}", inp, cp)
            except Exception as ex:
                ctx.violation(f"PELT on an arbitrary table cost raised {type(ex).__name__}: {str(ex)[:100]}", inp, {"what": "exception", "detector": "PELT(table)"})
        m = rng.choice([2, 3])
        if m <= n:
            M = rng.choice([m, m + 2, n])
            stabs = [ts.arbitrary_table(rng, n, -4, 8) for _ in range(pt)]
            Xz = pd.DataFrame(np.zeros((n, pt)))
            ac, ap, bb = rng.choice([0, 2]), rng.choice([0, 3]), [rng.randint(0, 2) for _ in range(pt)]
            for name in ("CAPA(table)", "MVCAPA(table)"):
                inp = {"detector": name, "min_segment_length": m, "max_segment_length": M, "n": n, "p": pt, "tables": stabs, "alpha_c": ac, "alpha_p": ap, "betas": bb}
                try:
                    ign = rng.random() < 0.5
                    if name.startswith("CAPA"):
                        dd = CAPA(collective_saving=ts.TableSaving(stabs), point_saving=ts.TableSaving(stabs), min_segment_length=m, max_segment_length=M,
                                  ignore_point_anomalies=ign).fit(Xz)
                        dd.collective_penalty_, dd.point_penalty_ = float(ac), float(ap)
                    else:
                        dd = MVCAPA(collective_saving=ts.TableSaving(stabs), point_saving=ts.TableSaving(stabs), min_segment_length=m, max_segment_length=M,
                                    collective_penalty=pen_callable(ac, bb), point_penalty=pen_callable(ap, bb), ignore_point_anomalies=ign).fit(Xz)
                    y = dd.predict(Xz)
                except Exception as ex:
                    ctx.violation(f"{name} raised {type(ex).__name__}: {str(ex)[:100]}", inp, {"what": "exception", "detector": name})
                    continue
                iv = [(int(l), int(r)) for l, r in zip(y["ilocs"].array.left, y["ilocs"].array.right)]
                inp["anomalies"] = [list(t) for t in iv]
                add(f"WAnoms {m} {M} {n} {pairs_nat(iv)}", inp, iv)
                if "icolumns" in y:
                    for cols in y["icolumns"]:
                        cl = [int(c) for c in cols]
                        add(f"WCols {pt} {nlist(cl)}", dict(inp, icolumns=cl), cl)
    # ---- thresholds TUNED on the training data (threshold_scale=None): on constant or noise-level data rounding makes the score quantile
    # ---- zero or slightly negative; the search must still terminate and report admissible detections only
    from harness.timelimit import Hang, time_limit
    from skchange.change_scores import CUSUM
    consts = [3.7, 0.1, 1.0 / 3.0, 7.77, 1e5 + 0.3]
    for it in range(ctx.n(36, 240)):
        p = rng.choice([1, 1, 2])
        c = consts[it % len(consts)]
        lvl = rng.choice([0.5, 0.9, 0.99, 0.01])
        mk_score = [("L2Cost", L2Cost), ("CUSUM", CUSUM), ("GaussianVarCost", GaussianVarCost)][it % 3]
        for det in ("MovingWindow", "SeededBinarySegmentation", "CircularBinarySegmentation"):
            m = rng.choice([1, 2, 3]) if mk_score[0] != "GaussianVarCost" else rng.choice([2, 3])
            n = rng.choice([2 * m, 2 * m + 3, rng.randint(2 * m + 4, 60)])
            Xn = np.full((n, p), c)
            if it % 4 == 3:
                Xn = Xn + np.asarray([[rng.gauss(0, 1e-9) for _ in range(p)] for _ in range(n)])     # noise at rounding level
            X = pd.DataFrame(Xn)
            inp = {"detector": det, "score": mk_score[0], "threshold_scale": None, "level": lvl, "n": n, "p": p, "data": "constant %r%s" % (c, " + 1e-9 noise" if it % 4 == 3 else ""),
                   "X": Xn.tolist()}
            try:
                with time_limit(10):
                    if det == "MovingWindow":
                        inp["bandwidth"] = m
                        d = MovingWindow(change_score=mk_score[1](), bandwidth=m, threshold_scale=None, level=lvl).fit(X)
                    elif det == "SeededBinarySegmentation":
                        inp["min_segment_length"] = m
                        d = SeededBinarySegmentation(change_score=mk_score[1](), threshold_scale=None, level=lvl, min_segment_length=m).fit(X)
                    else:
                        if mk_score[0] == "CUSUM":
                            continue
                        inp["min_segment_length"] = m
                        d = CircularBinarySegmentation(anomaly_score=mk_score[1](), threshold_scale=None, level=lvl, min_segment_length=m).fit(X)
                    inp["threshold_"] = float(d.threshold_)
                    y = d.predict(X)
            except Hang as ex:
                ctx.violation(f"{det}({mk_score[0]}, threshold_scale=None, level={lvl}) on constant data {c!r} (n={n}, p={p}): predict does not return ({ex}); "
                              f"tuned threshold {inp.get('threshold_')}", inp, {"what": "hang", "detector": det})
                continue
            except Exception as ex:
                ctx.violation(f"{det} raised {type(ex).__name__}: {str(ex)[:120]} on a valid input ({ {k: v for k, v in inp.items() if k != 'X'} })",
                              inp, {"what": "exception", "detector": det, "cls": type(ex).__name__})
                continue
            ctx.count("tuned_threshold_sign", "negative" if d.threshold_ < 0 else ("zero" if d.threshold_ == 0 else "positive"))
            if det == "CircularBinarySegmentation":
                iv = [(int(l), int(r)) for l, r in zip(y["ilocs"].array.left, y["ilocs"].array.right)]
                inp["anomalies"] = [list(t) for t in iv]
                if not frame_ok_anoms(y):
                    ctx.violation("CircularBinarySegmentation.predict: malformed frame", inp, {"what": "frame", "detector": det})
                add(f"WCbs {m} {n} {pairs_nat(iv)}", inp, iv)
            else:
                cp = [int(v) for v in y["ilocs"]]
                inp["changepoints"] = cp
                if not frame_ok_cpts(y):
                    ctx.violation(f"{det}.predict: malformed frame", inp, {"what": "frame", "detector": det})
                add((f"WMw {m} {n} {nlist(cp)}" if det == "MovingWindow" else f"WCpts {m} {n} {nlist(cp)}"), inp, cp)
    default_scale_stream(ctx)
    bad = coq_bad_cases(ctx.cid, HEADER, "wf_case", "wf_ok", cases, shard=400)
    for i in bad[:40]:
        m = meta[i]
        ev = m.get("icolumns", m.get("changepoints", m.get("anomalies")))
        ctx.violation(f"{m['detector']}: ill-formed output {ev} for { {k: v for k, v in m.items() if k not in ('X', 'tables', 'changepoints', 'anomalies')} }", m,
                      {"what": "ill-formed", "detector": m["detector"]})


def default_scale_stream(ctx):
    """All seven detectors with DEFAULT hyper-parameters on long, wide series: the structural clauses of the property checked directly (the Coq checkers take the same
    clauses on short outputs; here the outputs can have hundreds of rows)."""
    import random as _random
    from skchange.anomaly_detectors import CAPA, MVCAPA, CircularBinarySegmentation, StatThresholdAnomaliser
    from skchange.change_detectors import PELT, MovingWindow, SeededBinarySegmentation
    rng = ctx.rng
    for it in range(ctx.n(3, 8)):
        n = rng.choice([400, 900, 1600]) if it % 2 == 0 else rng.randint(300, 1200)
        p = rng.choice([1, 3, 10])
        X = np.asarray([[rng.gauss(0, 1) for _ in range(p)] for _ in range(n)])
        for c in sorted(rng.sample(range(30, n - 30), max(2, n // 120))):
            X[c:, : rng.randint(1, p)] += rng.choice([3.0, -4.0, 2.0])
        for _ in range(n // 100):
            X[rng.randrange(n), rng.randrange(p)] += rng.choice([12.0, -14.0])
        if it >= 1:
            # strong changes 2-4 samples from the first and the last row, and isolated bumps of 2-4 samples: nothing admissible fits them
            X[: rng.choice([2, 3, 4])] += 9.0
            X[n - rng.choice([2, 3, 4]):] -= 9.0
            for _ in range(3):
                t_ = rng.randint(40, n - 40)
                X[t_:t_ + rng.choice([2, 3, 4])] += 11.0
        if it == 0:
            # short enough for circular binary segmentation with its default (cubic) candidate enumeration: noise with isolated bumps of 2-4 samples only
            n, p = rng.randint(260, 320), 1
            X = np.asarray([[rng.gauss(0, 1) for _ in range(p)] for _ in range(n)])
            for j_, t_ in enumerate(range(35, n - 30, 52)):          # four or five well separated bumps of 3 and 4 samples, at positions of both parities
                t_ += rng.randint(0, 7)
                X[t_:t_ + (3, 4)[j_ % 2]] += 11.0
        Xd = pd.DataFrame(X)

        def bad(det, msg, extra=None):
            ctx.violation(f"{det} with default hyper-parameters on a {n} x {p} series: {msg}", dict({"detector": det, "n": n, "p": p, "defaults": True}, **(extra or {})),
                          {"what": "default-scale-wellformed", "detector": det})
        runs = [(det_, mk_, kind_, Xd, n) for det_, mk_, kind_ in [("PELT", PELT, "cpt"), ("SeededBinarySegmentation", SeededBinarySegmentation, "cpt"), ("MovingWindow", MovingWindow, "mw"),
                                                                   ("CAPA", CAPA, "capa"), ("MVCAPA", MVCAPA, "capa"), ("CircularBinarySegmentation", CircularBinarySegmentation, "cbs")]]
        if it == 0:
            for _ in range(3):          # further bump series for circular binary segmentation alone (whether a bump exposes a too-short anomaly depends on its alignment)
                n2 = rng.randint(262, 300)
                X2 = np.asarray([[rng.gauss(0, 1)] for _ in range(n2)])
                for j_, t_ in enumerate(range(35, n2 - 30, 52)):
                    t_ += rng.randint(0, 7)
                    X2[t_:t_ + (3, 4)[(j_ + _) % 2]] += 11.0
                runs.append(("CircularBinarySegmentation", CircularBinarySegmentation, "cbs", pd.DataFrame(X2), n2))
        n_main = n
        for det, mk, kind, Xd, n in runs:
            if det == "CircularBinarySegmentation" and n > 500:
                continue          # its candidate enumeration is cubic in max_interval_length: long series are covered by C09's own stream
            try:
                d = mk().fit(Xd)
                y = d.predict(Xd)
            except Exception as ex:
                bad(det, f"raised {type(ex).__name__}: {str(ex)[:120]}")
                continue
            ctx.case({"default_scale_wf": det, "it": it, "n": n, "p": p, "x0": float(X[0, 0])}, nontrivial=len(y) > 0)
            ctx.count("default_scale", det)
            if not isinstance(y.index, pd.RangeIndex) or list(y.index) != list(range(len(y))):
                bad(det, "the result does not carry a 0..K-1 range index")
            if kind in ("cpt", "mw"):
                cp = [int(v) for v in y["ilocs"]]
                lo_, hi_ = (d.bandwidth, n - d.bandwidth) if kind == "mw" else (d.min_segment_length, n - d.min_segment_length)
                gap = 1 if kind == "mw" else d.min_segment_length
                if y["ilocs"].dtype != np.int64 or any(b_ - a_ < gap for a_, b_ in zip(cp, cp[1:])) or any(not (max(1, lo_) <= c_ <= min(n - 1, hi_)) for c_ in cp):
                    bad(det, f"changepoints are not strictly increasing integers in [{lo_}, {hi_}] leaving segments of at least {gap}: {cp[:15]}", {"changepoints": cp})
            else:
                iv = [(int(l), int(r)) for l, r in zip(y["ilocs"].array.left, y["ilocs"].array.right)]
                okc = str(y["ilocs"].array.closed) == "left" and all(0 <= l < r <= n for l, r in iv) and all(b_[0] >= a_[1] for a_, b_ in zip(iv, iv[1:]))
                if kind == "capa":
                    okc = okc and all(r - l == 1 or d.min_segment_length <= r - l <= d.max_segment_length for l, r in iv)
                else:
                    okc = okc and all(r - l >= d.min_segment_length and l >= 1 and r <= n - 1 for l, r in iv)
                if "labels" in y.columns:
                    okc = okc and [int(v) for v in y["labels"]] == list(range(1, len(y) + 1))
                if "icolumns" in y.columns:
                    okc = okc and all(len(cc) > 0 and len(set(int(c) for c in cc)) == len(cc) and all(0 <= int(c) < p for c in cc) for cc in y["icolumns"])
                if not okc:
                    bad(det, f"anomalies are not sorted, disjoint, left-closed intervals of admissible length labelled 1..K: {iv[:10]}", {"anomalies": [list(t) for t in iv][:50]})
