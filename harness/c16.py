"""C16: MVCAPA's affected columns are the optimal sparse subset for each anomaly."""
import math

import numpy as np
import pandas as pd

from harness import table_scorers as ts
from harness.c03 import pen_callable
from harness.engine import coq_bad_cases, coq_list, nlist, zlist, zlit

INFO = {
    "extra_targets": ["Check/AffectedCheck.vo"],
    "level": "proof",
    "rule": "integer table savings with p = 2..6 columns (dense, sparse, single-column and mixed anomaly patterns; wide-range values so that "
            "most rows are tie-free, small-range values for a tie stream) through the real MVCAPA with integer penalty callables for the "
            "dynamic programme and collective_penalty_scale chosen so that the sparse per-component penalty used for subset inference is a "
            "half-integer B (model arithmetic doubled, hence exact and tie-free between cumulative sums); one case per reported anomaly: the "
            "reported icolumns must satisfy the property clauses (decided in Coq) and EQUAL the model when the savings are pairwise distinct; "
            "per run, transform must mark exactly these columns on exactly the anomaly's rows; non-trivial = anomaly with 2+ columns or a "
            "strict subset of the columns",
    "trusted_base": ["Coq 8.16.1 kernel + vm_compute", "harness/c16.py, table_scorers.py", "Model/Capa.affected hand-written",
                     "binary64 evaluation of 2*scale*log(p) stays within 1e-12 of the intended half-integer (margin 0.5)"],
    "assumptions": ["ties between savings: NumPy's argsort order is unspecified, so equality with the model is required only on tie-free rows; "
                    "the property clauses are checked on every row"],
}
HEADER = ("From Coq Require Import ZArith List Arith Bool.\nFrom SK Require Import Lib.Base Model.Capa Model.Convert Check.AffectedCheck.\n"
          "Import ListNotations.\nOpen Scope Z_scope.")


def gen(rng, i):
    p = rng.choice([2, 2, 3, 4, 5, 6])
    m = rng.choice([2, 2, 3])
    n = rng.randint(m + 2, 14)
    M = rng.choice([m + 2, n, n])
    wide = i % 4 != 3
    hi = rng.choice([9, 30, 80]) if wide else 2
    K = 2
    pattern = rng.choice(["dense", "sparse", "single", "mixed"])
    ctabs = []
    for j in range(p):
        active = {"dense": True, "sparse": j < max(1, p // 2), "single": j == 0, "mixed": rng.random() < 0.6}[pattern]
        loss = ts.loss_table(rng, n, K, hi if active else 1)
        ctabs.append(ts.saving_from_loss(loss, n))
    ptabs = [ts.saving_from_loss(ts.loss_table(rng, n, K, rng.choice([1, 2, hi + 3])), n) for _ in range(p)]
    if i % 7 == 5:
        # one column with savings six orders of magnitude above the others (still exact integers): whether a SMALL column belongs to the
        # affected set is decided by its own saving against its own penalty, not relative to the total
        g = rng.randrange(p)
        ctabs[g] = [[v * 1000000 for v in r] for r in ctabs[g]]
        ptabs[g] = [[v * 1000000 for v in r] for r in ptabs[g]]
        pattern = pattern + "+giant"
    npv = rng.choice([1, 1, 2, 3])                       # parameters per variable of the collective saving (enters the sparse penalty)
    B2 = rng.choice([1, 3, 5, 9, 15])                    # 2 * (sparse per-component penalty) : odd => half-integer penalty
    bp = [rng.randint(0, 6) for _ in range(p)]
    if rng.random() < 0.5:
        bp = sorted(bp, reverse=(rng.random() < 0.6))      # decreasing (like the combined family: a large first increment) or increasing
    return {"n": n, "p": p, "m": m, "M": M, "ctabs": ctabs, "ptabs": ptabs, "ac": rng.choice([0, 1, 3, 6]),
            "bc": [rng.choice([0, 1, 2])] * p, "ap": rng.choice([2, 6, 12]), "bp": bp, "B2": B2, "pattern": pattern, "wide": wide, "npv": npv}


def run(ctx):
    from skchange.anomaly_detectors import MVCAPA
    rng = ctx.rng
    N = ctx.n(260, 3000)
    af_cases, af_meta, dn_cases, dn_meta = [], [], [], []
    for i in range(N):
        c = gen(rng, i)
        n, p = c["n"], c["p"]
        X = pd.DataFrame(np.zeros((n, p)), columns=[f"c{j}" for j in range(p)])
        scale = (c["B2"] / 2.0) / (2.0 * math.log(c["npv"] * p))      # so that 2 * scale * log(npv * p) = B2 / 2
        inp = {k: c[k] for k in c}
        try:
            d = MVCAPA(collective_saving=ts.TableSaving(c["ctabs"], c["npv"]), point_saving=ts.TableSaving(c["ptabs"]),
                       collective_penalty=pen_callable(c["ac"], c["bc"]), collective_penalty_scale=scale,
                       point_penalty=pen_callable(c["ap"], c["bp"]), min_segment_length=c["m"], max_segment_length=c["M"],
                       ignore_point_anomalies=False).fit(X)
            y = d.predict(X)
            dense = d.transform(X)
        except Exception as ex:
            ctx.violation(f"MVCAPA raised {type(ex).__name__}: {str(ex)[:150]}", inp, {"what": "exception", "cls": type(ex).__name__})
            continue
        anoms = [(int(a), int(b), [int(v) for v in cc]) for a, b, cc in zip(y["ilocs"].array.left, y["ilocs"].array.right, y["icolumns"])]
        inp["impl_anomalies"] = [list(a) for a in anoms]
        if not (dense.index.equals(X.index) and list(dense.columns) == [f"labels_c{j}" for j in range(p)]):
            ctx.violation("MVCAPA.transform does not return one labels_<column> column per input column on X's index", inp, {"what": "dense-frame"})
        a3 = coq_list([f"({s}%nat, {e}%nat, {nlist(cc)})" for s, e, cc in anoms])
        dn_cases.append(f"({n}%nat, {p}%nat, {a3}, {coq_list([nlist(r) for r in dense.to_numpy().tolist()])})")
        dn_meta.append(dict(inp, impl_dense=dense.to_numpy().tolist()))
        for s, e, cc in anoms:
            if e - s == 1:      # point anomaly: point saving and the point penalty
                sav, alpha, betas, kind = [c["ptabs"][j][s][e] for j in range(p)], c["ap"], c["bp"], "point"
            else:               # collective: the SPARSE penalty (beta = B2 / 2), arithmetic doubled
                sav, alpha, betas, kind = [2 * c["ctabs"][j][s][e] for j in range(p)], 0, [c["B2"]] * p, "collective"
            af_cases.append("{| af_sav := %s; af_alpha := %s; af_betas := %s; af_cols := %s |}" % (zlist(sav), zlit(alpha), zlist(betas), nlist(cc)))
            af_meta.append(dict(inp, anomaly=[s, e], kind=kind, savings_on_interval=sav, betas_used=betas, reported_columns=cc))
            tie = len(set(sav)) < len(sav)
            ctx.case({"c": i, "a": [s, e]}, nontrivial=(len(cc) >= 2 or len(cc) < p),
                     sample={"p": p, "anomaly": [s, e], "kind": kind, "savings": sav, "betas": betas, "icolumns": cc, "tie_free": not tie})
            ctx.count("kind", kind)
            ctx.count("n_columns", f"{len(cc)}/{p}")
            ctx.count("tie_free", not tie)
        ctx.count("pattern", c["pattern"])
    bad = coq_bad_cases(ctx.cid, HEADER, "af_case", "af_case_ok", af_cases, shard=300, tag="af")
    for i in bad[:30]:
        m = af_meta[i]
        ctx.violation(f"MVCAPA {m['kind']} anomaly {m['anomaly']}: reported columns {m['reported_columns']} are not the optimal prefix of the decreasing "
                      f"order of the savings {m['savings_on_interval']} under per-component penalties {m['betas_used']}", m,
                      {"what": "affected-columns", "kind": m["kind"]})
    bad = coq_bad_cases(ctx.cid, HEADER, "nat * nat * list anom3 * list (list nat)", "af_dense_ok", dn_cases, shard=150, tag="dn")
    for i in bad[:20]:
        m = dn_meta[i]
        ctx.violation(f"MVCAPA.transform does not mark exactly the reported columns on exactly the anomalies' rows: anomalies {m['impl_anomalies']}", m,
                      {"what": "dense-marking"})

    from harness.variants import variants_stream
    from skchange.anomaly_detectors import MVCAPA as _MVCAPA
    variants_stream(ctx, "MVCAPA(sparse)", lambda: _MVCAPA(min_segment_length=2, max_segment_length=30, collective_penalty="sparse"), ctx.n(4, 20), p_choices=(2, 3, 4),
                    flat_make=lambda: _MVCAPA(min_segment_length=2, collective_penalty_scale=1e6, point_penalty_scale=1e6))
    from skchange.costs import L2Cost as _L2c
    variants_stream(ctx, "MVCAPA(L2Cost saving)", lambda: _MVCAPA(collective_saving=_L2c(param=0.0), point_saving=_L2c(param=0.0), min_segment_length=2, max_segment_length=30),
                    ctx.n(2, 10), p_choices=(2, 3), nested=("collective_saving__param", 1.5))
    # ---- MVCAPA() with DEFAULT hyper-parameters on long, wide float data: affected columns of every reported anomaly = the best non-empty prefix of the columns sorted by saving,
    # ---- under the penalties the detector itself uses (sparse penalty for collective anomalies, the point penalty for point anomalies); near-ties are skipped
    from skchange.anomaly_detectors.mvcapa import capa_penalty_factory
    from skchange.anomaly_scores import L2Saving as _L2S16
    for it in range(ctx.n(2, 8)):
        n_, p_ = rng.randint(250, 600), rng.choice([5, 10])
        Xw = np.asarray([[rng.gauss(0, 1) for _ in range(p_)] for _ in range(n_)])
        for _ in range(3):
            a_ = rng.randint(10, n_ - 60)
            cols_ = rng.sample(range(p_), rng.randint(1, p_))
            Xw[a_:a_ + rng.randint(8, 40), cols_] += rng.choice([3.0, -4.0, 6.0])
        Xw[rng.randrange(n_), rng.sample(range(p_), 2)] += 12.0
        if it % 2 == 0:
            # a LONG anomaly (100 rows) in column 0 whose second affected column carries its evidence in the first and last two rows only
            a2 = rng.randint(20, n_ - 140)
            Xw[a2:a2 + 100] = np.asarray([[rng.gauss(0, 0.3) for _ in range(p_)] for _ in range(100)])
            Xw[a2:a2 + 100, 0] += 4.0
            for t_ in (a2, a2 + 1, a2 + 98, a2 + 99):
                Xw[t_, 1] += 10.0
        if it == 0:
            # a LADDER of ten 100-row anomalies (strong in column 0) whose column 1 carries a constant, noise-free shift with saving 0.8% .. 8% ABOVE its per-component
            # penalty: column 1 belongs to each of them; any estimate from fewer rows than the reported interval drops some
            p_ = 5
            n_ = 10 * 160 + 60
            Xw = np.asarray([[rng.gauss(0, 1) for _ in range(p_)] for _ in range(n_)])
            beta_ = 2.0 * 2.0 * math.log(p_)
            for k_ in range(10):
                a3 = 40 + 160 * k_
                Xw[a3:a3 + 100] = np.asarray([[rng.gauss(0, 0.3) for _ in range(p_)] for _ in range(100)])
                Xw[a3:a3 + 100, 0] += 4.0
                Xw[a3:a3 + 100, 1] = math.sqrt(beta_ * (1.0 + 0.008 * (k_ + 1)) / 100.0)
        if it == 1:
            # more than 127 anomalies in one series: a spike every 20 rows of a 2900-row series
            n_ = 2900
            Xw = np.asarray([[rng.gauss(0, 1) for _ in range(p_)] for _ in range(n_)])
            for t_ in range(10, n_, 20):
                Xw[t_, rng.randrange(p_)] += 14.0
        dm = _MVCAPA().fit(Xw)
        ym = dm.predict(Xw)
        tm = dm.transform(Xw).to_numpy()
        sa, sb = capa_penalty_factory("sparse")(n_, p_, 1, dm.collective_penalty_scale)
        pa, pb = capa_penalty_factory(dm.point_penalty)(n_, p_, 1, dm.point_penalty_scale)
        sc16 = _L2S16().fit(Xw)
        ctx.case({"default_scale_cols": it, "n": n_, "p": p_, "x0": float(Xw[0, 0])}, nontrivial=len(ym) > 0)
        ctx.count("default_scale", "MVCAPA-columns")
        for lab, (l_, r_, cc_) in enumerate(zip(ym["ilocs"].array.left, ym["ilocs"].array.right, ym["icolumns"]), start=1):
            l_, r_ = int(l_), int(r_)
            sav = sc16.evaluate(np.asarray([[l_, r_]]))[0]
            alpha_, betas_ = (pa, pb) if r_ - l_ == 1 else (sa, sb)
            order = np.argsort(-sav, kind="stable")
            pen = np.cumsum(sav[order] - np.asarray(betas_, dtype=float)) - alpha_
            k_ = int(np.argmax(pen))
            srt = np.sort(pen)[::-1]
            if len(srt) > 1 and srt[0] - srt[1] < 1e-7 * (abs(srt[0]) + 1):
                continue
            want = sorted(int(c) for c in order[: k_ + 1])
            got = sorted(int(c) for c in cc_)
            marked = sorted(int(j) for j in range(p_) if np.all(tm[l_:r_, j] == lab))
            if got != want or marked != want:
                ctx.violation(f"MVCAPA() with default hyper-parameters on a {n_} x {p_} series: anomaly [{l_}, {r_}) reports columns {got} (dense labels mark {marked}), the best non-empty "
                              f"prefix of the columns sorted by saving is {want}", {"n": n_, "p": p_, "anomaly": [l_, r_], "icolumns": got, "expected": want, "savings": sav.tolist()},
                              {"what": "default-scale-columns", "detector": "MVCAPA"})
    # ---- a collective saving with a NON-TRIVIAL fixed baseline (Gaussian, mean 2, variance 3: two parameters per variable) next to the default point saving: the affected
    # ---- columns are the best prefix of the columns sorted by the saving COMPUTED FROM ITS DEFINITION (harness/direct.py), under the sparse penalty for 2 p parameters
    from harness import direct as _direct16
    from skchange.costs import GaussianVarCost as _GV16
    for it in range(ctx.n(2, 8)):
        n_, p_ = rng.randint(240, 360), rng.choice([3, 4, 6])
        mu_, var_ = 2.0, 3.0
        Xg = np.asarray([[rng.gauss(mu_, math.sqrt(var_)) for _ in range(p_)] for _ in range(n_)])
        for _ in range(3):
            a_ = rng.randint(10, n_ - 50)
            Xg[a_:a_ + rng.randint(8, 30), rng.sample(range(p_), rng.randint(1, p_))] += rng.choice([4.0, -5.0, 7.0])
        # ... and anomalies (strong in column 0) whose OTHER columns carry a moderate shift, with a saving near the per-component penalty 2 scale log(2 p) of a two-parameter
        # saving -- and hence between it and the 2 scale log(p) a one-parameter count would give
        for k_ in range(8):
            a1_ = 12 + k_ * ((n_ - 40) // 8)
            if a1_ + 20 < n_:
                Xg[a1_:a1_ + 20, 0] += 5.0
                for j_ in range(1, p_):
                    Xg[a1_:a1_ + 20, j_] += rng.choice([-1.0, 1.0]) * rng.uniform(0.8, 1.3)
        # a sensor drop-out: one column reports EXACTLY the same value over a stretch (its sample variance is 0: the variance floor applies to that column, and only to it)
        a0_ = rng.randint(10, n_ - 40)
        Xg[a0_:a0_ + 20, rng.randrange(p_)] = mu_ + 0.5
        dg = _MVCAPA(collective_saving=_GV16((mu_, var_)), point_saving=__import__('skchange.costs', fromlist=['L2Cost']).L2Cost(param=mu_), min_segment_length=2, max_segment_length=60).fit(Xg)
        yg = dg.predict(Xg)
        sa, sb = capa_penalty_factory("sparse")(n_, p_, 2, dg.collective_penalty_scale)
        pa16, pb16 = capa_penalty_factory(dg.point_penalty)(n_, p_, 1, dg.point_penalty_scale)
        ctx.case({"gaussian_baseline_cols": it, "n": n_, "p": p_, "x0": float(Xg[0, 0])}, nontrivial=len(yg) > 0)
        ctx.count("default_scale", "MVCAPA-columns(Gaussian baseline)")
        for l_, r_, cc_ in zip(yg["ilocs"].array.left, yg["ilocs"].array.right, yg["icolumns"]):
            l_, r_ = int(l_), int(r_)
            sav = np.asarray(_direct16.saving_direct("l2", mu_, Xg, l_, r_) if r_ - l_ == 1 else _direct16.saving_direct("gvar", (mu_, var_), Xg, l_, r_), dtype=float)
            order = np.argsort(-sav, kind="stable")
            al16, be16 = (pa16, pb16) if r_ - l_ == 1 else (sa, sb)
            pen = np.cumsum(sav[order] - np.asarray(be16, dtype=float)) - al16
            k_ = int(np.argmax(pen))
            srt = np.sort(pen)[::-1]
            if len(srt) > 1 and srt[0] - srt[1] < 1e-7 * (abs(srt[0]) + 1):
                continue
            want, got = sorted(int(c) for c in order[: k_ + 1]), sorted(int(c) for c in cc_)
            if got != want:
                ctx.violation(f"MVCAPA(collective_saving=GaussianVarCost(({mu_}, {var_}))) on a {n_} x {p_} series: anomaly [{l_}, {r_}) reports columns {got}; with the savings computed "
                              f"from their definition ({[round(float(v), 3) for v in sav]}) the best non-empty prefix is {want}", {"n": n_, "p": p_, "anomaly": [l_, r_], "icolumns": got,
                                                                                                                                   "expected": want, "X": Xg.tolist()},
                              {"what": "gaussian-baseline-columns", "detector": "MVCAPA"})

