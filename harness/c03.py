"""C03: CAPA / MVCAPA anomalies maximise the total penalised saving."""
import numpy as np
import pandas as pd

from harness import table_scorers as ts
from harness.engine import coq_bad_cases, coq_eval, coq_list, pairs_nat, zlist, zlit, zmat

INFO = {
    "extra_targets": ["Check/CapaCheck.vo", "Check/GenericCapaCheck.vo", "Check/FloatRunCheck.vo"],
    "level": "proof",
    "rule": "integer table savings (p = 1..4 columns) driven through the real CAPA (penalties assigned after fit) and MVCAPA "
            "(user penalty callables returning integer (alpha, betas): zero / equal / increasing / unordered betas): stream A = "
            "loss-table savings (non-negative, sub-additive by construction; hypothesis re-checked by hsub_okb in Coq), stream B = "
            "arbitrary integer tables (model equality + well-formedness + re-evaluation only); both ignore_point_anomalies settings; "
            "non-trivial = at least one reported anomaly; distinct by hash of the full input",
    "trusted_base": ["Coq 8.16.1 kernel + vm_compute", "harness/c03.py + table_scorers.py",
                     "Model/Capa.v is hand-written: tied to mvcapa.py / capa.py by model = implementation on every case",
                     "primitive floats (PrimFloat) under vm_compute for the binary64 streams; Flocq 4.1 for the binary64 theorems; the standard library's FloatAxioms / Uint63 axioms",
                     "binary64 twin l2_saving_F (Check/FloatSavingCheck.v): hand-written, tied bit for bit to L2Saving.evaluate (C06) and to CAPA's scores from the data"],
    "assumptions": ["|table values| < 2^40 so the implementation's float64 arithmetic is exact",
                    "CAPA's zero per-component penalty vector np.zeros(1) is modelled as a zero vector of length p (same branch, same value)"],
}

HEADER = ("From Coq Require Import ZArith List Bool.\nFrom SK Require Import Lib.Base Model.Capa Proofs.CapaSpec Check.CapaCheck.\n"
          "Import ListNotations.\nOpen Scope Z_scope.")


def pen_callable(alpha, betas):
    def f(n, p, n_params_per_variable, scale=1.0):
        return float(alpha), np.array(betas, dtype=float)
    return f


def fit_len(n, m):
    """the detector is fitted on a series of ANOTHER length than the one it is applied to: longer, or (odd n) shorter down to the minimum"""
    d = (n * 7 + 3) % 5
    return max(m, n - d - 2) if n % 2 else n + d


def run_impl(c, ignore):
    from skchange.anomaly_detectors import CAPA, MVCAPA
    p, n = len(c["ctabs"]), c["n"]
    # the scored frame carries row labels other than 0..n-1 in two cases out of three ("the cumulative score reported at each TIME"): the published scores must be
    # labelled by the frame that is scored; positions (predict) are what the table savings read
    idx = [None, pd.RangeIndex(50, 50 + n), pd.date_range("2022-01-03", periods=n, freq="h")][(n + c["m"] + len(c["ctabs"])) % 3]
    X = pd.DataFrame(np.zeros((n, p)), index=idx)
    if c["det"] == "CAPA":
        d = CAPA(collective_saving=ts.TableSaving(c["ctabs"]), point_saving=ts.TableSaving(c["ptabs"]),
                 min_segment_length=c["m"], max_segment_length=c["M"], ignore_point_anomalies=ignore).fit(pd.DataFrame(np.zeros((fit_len(len(X), c['m']), X.shape[1]))))
        d.collective_penalty_ = float(c["ac"])
        d.point_penalty_ = float(c["ap"])
    else:
        d = MVCAPA(collective_saving=ts.TableSaving(c["ctabs"]), point_saving=ts.TableSaving(c["ptabs"]),
                   collective_penalty=pen_callable(c["ac"], c["bc"]), point_penalty=pen_callable(c["ap"], c["bp"]),
                   min_segment_length=c["m"], max_segment_length=c["M"], ignore_point_anomalies=ignore).fit(pd.DataFrame(np.zeros((fit_len(len(X), c['m']), X.shape[1]))))
    scores_frame = d.transform_scores(X)
    if not scores_frame.index.equals(X.index):
        raise RuntimeError(f"the published cumulative scores are labelled {list(scores_frame.index[:3])}.. instead of the row labels {list(X.index[:3])}.. of the scored frame")
    scores = scores_frame.to_numpy()
    y = d.predict(X)
    iv = y["ilocs"].array
    if str(iv.closed) != "left":
        raise RuntimeError("intervals not left-closed")
    anoms = [(int(a), int(b)) for a, b in zip(iv.left, iv.right)]
    if not np.all(scores == np.round(scores)):
        raise RuntimeError("non-integer scores from integer tables")
    cols = [list(map(int, x)) for x in y["icolumns"]] if "icolumns" in y else None
    return anoms, [int(v) for v in scores], cols


def gen_case(rng, i):
    det = "CAPA" if i % 2 == 0 else "MVCAPA"
    m = rng.choice([2, 2, 2, 3, 3, 4])
    n = rng.randint(m, 16 if i % 3 else 11)
    M = rng.choice([m, m + 1, m + 2, n, n + 2, max(m, n // 2)])
    p = rng.choice([1, 1, 2, 2, 3, 4])
    stream = "B" if i % 5 == 4 else "A"
    if stream == "A":
        K = rng.choice([2, 3])
        hi = rng.choice([1, 2, 3, 4])
        ctabs = [ts.saving_from_loss(ts.loss_table(rng, n, K, hi), n) for _ in range(p)]
        if rng.random() < 0.5:
            ptabs = ctabs
        else:
            ptabs = [ts.saving_from_loss(ts.loss_table(rng, n, K, hi + 2), n) for _ in range(p)]
    else:
        ctabs = [ts.arbitrary_table(rng, n, -3, 7) for _ in range(p)]
        ptabs = [ts.arbitrary_table(rng, n, -3, 9) for _ in range(p)]
    ac, ap = rng.choice([0, 1, 1, 2, 3, 5]), rng.choice([0, 1, 2, 3, 4, 6, 9])
    if det == "CAPA":
        bc, bp = [0] * p, [0] * p
    else:
        def betas():
            kind = rng.choice(["zero", "equal", "incr", "any"])
            if kind == "zero":
                return [0] * p
            if kind == "equal":
                return [rng.choice([1, 2, 3])] * p
            if kind == "incr":
                b, out = 0, []
                for _ in range(p):
                    b += rng.randint(0, 2)
                    out.append(b)
                return out
            return [rng.randint(0, 3) for _ in range(p)]
        bc, bp = betas(), betas()
    return {"det": det, "stream": stream, "n": n, "m": m, "M": M, "ac": ac, "bc": bc, "ap": ap, "bp": bp,
            "ctabs": ctabs, "ptabs": ptabs}


def corpus_cases():
    # D8 witness (immediate pruning; Proofs/CapaDP.capa_immediate_pruning_refuted)
    wloss = [[3, 0], [1, 1], [0, 2], [3, 0]]
    t = ts.saving_from_loss(wloss, 4)
    for det in ("CAPA", "MVCAPA"):
        yield {"det": det, "stream": "corpus-D8", "n": 4, "m": 2, "M": 4, "ac": 1, "bc": [0], "ap": 4, "bp": [0],
               "ctabs": [t], "ptabs": [t]}
    # D19 witness: a point anomaly in the first m-1 samples (position 0 with m = 2)
    sav = [[0] * 5 for _ in range(5)]
    sav[0][1] = 9
    for s in range(5):
        for e in range(s + 1, 5):
            if s == 0:
                sav[s][e] = 9 if e == 1 else 3
    for det in ("CAPA", "MVCAPA"):
        yield {"det": det, "stream": "corpus-D19", "n": 4, "m": 2, "M": 4, "ac": 4, "bc": [0], "ap": 2, "bp": [0],
               "ctabs": [sav], "ptabs": [sav]}
    # D7 witness: alpha must be charged once, not once per column (p = 3, zero betas)
    t3 = [ts.saving_from_loss([[2, 0], [2, 0], [2, 0], [0, 0]], 4) for _ in range(3)]
    for det in ("CAPA", "MVCAPA"):
        yield {"det": det, "stream": "corpus-D7", "n": 4, "m": 2, "M": 4, "ac": 5, "bc": [0, 0, 0], "ap": 9, "bp": [0, 0, 0],
               "ctabs": t3, "ptabs": t3}


def term(c, anoms, anoms_ign, scores):
    return ("{| cc_n := %d%%nat; cc_m := %d%%nat; cc_M := %d%%nat; cc_ac := %s; cc_bc := %s; cc_ap := %s; cc_bp := %s; "
            "cc_ctabs := %s; cc_ptabs := %s; cc_anoms := %s; cc_anoms_ign := %s; cc_scores := %s |}"
            % (c["n"], c["m"], c["M"], zlit(c["ac"]), zlist(c["bc"]), zlit(c["ap"]), zlist(c["bp"]),
               coq_list([zmat(t) for t in c["ctabs"]]), coq_list([zmat(t) for t in c["ptabs"]]),
               pairs_nat(anoms), pairs_nat(anoms_ign), zlist(scores)))


def run(ctx):
    N = ctx.n(360, 5000)
    cases = list(corpus_cases()) + [gen_case(ctx.rng, i) for i in range(N)]
    if not ctx.quick() and ctx.scale == 1:
        # exhaustive small scope: EVERY loss table over {0,1,2} with two parameter values on n = 4 samples, CAPA, m = 2, M in {2,4}, penalties (1,2) and (0,3)
        import itertools
        for flat in itertools.product(range(3), repeat=8):
            loss = [list(flat[2 * i:2 * i + 2]) for i in range(4)]
            t = ts.saving_from_loss(loss, 4)
            for M_, (ac_, ap_) in itertools.product((2, 4), ((1, 2), (0, 3))):
                cases.append({"det": "CAPA", "stream": "exhaustive-n4", "n": 4, "m": 2, "M": M_, "ac": ac_, "bc": [0], "ap": ap_, "bp": [0],
                              "ctabs": [t], "ptabs": [t]})
        ctx.notes["exhaustive_small_scope"] = "all 6561 loss tables over {0,1,2}^(4x2) x M in {2,4} x two penalty pairs, CAPA, m = 2"
        ctx.exhaustive = True
    terms, metas = [], []
    for c in cases:
        try:
            anoms, scores, _ = run_impl(c, False)
            anoms_ign, scores2, _ = run_impl(c, True)
        except Exception as ex:
            ctx.violation(f"{c['det']} raised {type(ex).__name__}: {str(ex)[:200]} on a valid table-saving input",
                          c, {"what": "exception", "class": type(ex).__name__, "det": c["det"]})
            continue
        if scores2 != scores:
            ctx.violation(f"{c['det']}: scores depend on ignore_point_anomalies", c, {"what": "scores-vs-ignore", "det": c["det"]})
        terms.append(term(c, anoms, anoms_ign, scores))
        metas.append((c, anoms, anoms_ign, scores))
        ctx.case({k: c[k] for k in c if k != "stream"}, nontrivial=len(anoms) > 0,
                 sample={"detector": c["det"], "stream": c["stream"], "n": c["n"], "p": len(c["ctabs"]), "m": c["m"], "M": c["M"],
                         "alpha_c": c["ac"], "betas_c": c["bc"], "alpha_p": c["ap"], "betas_p": c["bp"],
                         "impl_anomalies": anoms, "impl_final_score": scores[-1]})
        ctx.count("detector", c["det"])
        ctx.count("stream", c["stream"][:6])
        ctx.count("n_anoms", min(len(anoms), 4))
        ctx.count("n_points", min(sum(1 for a, b in anoms if b == a + 1), 3))
        ctx.count("p", len(c["ctabs"]))
    bad = coq_bad_cases(ctx.cid, HEADER, "capa_case", "capa_case_ok", terms, shard=40)
    if bad:
        exprs = [f"let c := {terms[i]} in (hsub_okb c, capa_wf_ok c, capa_opt_ok c, capa_model_eq c, "
                 f"capa (cc_Sc c) (cc_Sp c) (cc_ac c) (cc_bc c) (cc_ap c) (cc_bp c) (cc_m c) (cc_M c) (cc_m c - 1) (cc_n c), "
                 f"tl (Gtab (cc_PC c) (cc_PP c) (cc_m c) (cc_M c) (cc_n c)))" for i in bad[:40]]
        outs = coq_eval(ctx.cid, HEADER, exprs, tag="diag")
        for i, o in zip(bad[:40], outs):
            c, anoms, anoms_ign, scores = metas[i]
            flags = o.replace("\n", " ")
            hsub, wf, opt = [x.strip() for x in flags.lstrip("= (").split(",")[:3]]
            inp = dict(c)
            inp.update({"impl_anomalies": anoms, "impl_anomalies_ignore_points": anoms_ign, "impl_scores": scores, "coq": flags[:1500]})
            if wf == "false" or (hsub == "true" and opt == "false"):
                what = "ill-formed-or-reevaluation" if wf == "false" else "suboptimal"
                ctx.violation(f"{c['det']}: output violates C03 ({what}): n={c['n']} m={c['m']} M={c['M']} anomalies={anoms} "
                              f"scores={scores} (Coq: {flags[:160]})", inp, {"what": what, "det": c["det"]})
            else:
                ctx.mismatch(f"{c['det']} model <> implementation: n={c['n']} m={c['m']} anomalies={anoms}", inp,
                             {"what": "model-mismatch", "det": c["det"]})
    # ---- object reuse: real savings, the same detector over several series ----
    from harness.reuse import reuse_stream
    from skchange.anomaly_detectors import CAPA, MVCAPA
    from skchange.costs import GaussianVarCost
    reuse_stream(ctx, "CAPA", lambda: CAPA(min_segment_length=2), ctx.n(5, 30))
    reuse_stream(ctx, "CAPA(GaussianVarCost)", lambda: CAPA(collective_saving=GaussianVarCost((0.0, 1.0)), min_segment_length=3, ignore_point_anomalies=True), ctx.n(3, 20))
    reuse_stream(ctx, "MVCAPA", lambda: MVCAPA(min_segment_length=2), ctx.n(5, 30), p_choices=(2, 3))
    # ---- a cost passed as saving is converted by to_saving: the result must be the saving of THAT cost (baseline minus optimal), i.e. identical to passing
    # ---- Saving(cost) explicitly, and its values must equal the definition computed from the rows (baseline mean vectors with some zero entries included)
    from harness import direct as _direct
    from skchange.anomaly_scores import Saving as _Saving
    from skchange.costs import L2Cost as _L2
    for it in range(ctx.n(10, 80)):
        p = ctx.rng.choice([2, 3])
        n = ctx.rng.randint(12, 30)
        Xn = np.asarray([[float(ctx.rng.randint(-3, 3)) for _ in range(p)] for _ in range(n)])
        a0 = ctx.rng.randint(1, n - 6)
        Xn[a0:a0 + 4] += ctx.rng.choice([6.0, -7.0])
        mu = np.asarray([ctx.rng.choice([0.0, 0.0, 2.0, -1.5]) for _ in range(p)])
        X = pd.DataFrame(Xn)
        for dn, mk in (("CAPA", lambda sv: CAPA(collective_saving=sv, min_segment_length=2)), ("MVCAPA", lambda sv: MVCAPA(collective_saving=sv, min_segment_length=2))):
            da, db = mk(_L2(mu)).fit(X), mk(_Saving(_L2(mu))).fit(X)
            ya, yb = da.predict(X), db.predict(X)
            sa, sb = da.transform_scores(X).to_numpy(), db.transform_scores(X).to_numpy()
            ctx.case({"to_saving": it, "X": Xn.tolist(), "mu": mu.tolist(), "det": dn}, nontrivial=len(ya) > 0)
            if not (np.allclose(sa, sb, rtol=1e-9, atol=1e-9) and list(ya["ilocs"].array.left) == list(yb["ilocs"].array.left)
                    and list(ya["ilocs"].array.right) == list(yb["ilocs"].array.right)):
                ctx.violation(f"{dn}(collective_saving=L2Cost({mu.tolist()})) differs from {dn}(collective_saving=Saving(L2Cost(...))): the cost was not converted into its own saving",
                              {"X": Xn.tolist(), "mean": mu.tolist(), "detector": dn}, {"what": "to_saving", "det": dn})
        sv = da._collective_saving
        s0, e0 = 1, min(n, 9)
        got = sv.evaluate(np.asarray([[s0, e0]]))[0]
        want = _direct.saving_direct("l2", mu, Xn, s0, e0)
        if not _direct.close(got, want, scale=float(np.sum(Xn ** 2)) + 1):
            ctx.violation(f"the saving used by MVCAPA(collective_saving=L2Cost({mu.tolist()})) on [{s0},{e0}) is {got.tolist()}, the definition gives {np.asarray(want).tolist()}",
                          {"X": Xn.tolist(), "mean": mu.tolist()}, {"what": "to_saving-values"})
    from harness import helpers as _helpers
    _helpers.capa_helpers(ctx)

    from harness.variants import variants_stream
    from skchange.anomaly_detectors import CAPA as _CAPA, MVCAPA as _MVCAPA
    variants_stream(ctx, "CAPA", lambda: _CAPA(min_segment_length=2, max_segment_length=30), ctx.n(3, 16),
                    flat_make=lambda: _CAPA(min_segment_length=2, collective_penalty_scale=1e6, point_penalty_scale=1e6))
    variants_stream(ctx, "MVCAPA", lambda: _MVCAPA(min_segment_length=2, max_segment_length=30), ctx.n(3, 16),
                    flat_make=lambda: _MVCAPA(min_segment_length=2, collective_penalty_scale=1e6, point_penalty_scale=1e6))
    float_optimality_stream(ctx)
    capa_default_scale_stream(ctx)
    from skchange.costs import L2Cost as _L2c
    variants_stream(ctx, "MVCAPA(L2Cost saving)", lambda: _MVCAPA(collective_saving=_L2c(param=0.0), point_saving=_L2c(param=0.0), min_segment_length=2, max_segment_length=30),
                    ctx.n(2, 10), p_choices=(2, 3), nested=("collective_saving__param", 1.5))
    # ---- the generic dynamic programme (Model/GenericCapa.v) on primitive floats against the real CAPA / MVCAPA, bit for bit ----
    from harness import floatstreams
    floatstreams.capa_float_stream(ctx, ctx.n(18, 120))
    floatstreams.capa_l2_end_to_end_stream(ctx, ctx.n(16, 100))
    floatstreams.capa_l2_columns_end_to_end_stream(ctx, ctx.n(10, 60))


def capa_default_scale_stream(ctx):
    """CAPA() / MVCAPA() with DEFAULT hyper-parameters (min_segment_length 2, max_segment_length 1000, default penalties) on series of a few hundred rows: the final score
    and the re-evaluated total of the reported anomalies against the optimum of the dynamic programme on the scorer's own float savings (float arithmetic, relative
    tolerance), with the fitted penalties read back from the detector."""
    from skchange.anomaly_detectors import CAPA as _CAPA, MVCAPA as _MVCAPA
    from skchange.anomaly_detectors.mvcapa import capa_penalty_factory
    from skchange.anomaly_scores import L2Saving as _L2S
    rng = ctx.rng
    for it in range(ctx.n(2, 10)):
        n, p = (rng.randint(190, 320) if it else rng.randint(540, 620)), rng.choice([1, 3])
        multi = it % 2 == 1
        X = np.asarray([[rng.gauss(0, 1) for _ in range(p)] for _ in range(n)])
        a = rng.randint(20, max(21, n - 160))
        a = a | 1                                  # an ODD start
        X[a:a + (rng.randint(10, 50) if it % 2 else rng.randint(80, 140)), : rng.randint(1, p)] += rng.choice([3.0, -4.0])      # also anomalies longer than 64 samples
        X[rng.randrange(n), rng.randrange(p)] += rng.choice([9.0, -11.0])
        d = (_MVCAPA() if multi else _CAPA()).fit(X)
        m, M = d.min_segment_length, d.max_segment_length
        y = d.predict(X)
        scores = d.transform_scores(X).to_numpy().reshape(-1)
        if multi:
            ac, bc = capa_penalty_factory(d.collective_penalty)(n, p, 1, d.collective_penalty_scale)
            ap, bp = capa_penalty_factory(d.point_penalty)(n, p, 1, d.point_penalty_scale)
            bc, bp = [float(v) for v in bc], [float(v) for v in bp]
        else:
            ac, ap, bc, bp = float(d.collective_penalty_), float(d.point_penalty_), [0.0] * p, [0.0] * p

        def pbest(sav, alpha, betas):
            order = sorted(sav, reverse=True)
            best, run = None, -alpha
            for k_, v in enumerate(order):
                run += v - betas[k_]
                best = run if best is None or run > best else best
            return best
        sc = _L2S().fit(X)
        from harness import floatstreams as _fs
        _fs._scorer_vs_definition(ctx, "MVCAPA" if multi else "CAPA", "l2saving", sc, X, m)
        cuts = [(s, e) for s in range(n) for e in range(s + m, min(n, s + M) + 1)]
        PC = {c_: pbest([float(v) for v in row], float(ac), bc) for c_, row in zip(cuts, sc.evaluate(np.asarray(cuts)))}
        PPv = [pbest([float(v) for v in row], float(ap), bp) for row in sc.evaluate(np.asarray([(t, t + 1) for t in range(n)]))]
        G = [0.0] * (n + 1)
        for t in range(1, n + 1):
            best = max(G[t - 1], G[t - 1] + PPv[t - 1])
            for s in range(max(0, t - M), t - m + 1):
                v = G[s] + PC[(s, t)]
                if v > best:
                    best = v
            G[t] = best
        iv = [(int(l), int(r)) for l, r in zip(y["ilocs"].array.left, y["ilocs"].array.right)]
        ok_shape = all((r - l == 1) or (m <= r - l <= M) for l, r in iv) and all(b_[0] >= a_[1] for a_, b_ in zip(iv, iv[1:]))
        total = sum((PPv[l] if r - l == 1 else PC[(l, r)]) for l, r in iv) if ok_shape else float("nan")
        tol = 1e-8 * (abs(G[n]) + sum(abs(v) for v in PPv) + 1.0)
        inp = {"detector": "MVCAPA" if multi else "CAPA", "defaults": True, "n": n, "p": p, "anomalies": [list(t) for t in iv], "final_score": float(scores[-1]), "optimum": G[n],
               "X": X.tolist() if n * p <= 1000 else None}
        ctx.case({"capa_default_scale": it, "n": n, "p": p, "x0": float(X[0, 0])}, nontrivial=len(iv) > 0)
        ctx.count("default_scale", inp["detector"])
        if not ok_shape or abs(total - G[n]) > tol or abs(float(scores[-1]) - G[n]) > tol:
            ctx.violation(f"{inp['detector']}() with default hyper-parameters on a {n} x {p} series: final score {float(scores[-1])!r}, re-evaluated total of the reported anomalies "
                          f"{total!r}, optimum of the dynamic programme on the scorer's savings {G[n]!r} (anomalies {iv[:6]})", inp, {"what": "default-scale-spec", "detector": inp["detector"]})


def float_optimality_stream(ctx):
    """The property itself on REAL float savings: CAPA / MVCAPA with the built-in L2 saving on float data; the per-column savings of every admissible interval are taken
    from a fresh scorer, the optimum over all valid anomaly sets is recomputed in EXACT rational arithmetic (floats are rationals: no rounding in the reference) with the
    true best-subset penalised saving, and the implementation's final score and the re-evaluated total of its reported anomalies must equal it up to rounding."""
    from fractions import Fraction
    from skchange.anomaly_detectors import CAPA as _CAPA, MVCAPA as _MVCAPA
    from skchange.anomaly_scores import L2Saving as _L2S
    rng = ctx.rng

    def pbest(sav, alpha, betas):
        order = sorted(sav, reverse=True)
        best, run = None, -alpha
        for k, v in enumerate(order):
            run += v - betas[k]
            best = run if best is None or run > best else best
        return best

    for it in range(ctx.n(14, 100)):
        n = rng.randint(8, 26)
        p = rng.choice([1, 2, 3])
        m = rng.choice([2, 3])
        M = rng.choice([m + 2, 8, n])
        X = np.asarray([[rng.gauss(0, 1) for _ in range(p)] for _ in range(n)])
        a = rng.randint(1, n - m - 1)
        X[a:a + rng.randint(m, min(M, n - a)), : rng.randint(1, p)] += rng.choice([3.0, -4.0])
        X[rng.randrange(n), rng.randrange(p)] += rng.choice([7.0, -9.0])
        multi = it % 2 == 1
        ac, ap = float(rng.choice([1.5, 4.25, 9.0])), float(rng.choice([2.5, 6.0, 12.75]))
        betas = [float(rng.choice([0.0, 0.5, 1.25, 3.0])) for _ in range(p)] if multi else [0.0] * p
        try:
            if multi:
                d = _MVCAPA(min_segment_length=m, max_segment_length=M, collective_penalty=pen_callable(ac, betas), point_penalty=pen_callable(ap, betas)).fit(X)
            else:
                d = _CAPA(min_segment_length=m, max_segment_length=M).fit(X)
                d.collective_penalty_, d.point_penalty_ = ac, ap
            y = d.predict(X)
            scores = d.transform_scores(X).to_numpy().reshape(-1)
        except Exception as ex:
            ctx.violation(f"{'MVCAPA' if multi else 'CAPA'} raised {type(ex).__name__}: {str(ex)[:100]} on float data", {"X": X.tolist(), "m": m, "M": M},
                          {"what": "exception", "detector": "float-optimality"})
            continue
        sc = _L2S().fit(X)
        cuts = [(s, e) for s in range(n) for e in range(s + 1, n + 1) if e - s == 1 or m <= e - s <= M]
        vals = sc.evaluate(np.asarray(cuts))
        sav = {c: [Fraction(float(v)) for v in row] for c, row in zip(cuts, vals)}
        fa, fp, fb = Fraction(ac), Fraction(ap), [Fraction(b) for b in betas]
        PC = lambda s, e: pbest(sav[(s, e)], fa, fb)
        PP = lambda t: pbest(sav[(t, t + 1)], fp, fb)
        G = [Fraction(0)] * (n + 1)
        for t in range(1, n + 1):
            best = max(G[t - 1], G[t - 1] + PP(t - 1))
            for s in range(max(0, t - M), t - m + 1):
                best = max(best, G[s] + PC(s, t))
            G[t] = best
        iv = [(int(l), int(r)) for l, r in zip(y["ilocs"].array.left, y["ilocs"].array.right)]
        ok_shape = all((r - l == 1) or (m <= r - l <= M) for l, r in iv) and all(b_[0] >= a_[1] for a_, b_ in zip(iv, iv[1:])) and all(0 <= l < r <= n for l, r in iv)
        total = sum((PP(l) if r - l == 1 else PC(l, r)) for l, r in iv) if ok_shape else None
        scale = float(sum(abs(x) for row in sav.values() for x in row)) / max(1, len(sav)) * n + 1.0
        inp = {"detector": "MVCAPA" if multi else "CAPA", "X": X.tolist(), "min_segment_length": m, "max_segment_length": M, "alpha_collective": ac, "alpha_point": ap,
               "betas": betas, "anomalies": [list(t) for t in iv], "final_score": float(scores[-1]), "exact_optimum": float(G[n])}
        ctx.case({"floatopt": it, "n": n, "p": p, "x0": float(X[0, 0])}, nontrivial=len(iv) > 0)
        ctx.count("float_optimality", inp["detector"])
        if not ok_shape:
            ctx.violation(f"{inp['detector']} on float data: the reported anomalies {iv} are not sorted disjoint intervals of admissible length", inp,
                          {"what": "float-optimality-shape", "detector": inp["detector"]})
        elif abs(float(total) - float(G[n])) > 1e-9 * scale or abs(float(scores[-1]) - float(G[n])) > 1e-9 * scale:
            ctx.violation(f"{inp['detector']} on float data (n={n}, p={p}, m={m}, M={M}): final score {float(scores[-1])!r}, re-evaluated total of the reported anomalies "
                          f"{float(total)!r}, optimum over all valid anomaly sets (exact arithmetic on the scorer's savings) {float(G[n])!r}", inp,
                          {"what": "float-optimality", "detector": inp["detector"]})
        if any(abs(float(scores[t]) - float(G[t + 1])) > 1e-9 * scale for t in range(n)):
            ctx.violation(f"{inp['detector']} on float data: a prefix score differs from the prefix optimum (exact arithmetic on the scorer's savings)", inp,
                          {"what": "float-optimality-prefix", "detector": inp["detector"]})
