"""C07: seeded binary segmentation reports exactly the greedy above-threshold splits."""
import numpy as np
import pandas as pd

from harness import scorespec as ss
from harness import table_scorers as ts
from harness.engine import coq_bad_cases, coq_eval, coq_list, nlist, pairs_nat, zlit

INFO = {
    "extra_targets": ["Check/SbsCheck.vo", "Check/GenericCheck.vo", "Check/FloatRunCheck.vo"],
    "level": "proof",
    "rule": "integer change scores (pseudo-random formula columns and integer CUSUM numerators of data with level shifts, p = 1..3) "
            "driven through the real SeededBinarySegmentation with an integer threshold_; configuration drawn from "
            "m in 1..4, n in [2m, 40], max_interval_length in [2m, n+5], growth_factor in {1.1,1.2,1.25,4/3,1.5,1.9,2}; the "
            "(interval_len, step) oracle is recomputed with the library's NumPy expressions; every case is also re-run at a higher "
            "threshold (monotonicity); non-trivial = at least one changepoint; distinct by hash of the input",
    "trusted_base": ["Coq 8.16.1 kernel + vm_compute", "harness/c07.py, scorespec.py (incl. the float front-end oracle seeded_lens)",
                     "Model/Sbs.v hand-written; the float front end of make_seeded_intervals is an oracle (validated, not proved)"],
    "assumptions": ["threshold >= 0", "np.geomspace / np.round / np.log front end of make_seeded_intervals is not modelled; its "
                    "postconditions (lens_ok) are hypotheses of C07_intervals and are checked on every generated configuration"],
}

HEADER = ("From Coq Require Import ZArith List Bool.\nFrom SK Require Import Lib.Base Model.Sbs Check.Scores Check.SbsCheck.\n"
          "Import ListNotations.\nOpen Scope Z_scope.")
GF = [1.1, 1.2, 1.25, 4 / 3, 1.5, 1.9, 2.0]


def fit_frame(c, p):
    """training frame of another length than the data predicted on (seeded by the case, always admissible)"""
    extra = (c["n"] * 7 + c["m"]) % 5
    return pd.DataFrame(np.zeros((c["n"] + extra, p)))


def run_impl(c, thr):
    from skchange.change_detectors import SeededBinarySegmentation
    cols = c["score"]
    fn = lambda j, s, k, e: cols[j](s, k, e)  # noqa
    X = pd.DataFrame(np.zeros((c["n"], len(cols))))
    d = SeededBinarySegmentation(change_score=(ts.FnChangeScoreSub(None, fn, len(cols)) if (c["n"] + c["m"]) % 3 == 1 else ts.FnChangeScore(fn, len(cols), int_dtype=(c["n"] + c["m"]) % 3 == 0)), threshold_scale=1.0,
                                 min_segment_length=c["m"], max_interval_length=c["maxlen"], growth_factor=c["g"]).fit(fit_frame(c, len(cols)))
    d.threshold_ = float(thr)
    cpts = [int(v) for v in d.predict(X)["ilocs"]]
    sc = d.scores
    rows = [(int(a), int(b), int(k), int(v)) for a, b, k, v in zip(sc["start"], sc["end"], sc["argmax_cpt"], sc["score"])]
    if any(float(v) != int(v) for v in sc["score"]):
        raise RuntimeError("non-integer scores")
    return cpts, rows


def gen_case(rng, i):
    m = rng.choice([1, 1, 2, 2, 3, 4])
    n = rng.randint(2 * m, 40 if i % 3 == 0 else 18)
    maxlen = rng.choice([2 * m, 2 * m, 2 * m + 1, 2 * m + 2, n, n + 5, rng.randint(2 * m, n + 5)])
    g = rng.choice(GF)
    p = rng.choice([1, 1, 2, 3])
    return {"n": n, "m": m, "maxlen": maxlen, "g": g, "score": ss.random_cs(rng, n, p),
            "thr": rng.choice([0, 0, 1, 2, 3, 5, 8, 15, 40]), "dthr": rng.choice([1, 2, 5, 20])}


def corpus_cases(rng):
    # D2: max_interval_length == 2 * min_segment_length used to give no interval at all
    yield {"n": 20, "m": 10, "maxlen": 20, "g": 1.5, "score": [ss.Cs("cusum", xs=[0] * 10 + [9] * 10)], "thr": 5, "dthr": 1}
    yield {"n": 6, "m": 1, "maxlen": 2, "g": 2.0, "score": [ss.Cs("cusum", xs=[0, 0, 0, 7, 7, 7])], "thr": 3, "dthr": 2}


def term(c, cpts, rows):
    lens = ss.seeded_lens(c["n"], 2 * c["m"], c["maxlen"], c["g"])
    return ("{| sc_n := %d%%nat; sc_m := %d%%nat; sc_maxlen := %d%%nat; sc_lens := %s; sc_thr := %s; sc_score := %s; "
            "sc_cpts := %s; sc_rows := %s |}"
            % (c["n"], c["m"], c["maxlen"], pairs_nat(lens), zlit(c["thr"]), coq_list([x.coq() for x in c["score"]]), nlist(cpts),
               coq_list(["(%d%%nat, %d%%nat, %d%%nat, %s)" % (a, b, k, zlit(v)) for a, b, k, v in rows])))


def jcase(c):
    d = dict(c)
    d["score"] = [x.json() for x in c["score"]]
    return d


def run(ctx):
    N = ctx.n(500, 6000)
    cases = list(corpus_cases(ctx.rng)) + [gen_case(ctx.rng, i) for i in range(N)]
    terms, metas, mono = [], [], []
    for c in cases:
        try:
            cpts, rows = run_impl(c, c["thr"])
            cpts2, _ = run_impl(c, c["thr"] + c["dthr"])
        except Exception as ex:
            ctx.violation(f"SeededBinarySegmentation raised {type(ex).__name__}: {str(ex)[:150]} on a valid configuration "
                          f"(n={c['n']}, m={c['m']}, max_interval_length={c['maxlen']}, g={c['g']})", jcase(c),
                          {"what": "exception", "class": type(ex).__name__, "maxlen_eq_2m": c["maxlen"] == 2 * c["m"]})
            continue
        terms.append(term(c, cpts, rows))
        metas.append((c, cpts, rows, cpts2))
        mono.append(f"({nlist(cpts2)}, {nlist(cpts)})")
        ctx.case(jcase(c), nontrivial=len(cpts) > 0,
                 sample={"n": c["n"], "m": c["m"], "max_interval_length": c["maxlen"], "growth_factor": c["g"], "threshold": c["thr"],
                         "columns": [x.kind for x in c["score"]], "n_intervals": len(rows), "impl_changepoints": cpts})
        ctx.count("m", c["m"])
        ctx.count("n_cpts", min(len(cpts), 5))
        ctx.count("g", round(c["g"], 3))
        ctx.count("maxlen_eq_2m", c["maxlen"] == 2 * c["m"])
    bad = coq_bad_cases(ctx.cid, HEADER, "sbs_case", "sbs_case_ok", terms, shard=60)
    if bad:
        exprs = [f"let c := {terms[i]} in (sbs_spec_ok c, sbs_model_eq c, sbs_intervals_ok c, sbs_rows_ok c, sbs_supported_ok c, "
                 f"sbs_complete_ok c, sbs_wf_ok c, seeded_intervals (sc_n c) (2 * sc_m c) (sc_lens c))" for i in bad[:40]]
        outs = coq_eval(ctx.cid, HEADER, exprs, tag="diag")
        for i, o in zip(bad[:40], outs):
            c, cpts, rows, _ = metas[i]
            flags = o.replace("\n", " ")
            spec_ok, model_eq, iv_ok, rows_ok = [x.strip() for x in flags.lstrip("= (").split(",")[:4]]
            inp = jcase(c)
            inp.update({"impl_changepoints": cpts, "impl_scores_table": rows, "coq": flags[:1200]})
            if spec_ok == "false":
                ctx.violation(f"SeededBinarySegmentation output violates C07: n={c['n']} m={c['m']} maxlen={c['maxlen']} g={c['g']} "
                              f"thr={c['thr']} cpts={cpts} n_intervals={len(rows)} (Coq flags: {flags[:120]})", inp,
                              {"what": "spec", "no_intervals": len(rows) == 0})
            elif iv_ok == "true" and rows_ok == "true":
                # intervals, scores and maximisers agree with the model, the reported changepoints do not: the property says they are
                # EXACTLY the greedy picks (the model is that procedure), so this is a failing input, not just a broken tie
                ctx.violation(f"SeededBinarySegmentation changepoints {cpts} are not the greedy above-threshold picks (take the maximiser of the highest-scoring "
                              f"remaining interval, discard every interval containing it): n={c['n']} m={c['m']} maxlen={c['maxlen']} thr={c['thr']}", inp,
                              {"what": "greedy-selection"})
            else:
                ctx.mismatch(f"SBS model <> implementation: n={c['n']} m={c['m']} maxlen={c['maxlen']} g={c['g']}", inp,
                             {"what": "model-mismatch"})
    bad = coq_bad_cases(ctx.cid, HEADER, "list nat * list nat", "fun p => incl_ok (fst p) (snd p)", mono, shard=1000, tag="mono")
    for i in bad[:20]:
        c, cpts, rows, cpts2 = metas[i]
        inp = jcase(c)
        inp.update({"cpts_at_thr": cpts, "cpts_at_higher_thr": cpts2})
        ctx.violation(f"raising the threshold from {c['thr']} to {c['thr'] + c['dthr']} added changepoints: {cpts} -> {cpts2}", inp,
                      {"what": "threshold-monotonicity"})
    # ---- object reuse: built-in scores, the same detector over several series ----
    from harness.reuse import reuse_stream
    from skchange.change_detectors import SeededBinarySegmentation
    from skchange.costs import L2Cost
    reuse_stream(ctx, "SeededBinarySegmentation(CUSUM)", lambda: SeededBinarySegmentation(min_segment_length=2),
                 ctx.n(6, 40), tuned_make=lambda: SeededBinarySegmentation(min_segment_length=2, threshold_scale=None, level=0.1))
    reuse_stream(ctx, "SeededBinarySegmentation(L2Cost)", lambda: SeededBinarySegmentation(change_score=L2Cost(), min_segment_length=3), ctx.n(3, 20))
    # ---- built-in score on multi-column data: the scores table against a brute-force evaluation of the DEFINITION ----
    import numpy as _np
    import pandas as _pd
    from harness import direct as _direct
    for it in range(ctx.n(12, 100)):
        p = ctx.rng.choice([1, 2, 3])
        n = ctx.rng.randint(8, 20)
        m = ctx.rng.choice([1, 2, 3])
        if 2 * m > n:
            continue
        Xn = _np.asarray([[ctx.rng.randint(-4, 4) + 20.0 * j for j in range(p)] for _ in range(n)], dtype=float)
        Xn[ctx.rng.randint(1, n - 1):] += ctx.rng.choice([6.0, -8.0])
        d = SeededBinarySegmentation(min_segment_length=m, max_interval_length=ctx.rng.choice([2 * m, 2 * m + 3, 30]), threshold_scale=0.5).fit(_pd.DataFrame(Xn))
        d.predict(_pd.DataFrame(Xn))
        ctx.case({"real-sbs": it, "X": Xn.tolist(), "m": m}, nontrivial=p > 1)
        for _, row in d.scores.iterrows():
            s, e = int(row["start"]), int(row["end"])
            vals = [(float(_np.sum(_direct.cusum_direct(Xn, s, k, e))), k) for k in range(s + m, e - m + 1)]
            want = max(v for v, _ in vals)
            got = float(row["score"])
            if abs(got - want) > 1e-7 * (abs(got) + abs(want) + 1):
                ctx.violation(f"SeededBinarySegmentation(CUSUM), p={p}: interval [{s},{e}) has score {got}, the maximum of the CUSUM (definition from the rows, summed over "
                              f"columns) over the admissible splits is {want}", {"n": n, "p": p, "m": m, "X": Xn.tolist(), "interval": [s, e], "score": got, "definition": want},
                              {"what": "scores-table-vs-definition", "multi_column": p > 1})
                break
    # ---- exhaustive grid of the interval construction alone: the float front end (oracle, recomputed with the library's NumPy expressions) must satisfy
    # ---- the postconditions the theorems assume (lens_ok), and the integer part of the model must reproduce make_seeded_intervals exactly ----
    from skchange.change_detectors.seeded_binseg import make_seeded_intervals
    import itertools as _it
    ms = [1, 2, 3, 5] if ctx.quick() else [1, 2, 3, 4, 5, 6]
    gfs = [1.1, 1.5, 2.0] if ctx.quick() else GF + [1.01]
    nmax = 26 if ctx.quick() else 80
    grid, gmeta = [], []
    for m_, g_ in _it.product(ms, gfs):
        for maxlen_ in sorted(set([2 * m_, 2 * m_ + 1, 2 * m_ + 3, 3 * m_ + 2, 40, 200])):
            for n_ in range(2 * m_, nmax + 1):
                lens = ss.seeded_lens(n_, 2 * m_, maxlen_, g_)
                ok_lens = len(lens) > 0 and all(2 * m_ <= ln_ <= min(maxlen_, n_) and st_ >= 1 for ln_, st_ in lens)
                if not ok_lens:
                    ctx.violation(f"make_seeded_intervals front end: interval lengths / steps {lens} violate 2m <= len <= min(max_interval_length, n), step >= 1 "
                                  f"(n={n_}, m={m_}, max_interval_length={maxlen_}, growth_factor={g_})", {"n": n_, "m": m_, "maxlen": maxlen_, "g": g_, "lens": lens},
                                  {"what": "front-end", "empty": len(lens) == 0})
                    continue
                st, en = make_seeded_intervals(n_, 2 * m_, maxlen_, g_)
                impl = [(int(a), int(b)) for a, b in zip(st, en)]
                grid.append(f"({n_}%nat, {m_}%nat, {maxlen_}%nat, {pairs_nat(lens)}, {pairs_nat(impl)})")
                gmeta.append({"n": n_, "m": m_, "maxlen": maxlen_, "g": g_, "lens": lens, "impl_intervals": impl})
                ctx.case({"grid": [n_, m_, maxlen_, g_]}, nontrivial=len(impl) > 1)
    ctx.notes["interval_grid"] = f"exhaustive: m in {ms}, growth factors {gfs}, six max_interval_length values per m, every n in [2m, {nmax}]: {len(grid)} configurations"
    GH = HEADER + ("\nDefinition iv_case := (nat * nat * nat * list (nat * nat) * list (nat * nat))%type.\n"
                   "Definition iv_ok (c : iv_case) : bool := let '(n, m, maxlen, lens, impl) := c in\n"
                   "  let ivs := seeded_intervals n (2 * m) lens in\n"
                   "  (length ivs =? length impl)%nat && forallb (fun xy => pair_eqb (fst xy) (snd xy)) (combine ivs impl)\n"
                   "  && negb (match impl with [] => true | _ => false end)\n"
                   "  && forallb (fun se => (fst se <? snd se)%nat && (snd se <=? n)%nat && (2 * m <=? snd se - fst se)%nat && (snd se - fst se <=? Nat.min maxlen n)%nat) impl.")
    for i in coq_bad_cases(ctx.cid, GH, "iv_case", "iv_ok", grid, shard=400, tag="grid")[:15]:
        g = gmeta[i]
        ctx.violation(f"make_seeded_intervals(n={g['n']}, min_length={2 * g['m']}, max_length={g['maxlen']}, growth_factor={g['g']}) = {g['impl_intervals']}: not the intervals "
                      f"of the model for lengths/steps {g['lens']}, or outside [0,n] / the length bounds", g, {"what": "interval-construction"})
    from harness import helpers as _helpers
    _helpers.sbs_helpers(ctx)
    # ---- the same search loop on BINARY64 score tables of the real built-in scorers (Model/Generic.v at Model/GenericF.v), bit for bit ----
    from harness import floatstreams
    floatstreams.sbs_float_stream(ctx, ctx.n(30, 200))
    floatstreams.gcov_many_columns_stream(ctx, "SeededBinarySegmentation(GaussianCovCost)", lambda: __import__("skchange.change_detectors", fromlist=["SeededBinarySegmentation"]).SeededBinarySegmentation(change_score=__import__("skchange.costs", fromlist=["GaussianCovCost"]).GaussianCovCost(), min_segment_length=45), ctx.n(1, 3))
    # the DEFAULT configuration on series of realistic length and width, decided by the property-level twin of the model
    floatstreams.sbs_default_scale_stream(ctx, ctx.n(2, 12))

    from harness.variants import variants_stream
    from skchange.change_detectors import SeededBinarySegmentation as _SBS
    from skchange.costs import L2Cost as _L2
    variants_stream(ctx, "SeededBinarySegmentation(CUSUM)", lambda: _SBS(min_segment_length=2), ctx.n(3, 20))
    variants_stream(ctx, "SeededBinarySegmentation(L2Cost)", lambda: _SBS(change_score=_L2(), min_segment_length=3, max_interval_length=40), ctx.n(2, 12), nested=("change_score__param", 0.0))
