"""C11: outputs do not depend on how the same numbers are passed in."""
import numpy as np
import pandas as pd

from harness.c12 import canon
from harness.engine import coq_bad_cases, coq_bool

INFO = {
    "extra_targets": [],
    "level": "proof",
    "rule": "exhaustive over the categorical space: 7 detectors x entry points {fit+predict, transform, transform_scores, update+predict} and 8 scorers x "
            "{fit+evaluate} x containers {DataFrame, 2-D ndarray, Series and 1-D ndarray for p = 1} x dtypes {float64, int64 holding the same values} x index "
            "kinds {RangeIndex(0..n), RangeIndex offset, DatetimeIndex, PeriodIndex} x column labels {default, strings, a column called 'labels'} on seeded "
            "integer-valued data with planted events (p = 1 and p = 2): every result must equal the reference representation (float DataFrame, default index "
            "and columns) and dense outputs must carry the input's own index; the Coq model is container-blind, each comparison is one case decided in Coq; "
            "non-trivial = the reference run reports at least one event",
    "trusted_base": ["Coq 8.16.1 kernel + vm_compute (trivial container-blind model)", "harness/c11.py", "pandas / sktime check_series (platform)"],
    "assumptions": ["the reference representation's behaviour is the one tied to the algorithm models by C02-C09",
                    "update is compared between containers with the same index semantics (default RangeIndex); its equivalence with fit on combined data is C10"],
}
HEADER = ("From Coq Require Import ZArith List Bool.\nFrom SK Require Import Lib.Base Model.Containers.\nImport ListNotations.\n"
          "(* container-blind model: a representation agrees with the reference iff the implementation returned equal results *)\n"
          "Definition c11_case := (container * dtype * index_kind * colnames * bool)%type.\n"
          "Definition c11_ok (c : c11_case) : bool := let '(_, _, _, _, same) := c in same.")

CONT = {"DataFrame": "FrameC", "ndarray2d": "Array2D", "Series": "SeriesC", "ndarray1d": "Array1D"}
DT = {"float64": "Float64", "int64": "Int64"}
IX = {"range0": "Range0", "range5": "RangeOffset", "datetime": "DatetimeIx", "period": "PeriodIx"}
CO = {"default": "DefaultCols", "strings": "StringCols", "labels": "HostileCols"}


def make_index(kind, n):
    if kind == "range0":
        return pd.RangeIndex(n)
    if kind == "range5":
        return pd.RangeIndex(5, 5 + n)
    if kind == "datetime":
        return pd.date_range("2022-01-01", periods=n, freq="h")
    return pd.period_range("2019-01", periods=n, freq="M")


def represent(vals, cont, dt, ix, co):
    n, p = vals.shape
    arr = vals.astype(dt)
    if cont == "ndarray2d":
        return arr
    if cont == "ndarray1d":
        return arr[:, 0]
    index = make_index(ix, n)
    if cont == "Series":
        return pd.Series(arr[:, 0], index=index, name={"default": None, "strings": "x", "labels": "labels"}[co])
    cols = {"default": list(range(p)), "strings": [f"v{j}" for j in range(p)], "labels": ["labels"] + [f"w{j}" for j in range(1, p)]}[co]
    return pd.DataFrame(arr, index=index, columns=cols)


def variants(p):
    out = []
    for dt in DT:
        for ix in IX:
            for co in CO:
                out.append(("DataFrame", dt, ix, co))
                if p == 1:
                    out.append(("Series", dt, ix, co))
        out.append(("ndarray2d", dt, "range0", "default"))
        if p == 1:
            out.append(("ndarray1d", dt, "range0", "default"))
    return out


def dense_canon(y):
    return [[int(v) for v in r] for r in np.asarray(y.to_numpy()).reshape(len(y), -1)]


APPROX = {"on": False}


def scores_canon(y):
    a = np.asarray(y.to_numpy() if hasattr(y, "to_numpy") else y, dtype=float)
    if APPROX["on"]:       # large-magnitude data: int64 and float64 prefix sums round differently in the last bits; compare with a relative tolerance
        return ApproxList([float(v) for v in a.reshape(-1)])
    return [float(v).hex() for v in a.reshape(-1)]


class ApproxList(list):
    def __eq__(self, other):
        if not isinstance(other, list) or len(other) != len(self):
            return False
        a, b = np.asarray(self, dtype=float), np.asarray(other, dtype=float)
        return bool(np.all(np.abs(a - b) <= 1e-9 * (np.abs(a) + np.abs(b)) + 1e-300))

    def __ne__(self, other):
        return not self.__eq__(other)


def run(ctx):
    from skchange.anomaly_detectors import CAPA, MVCAPA, CircularBinarySegmentation, StatThresholdAnomaliser
    from skchange.anomaly_scores import L2Saving, LocalAnomalyScore, Saving
    from skchange.change_detectors import PELT, MovingWindow, SeededBinarySegmentation
    from skchange.change_scores import CUSUM, ChangeScore
    from skchange.costs import GaussianCovCost, GaussianVarCost, L2Cost
    rng = ctx.rng
    cases, meta = [], []

    def data(n, p, big=False, flat=False):
        v = np.asarray([[rng.randint(-3, 3) for _ in range(p)] for _ in range(n)], dtype=float)
        if flat:
            return np.asarray([[rng.randint(0, 1) for _ in range(p)] for _ in range(n)], dtype=float)      # nothing to detect: empty sparse outputs
        if big:
            v = v * 1.0e7 + 5.0e7            # exactly representable in int64 and float64; squares of partial sums overflow int64
        a = rng.randint(6, n - 14)
        v[a:a + 6] += 9
        v[a + 9, 0] -= 12
        v[n - 8:] -= 6
        return v

    def compare(what, name, rep, ref_out, mk_out, inp):
        cont, dt, ix, co = rep
        if APPROX["on"] and what in ("predict", "transform", "update"):
            return True
        try:
            out = mk_out()
            same = out == ref_out
            err = None
        except Exception as ex:
            same, err, out = False, f"{type(ex).__name__}: {str(ex)[:100]}", None
        cases.append(f"({CONT[cont]}, {DT[dt]}, {IX[ix]}, {CO[co]}, {coq_bool(same)})")
        meta.append(dict(inp, object=name, entry=what, container=cont, dtype=dt, index=ix, columns=co, error=err,
                         result=str(out)[:300], reference=str(ref_out)[:300]))
        ctx.count("container", cont)
        ctx.count("entry", what)
        ctx.case({"o": name, "e": what, "r": list(rep), "h": hash(str(inp.get("values")))}, nontrivial=ref_out not in ([], "n/a"))
        return same

    reps = 1 if ctx.quick() else 3
    for rep_i in range(reps + 2):
        for p in (1, 2):
            n = rng.randint(36, 50) if rep_i != reps else 120
            vals = data(n, p, big=(rep_i == reps), flat=(rep_i == reps + 1))
            APPROX["on"] = (rep_i == reps)
            half = n // 2
            inp0 = {"n": n, "p": p, "values": vals.tolist()}
            dets = [("PELT", lambda: PELT(min_segment_length=2)), ("MovingWindow", lambda: MovingWindow(bandwidth=4)),
                    ("SeededBinarySegmentation", lambda: SeededBinarySegmentation(min_segment_length=3)),
                    ("CAPA", lambda: CAPA()), ("MVCAPA", lambda: MVCAPA()),
                    ("CircularBinarySegmentation", lambda: CircularBinarySegmentation(min_segment_length=3, max_interval_length=24))]
            if p == 1:
                dets.append(("StatThresholdAnomaliser", lambda: StatThresholdAnomaliser(PELT(min_segment_length=2), stat_lower=-2.0, stat_upper=2.0)))
            ref_rep = ("DataFrame", "float64", "range0", "default")
            for name, mk in dets:
                def outputs(rp):
                    X = represent(vals, *rp)
                    d = mk().fit(X)
                    pr = canon(d.predict(X))
                    tr = d.transform(X)
                    want_index = make_index(rp[2], n) if rp[0] in ("DataFrame", "Series") else pd.RangeIndex(n)
                    res = {"predict": pr, "transform": (dense_canon(tr), bool(tr.index.equals(want_index)))}
                    try:
                        sc_ = d.transform_scores(X)
                        # per-sample scores are a dense output: they must carry the input's own index
                        ix_ok = (not hasattr(sc_, "index")) or len(sc_) != n or bool(sc_.index.equals(want_index))
                        res["transform_scores"] = (scores_canon(sc_), ix_ok)
                    except NotImplementedError:
                        res["transform_scores"] = "n/a"
                    return res
                ref = outputs(ref_rep)
                ctx.case({"obj": name, "p": p, "rep": rep_i, "vals": vals.tolist()}, nontrivial=len(ref["predict"]) > 0,
                         sample={"detector": name, "p": p, "reference_predict": ref["predict"]})
                for rp in variants(p):
                    if rp == ref_rep:
                        continue
                    cache = {}

                    def get(key, rp=rp, cache=cache):
                        if "all" not in cache:
                            cache["all"] = outputs(rp)
                        return cache["all"][key]
                    for entry in ("predict", "transform", "transform_scores"):
                        if name == "MVCAPA" and entry == "transform" and rp[0] == "DataFrame" and rp[3] != "default":
                            # column labels legitimately enter the NAMES of MVCAPA's dense columns: compare the values only (dense_canon does)
                            pass
                        compare(entry, name, rp, ref[entry], lambda e=entry: get(e), inp0)
                # update: same index semantics (default RangeIndex) across containers / dtypes
                def upd(rp):
                    X1, X2 = represent(vals[:half], *rp), represent(vals[half:], *rp)
                    d = mk().fit(X1)
                    d.update(X2)
                    return canon(d.predict(represent(vals, *rp)))
                try:
                    ref_u = upd(ref_rep)
                except Exception as ex:
                    ctx.violation(f"{name}: update on the reference representation raised {type(ex).__name__}: {str(ex)[:100]}", dict(inp0, object=name),
                                  {"what": "reference", "object": name})
                    continue
                for rp in variants(p):
                    if rp == ref_rep or rp[2] != "range0":
                        continue
                    compare("update", name, rp, ref_u, lambda rp=rp: upd(rp), inp0)
            # ---- scorers ----
            scorers = [("L2Cost", lambda: L2Cost(), 2, 1), ("GaussianVarCost", lambda: GaussianVarCost(), 2, 2), ("GaussianCovCost", lambda: GaussianCovCost(), 2, p + 1),
                       ("CUSUM", lambda: CUSUM(), 3, 1), ("ChangeScore(L2Cost)", lambda: ChangeScore(L2Cost()), 3, 1), ("L2Saving", lambda: L2Saving(), 2, 1),
                       ("Saving(L2Cost(0))", lambda: Saving(L2Cost(0.0)), 2, 1), ("LocalAnomalyScore(L2Cost)", lambda: LocalAnomalyScore(L2Cost()), 4, 1),
                       ("L2Cost(2.5)", lambda: L2Cost(2.5), 2, 1), ("GaussianVarCost((0.5, 1.5))", lambda: GaussianVarCost((0.5, 1.5)), 2, 2),
                       ("Saving(L2Cost(-1.25))", lambda: Saving(L2Cost(-1.25)), 2, 1),
                       # every fixed-parameter cost, bare and wrapped: parameter validation must look at the CONVERTED data, whatever container was passed
                       ("GaussianCovCost((0.5, 1.5))", lambda: GaussianCovCost((0.5, 1.5)), 2, p + 1), ("Saving(GaussianCovCost((0, 1)))", lambda: Saving(GaussianCovCost((0.0, 1.0))), 2, p + 1),
                       ("Saving(GaussianVarCost((0, 1)))", lambda: Saving(GaussianVarCost((0.0, 1.0))), 2, 2), ("ChangeScore(GaussianVarCost)", lambda: ChangeScore(GaussianVarCost()), 3, 2),
                       ("LocalAnomalyScore(GaussianVarCost((0, 1)))", lambda: LocalAnomalyScore(GaussianVarCost((0.0, 1.0))), 4, 2)]
            for name, mk, k, ms in scorers:
                cuts = []
                for _ in range(5):
                    pts = sorted(rng.sample(range(0, n + 1, max(ms, 1)), k))
                    if all(b - a >= ms for a, b in zip(pts, pts[1:])):
                        cuts.append(pts)
                if not cuts:
                    continue
                cuts = np.asarray(cuts)
                try:
                    ref = scores_canon(mk().fit(represent(vals, *ref_rep)).evaluate(cuts))
                except RuntimeError:
                    ctx.count("scorer_reference_raised_documented_error", name)      # e.g. a singular sample covariance on the event-free data set
                    continue
                ctx.case({"obj": name, "p": p, "rep": rep_i, "cuts": cuts.tolist()}, nontrivial=True)
                for rp in variants(p):
                    if rp == ref_rep:
                        continue
                    compare("evaluate", name, rp, ref, lambda rp=rp: scores_canon(mk().fit(represent(vals, *rp)).evaluate(cuts)), dict(inp0, cuts=cuts.tolist()))
    ctx.exhaustive = True
    bad = coq_bad_cases(ctx.cid, HEADER, "c11_case", "c11_ok", cases, shard=2000)
    seen = set()
    for i in bad:
        m = meta[i]
        key = (m["object"], m["entry"], m["container"], m["columns"] if m["container"] != "ndarray2d" else "", m["error"] is not None)
        if key in seen:
            continue
        seen.add(key)
        ctx.violation(f"{m['object']}.{m['entry']} on {m['container']} / {m['dtype']} / index {m['index']} / columns {m['columns']}: "
                      f"{'raised ' + m['error'] if m['error'] else 'result ' + m['result'] + ' differs from the reference ' + m['reference']}", m,
                      {"what": "container-dependence", "object": m["object"], "entry": m["entry"], "container": m["container"],
                       "columns": m["columns"], "raises": m["error"] is not None})
    # ---- further representations of the same numbers (harness/variants.py): repeated index labels, columns sharing a label, large int64 values, a frame whose
    # ---- columns are permuted relative to the training frame, nothing detected; the caller's object is not modified and results handed out stay what they were
    from harness.variants import variants_stream
    from skchange.anomaly_detectors import CAPA as _CAPA, MVCAPA as _MVCAPA, CircularBinarySegmentation as _CBS, StatThresholdAnomaliser as _STA
    from skchange.change_detectors import PELT as _PELT, MovingWindow as _MW, SeededBinarySegmentation as _SBS
    k = ctx.n(1, 6)
    variants_stream(ctx, "PELT", lambda: _PELT(min_segment_length=2), k)
    variants_stream(ctx, "MovingWindow", lambda: _MW(bandwidth=5), k, flat_make=lambda: _MW(bandwidth=5, threshold_scale=1e6))
    variants_stream(ctx, "SeededBinarySegmentation", lambda: _SBS(min_segment_length=2), k)
    variants_stream(ctx, "CircularBinarySegmentation", lambda: _CBS(min_segment_length=2, max_interval_length=40), k, n_range=(30, 44))
    variants_stream(ctx, "CAPA", lambda: _CAPA(min_segment_length=2, max_segment_length=30), k)
    variants_stream(ctx, "MVCAPA", lambda: _MVCAPA(min_segment_length=2, max_segment_length=30), k,
                    flat_make=lambda: _MVCAPA(min_segment_length=2, collective_penalty_scale=1e6, point_penalty_scale=1e6))
    variants_stream(ctx, "StatThresholdAnomaliser", lambda: _STA(_PELT(min_segment_length=2), stat_lower=-1.0, stat_upper=1.0), k, p_choices=(1,))
