"""C02: PELT returns an exact minimiser of the penalised segmentation cost."""
import math
from functools import reduce

import numpy as np
import pandas as pd

from harness import table_scorers as ts
from harness.engine import coq_bad_cases, coq_eval, nlist, zlist, zlit, zmat

INFO = {
    "extra_targets": ["Check/PeltCheck.vo", "Check/GenericCheck.vo", "Check/FloatRunCheck.vo"],
    "level": "proof",
    "rule": "integer table costs driven through the real PELT (penalty_ set to an integer after fit): "
            "stream A = sums of per-column min-loss costs (split inequality holds by construction, checked by split_okb in Coq), "
            "stream B = arbitrary integer tables (well-formedness + model equality only), stream C = lcm-scaled squared-error cost "
            "of integer data; a case is non-trivial when it reports >= 1 changepoint or pruning removed a start; "
            "distinct by hash of (n, m, pen, table)",
    "trusted_base": ["Coq 8.16.1 kernel + vm_compute", "harness/c02.py + table_scorers.py (generators, canonicalisation)",
                     "Model/Pelt.v is hand-written: tied to pelt.py by model = implementation on every case",
                     "primitive floats (PrimFloat) under vm_compute for the binary64 streams; Flocq 4.1 for the binary64 theorems; the standard library's FloatAxioms / Uint63 axioms",
                     "binary64 twins l2_cost_F (Check/FloatKernelCheck.v) and aggF (NumPy's row sum for fewer than 8 columns = sequential from the left): hand-written, tied bit for bit "
                     "to L2Cost.evaluate (C01) and to PELT's scores from the data (from-data streams, 1..7 columns)"],
    "assumptions": ["|table values| < 2^40 so float64 sums/comparisons of the implementation are exact",
                    "split_cost = 0 (the only value the PELT class passes)"],
}

HEADER = ("From Coq Require Import ZArith List Bool.\nFrom SK Require Import Lib.Base Model.Pelt Check.PeltCheck.\n"
          "Import ListNotations.\nOpen Scope Z_scope.")


def run_impl(tabs, n, m, pen, half=False):
    """half=True: the user cost returns an INTEGER (int64) array holding tabs / 2 and the penalty is pen / 2 (a half-integer);
    the reported scores are doubled again, so that the case is compared with the same integer model instance"""
    from skchange.change_detectors import PELT
    X = pd.DataFrame(np.zeros((n, len(tabs))))
    if half:
        cost = ts.TableCost([[[v // 2 for v in r] for r in t] for t in tabs], int_dtype=True)
    else:
        cost = ts.TableCost(tabs)
    d = PELT(cost=cost, min_segment_length=m).fit(pd.DataFrame(np.zeros((len(X) + (len(X) * 7 + 3) % 5, X.shape[1]))))
    d.penalty_ = float(pen) / 2 if half else float(pen)
    scores = d.transform_scores(X).to_numpy() * (2 if half else 1)
    cpts = d.predict(X)["ilocs"].to_list()
    if not np.all(scores == np.round(scores)):
        raise RuntimeError("non-integer scores from integer tables")
    return [int(c) for c in cpts], [int(v) for v in scores]


def lcm_upto(n):
    return reduce(lambda a, b: a * b // math.gcd(a, b), range(1, n + 1), 1)


def l2_table(x):
    n = len(x)
    L = lcm_upto(n)
    cs, cs2 = [0], [0]
    for v in x:
        cs.append(cs[-1] + v)
        cs2.append(cs2[-1] + v * v)
    return [[(L * (cs2[e] - cs2[s]) - (L // (e - s)) * (cs[e] - cs[s]) ** 2 if e > s else 0) for e in range(n + 1)]
            for s in range(n + 1)], L


def gen_case(rng, stream, big):
    m = rng.choice([1, 1, 2, 2, 2, 3, 3, 4])
    n = rng.randint(2 * m, max(2 * m, (24 if big else 14)))
    p = rng.choice([1, 1, 2, 3])
    if stream == "A":
        K = rng.choice([2, 2, 3])
        hi = rng.choice([1, 2, 3, 5])
        tabs = [ts.cost_from_loss(ts.loss_table(rng, n, K, hi), n) for _ in range(p)]
        pen = rng.choice([0, 0, 1, 1, 2, 3, 5, 8])
    elif stream == "B":
        tabs = [ts.arbitrary_table(rng, n, -6, 9) for _ in range(p)]
        pen = rng.choice([0, 1, 2, 4, 7])
    else:
        n = min(n, 14)
        x = [rng.randint(-4, 4) for _ in range(n)]
        if rng.random() < 0.5:       # a genuine level shift
            c = rng.randint(1, n - 1)
            x = [v + (6 if i >= c else 0) for i, v in enumerate(x)]
        t, L = l2_table(x)
        tabs = [t]
        pen = L * rng.choice([0, 1, 2, 3, 5])
    return {"stream": stream, "n": n, "m": m, "pen": pen, "tabs": tabs}


def corpus_cases():
    # D9 witness (immediate pruning, proved in Proofs/PeltRefine.pelt_immediate_pruning_refuted)
    wloss = [[3, 0], [1, 0], [0, 1], [0, 2], [3, 0]]
    yield {"stream": "corpus-D9", "n": 5, "m": 2, "pen": 1, "tabs": [ts.cost_from_loss(wloss, 5)]}
    x = [0, -4, 1, 0, -3]
    t, L = l2_table(x)
    yield {"stream": "corpus-D9-l2", "n": 5, "m": 2, "pen": 3 * L, "tabs": [t]}


def term(c, cpts, scores):
    return ("{| pc_n := %d%%nat; pc_m := %d%%nat; pc_pen := %s; pc_tab := %s; pc_cpts := %s; pc_scores := %s |}"
            % (c["n"], c["m"], zlit(c["pen"]), zmat(ts.agg(c["tabs"])), nlist(cpts), zlist(scores)))


def run(ctx):
    N = ctx.n(450, 6000)
    cases = list(corpus_cases())
    for i in range(N):
        stream = "ABAC"[i % 4]
        cases.append(gen_case(ctx.rng, stream, big=(i % 3 == 0)))
        if i % 6 == 5 and stream in "AB":
            # integer-dtype user cost with a half-integer penalty: the doubled instance is what the model sees
            c = cases[-1]
            c["tabs"] = [[[2 * v for v in r] for r in t] for t in c["tabs"]]
            c["pen"] = 2 * c["pen"] + 1
            c["half"] = True
            c["stream"] = c["stream"] + "-int64"
    if not ctx.quick() and ctx.scale == 1:
        # exhaustive small scope: EVERY loss table over {0,1,2} with two parameter values on n = 4 samples (3^8 tables), m in {1,2}, pen in {0,1,2}
        import itertools
        for flat in itertools.product(range(3), repeat=8):
            loss = [list(flat[2 * i:2 * i + 2]) for i in range(4)]
            tab = ts.cost_from_loss(loss, 4)
            for m_, pen_ in itertools.product((1, 2), (0, 1, 2)):
                cases.append({"stream": "exhaustive-n4", "n": 4, "m": m_, "pen": pen_, "tabs": [tab]})
        ctx.notes["exhaustive_small_scope"] = "all 6561 loss tables over {0,1,2}^(4x2) x m in {1,2} x pen in {0,1,2}"
        ctx.exhaustive = True
    terms, metas = [], []
    for c in cases:
        try:
            cpts, scores = run_impl(c["tabs"], c["n"], c["m"], c["pen"], half=c.get("half", False))
        except Exception as ex:  # the real PELT must run on every valid configuration
            ctx.violation(f"PELT raised {type(ex).__name__}: {ex} on a valid table-cost input", c,
                          {"what": "exception", "class": type(ex).__name__})
            continue
        terms.append(term(c, cpts, scores))
        metas.append((c, cpts, scores))
        ctx.case({k: c[k] for k in ("n", "m", "pen", "tabs")}, nontrivial=len(cpts) > 0,
                 sample={"stream": c["stream"], "n": c["n"], "m": c["m"], "pen": c["pen"], "p": len(c["tabs"]),
                         "impl_changepoints": cpts, "impl_final_score": scores[-1]})
        ctx.count("stream", c["stream"][:6])
        ctx.count("m", c["m"])
        ctx.count("n_cpts", min(len(cpts), 5))
        ctx.count("n_bucket", c["n"] // 5 * 5)
    bad = coq_bad_cases(ctx.cid, HEADER, "pelt_case", "pelt_case_ok", terms, shard=60)
    if bad:
        exprs = []
        for i in bad[:40]:
            exprs.append(f"let c := {terms[i]} in (split_okb (tab2 (pc_tab c)) (pc_m c) (pc_n c), pelt_spec_ok c, pelt_wf_ok c, pelt_model_eq c, "
                         f"pelt (tab2 (pc_tab c)) (pc_pen c) (pc_m c) (pc_m c - 1) (pc_n c), nthZ (Proofs.PeltSpec.Ftab (tab2 (pc_tab c)) (pc_pen c) (pc_m c) (pc_n c)) (pc_n c))")
        outs = coq_eval(ctx.cid, HEADER + "\nFrom SK Require Proofs.PeltSpec.", exprs, tag="diag")
        for i, o in zip(bad[:40], outs):
            c, cpts, scores = metas[i]
            flags = o.replace("\n", " ")
            split_ok, spec_ok, wf_ok = [x.strip() for x in flags.lstrip("= (").split(",")[:3]]
            inp = {"n": c["n"], "m": c["m"], "pen": c["pen"], "tables": c["tabs"], "stream": c["stream"],
                   "impl_changepoints": cpts, "impl_scores": scores, "coq": flags[:1500]}
            prop_fails = (split_ok == "true" and spec_ok == "false") or (split_ok == "false" and wf_ok == "false")
            if prop_fails:
                ctx.violation(f"PELT output is not an exact minimiser / not well-formed: n={c['n']} m={c['m']} pen={c['pen']} "
                              f"impl cpts={cpts} final={scores[-1]} (Coq: {flags[:200]})", inp,
                              {"what": "suboptimal" if split_ok == "true" else "ill-formed", "m_ge_2": c["m"] >= 2})
            else:
                ctx.mismatch(f"PELT model <> implementation on n={c['n']} m={c['m']} pen={c['pen']}: impl cpts={cpts}", inp,
                             {"what": "model-mismatch"})
    ctx.notes["split_inequality_cases"] = sum(1 for c, _, _ in metas if c["stream"][0] in "AC" or "corpus" in c["stream"])
    # ---- object reuse: a real cost, the same detector over several series (see harness/reuse.py) ----
    from harness.reuse import reuse_stream
    from skchange.change_detectors import PELT
    from skchange.costs import GaussianVarCost, L2Cost
    reuse_stream(ctx, "PELT(L2Cost)", lambda: PELT(cost=L2Cost(), min_segment_length=2), ctx.n(6, 40))
    reuse_stream(ctx, "PELT(GaussianVarCost)", lambda: PELT(cost=GaussianVarCost(), min_segment_length=3, penalty_scale=0.5), ctx.n(4, 30))
    # ---- homogeneity: the squared-error cost of c*X is c^2 times that of X, so PELT's optimal penalised cost on c*X with penalty c^2*pen
    # ---- must be c^2 times the one on X, also for data of tiny or huge magnitude (compared on the optimal VALUE, which is tie-proof)
    for it in range(ctx.n(10, 80)):
        n = ctx.rng.randint(8, 30)
        m = ctx.rng.choice([1, 2, 3])
        x = np.asarray([[float(ctx.rng.randint(-5, 5))] for _ in range(n)])
        x[ctx.rng.randint(2, n - 2):] += ctx.rng.choice([4.0, -6.0])
        pen = ctx.rng.choice([0.0, 0.37, 2.9, 11.3])
        vals = []
        for c_ in (1.0, 1e-6, 1e5):
            d = PELT(cost=L2Cost(), min_segment_length=m).fit(pd.DataFrame(x * c_))
            d.penalty_ = pen * c_ * c_
            vals.append(float(d.transform_scores(pd.DataFrame(x * c_)).to_numpy()[-1]) / (c_ * c_))
        ctx.case({"homog": it, "x": x.tolist(), "pen": pen, "m": m}, nontrivial=True)
        if max(abs(v - vals[0]) for v in vals) > 1e-6 * (abs(vals[0]) + 1):
            ctx.violation(f"PELT(L2Cost): the optimal penalised cost of c*X with penalty c^2*pen is not c^2 times that of X: c = 1, 1e-6, 1e5 give {vals} "
                          f"(after dividing by c^2), n={n} m={m} pen={pen}", {"x": x.ravel().tolist(), "pen": pen, "m": m, "values": vals}, {"what": "homogeneity"})
    from harness import helpers as _helpers
    _helpers.pelt_helpers(ctx)
    # ---- the same search loop on BINARY64 score tables of the real built-in scorers (Model/Generic.v at Model/GenericF.v), bit for bit ----
    from harness import floatstreams
    floatstreams.pelt_float_stream(ctx, ctx.n(24, 160))
    floatstreams.gcov_many_columns_stream(ctx, "PELT(GaussianCovCost)", lambda: __import__("skchange.change_detectors", fromlist=["PELT"]).PELT(cost=__import__("skchange.costs", fromlist=["GaussianCovCost"]).GaussianCovCost(), min_segment_length=45), ctx.n(1, 3), scores_invariant=False)
    floatstreams.pelt_l2_end_to_end_stream(ctx, ctx.n(18, 120))
    floatstreams.pelt_l2_columns_end_to_end_stream(ctx, ctx.n(12, 80))
    # the DEFAULT configuration on series of realistic length and width, decided by the property-level twin of the model
    floatstreams.pelt_default_scale_stream(ctx, ctx.n(2, 10))

    # ---- glue between the user's data and the search loop (harness/variants.py) ----
    from harness.variants import variants_stream
    variants_stream(ctx, "PELT(L2Cost)", lambda: PELT(cost=L2Cost(), min_segment_length=2), ctx.n(3, 20), nested=("cost__param", 0.0))
    variants_stream(ctx, "PELT(GaussianVarCost)", lambda: PELT(cost=GaussianVarCost(), min_segment_length=3), ctx.n(2, 12))
