"""Object-reuse stream shared by the detector checks (C02, C03, C07, C08, C09).

The table scorers used by the exact correspondence ignore the data, so a detector that fails to refit its
scorer, or that returns stored scores of an earlier call, is invisible to them.  This stream drives each real
detector with a BUILT-IN scorer through a short history on two or three different series of the SAME length and
index (fit A, predict A, transform_scores A, predict B, transform_scores B, fit B, predict B, predict A, ...) and
compares every output with that of a fresh detector fitted the same way -- the property's statement "the
reported ... for this data" does not depend on what the object saw before."""
import numpy as np
import pandas as pd


def _canon(y):
    if "icolumns" in y:
        return [(int(l), int(r), sorted(int(c) for c in cc)) for l, r, cc in zip(y["ilocs"].array.left, y["ilocs"].array.right, y["icolumns"])]
    if len(y) and isinstance(y["ilocs"].iloc[0], pd.Interval):
        return [(int(l), int(r)) for l, r in zip(y["ilocs"].array.left, y["ilocs"].array.right)]
    return [int(v) for v in y["ilocs"]]


def _scores(d, X):
    try:
        y = d.transform_scores(X)
    except NotImplementedError:
        d.predict(X)
        y = getattr(d, "scores", None)
        if y is None:
            return "no scores"
    a = np.asarray(y.to_numpy() if hasattr(y, "to_numpy") else y, dtype=float)
    return [float(v).hex() for v in a.reshape(-1)]


def series(rng, n, p, k):
    out = []
    for j in range(k):
        x = np.asarray([[rng.gauss(0, 1) for _ in range(p)] for _ in range(n)])
        c = rng.randint(n // 4, 3 * n // 4)
        x[c:] += rng.choice([6.0, -8.0, 10.0]) * (1 if j % 2 == 0 else -1)
        if j == 2:
            x[:] = rng.gauss(0, 1)          # a flat series: nothing to detect
        out.append(pd.DataFrame(x))
    return out


def reuse_stream(ctx, name, make, n_hist, p_choices=(1, 2), n_range=(24, 40), tuned_make=None, other_shape=True):
    """make() -> fresh detector with a built-in scorer; tuned_make() -> variant whose threshold is tuned at fit."""
    rng = ctx.rng
    for h in range(n_hist):
        p = rng.choice(list(p_choices))
        n = rng.randint(*n_range)
        A, B, C = series(rng, n, p, 3)
        mk = tuned_make if (tuned_make is not None and h % 3 == 2) else make
        plan = [("fit", A), ("predict", A), ("scores", A), ("predict", B), ("scores", B), ("transform", B), ("fit", B), ("predict", B),
                ("scores", A), ("predict", C), ("fit", C), ("scores", B), ("predict", A)]
        if other_shape:
            # a series of ANOTHER shape (rows and columns) seen in between must leave no trace either
            Dsh = series(rng, n + rng.randint(3, 9), (p % 3) + 1, 1)[0]
            plan += [("predict", Dsh), ("scores", Dsh), ("predict", Dsh)]
        rng.shuffle(plan)
        plan = [("fit", A)] + plan
        d = mk()
        fitted_on = None
        hist = []
        for op, X in plan[: rng.randint(5, len(plan))]:
            tag = "A" if X is A else ("B" if X is B else ("C" if X is C else "D(other shape)"))
            hist.append(f"{op}({tag})")
            inp = {"detector": name, "n": n, "p": p, "history": list(hist), "A": A.to_numpy().tolist(), "B": B.to_numpy().tolist(), "C": C.to_numpy().tolist()}
            try:
                if op == "fit":
                    d.fit(X)
                    fitted_on = X
                    continue
                fresh = mk().fit(fitted_on)
                if op == "predict":
                    got, want = _canon(d.predict(X)), _canon(fresh.predict(X))
                elif op == "transform":
                    got, want = d.transform(X).to_numpy().tolist(), fresh.transform(X).to_numpy().tolist()
                else:
                    got, want = _scores(d, X), _scores(fresh, X)
            except Exception as ex:
                ctx.violation(f"{name}: {hist[-1]} raised {type(ex).__name__}: {str(ex)[:120]} in the history {hist}", inp,
                              {"what": "reuse-exception", "detector": name})
                break
            ctx.case({"reuse": name, "h": h, "i": len(hist)}, nontrivial=len(hist) > 2)
            ctx.count("reuse_op", op)
            if got != want:
                ctx.violation(f"{name}: after the history {hist} the result of {hist[-1]} differs from a freshly constructed detector fitted on the same "
                              f"training series: {str(got)[:160]} vs {str(want)[:160]}", dict(inp, got=str(got)[:400], fresh=str(want)[:400]),
                              {"what": "depends-on-earlier-calls", "detector": name, "op": op})
                break
