"""Glue stream shared by the detector checks: the property of each detector is stated for "the data X" -- the n x p numbers
in their positions.  Everything between the user's object and the search loop (validation, conversion, index / column
handling, dtype handling, buffers) must therefore be transparent.  For a real detector with a built-in scorer this stream
compares, against the plain float64 ndarray holding the same numbers:

  dup-index     a DataFrame whose (non-decreasing) index has REPEATED labels (several readings per time stamp)
  dup-columns   a DataFrame whose columns share a label (p >= 2)
  big-int       the same numbers as int64 of large magnitude (prefix sums must not be accumulated in the data's dtype)
  permuted      fit on a frame, predict on a frame with the same column labels in another ORDER: positions, not labels, count
  no-detection  nothing detected: the dense output still has the detector's own format
and checks that
  the caller's data is not modified by fit / predict / transform / transform_scores,
  results handed out earlier are not modified by later calls on other data of the same shape.
Every failure is reported with the detector, the variant and the data."""
import copy

import numpy as np
import pandas as pd

from harness.reuse import _canon


def _scores_arr(d, X):
    try:
        y = d.transform_scores(X)
    except NotImplementedError:
        d.predict(X)
        y = getattr(d, "scores", None)
        if y is None:
            return None
        y = y["score"] if isinstance(y, pd.DataFrame) and "score" in y else y
    return np.asarray(y.to_numpy() if hasattr(y, "to_numpy") else y, dtype=float).reshape(-1)


def _outputs(d, X):
    """canonical outputs of a fitted detector on X"""
    y = d.predict(X)
    t = d.transform(X)
    return {"predict": _canon(y), "labels": np.asarray(t.to_numpy()).tolist(), "label_columns": [str(c) for c in getattr(t, "columns", [t.name if hasattr(t, "name") else ""])],
            "scores": _scores_arr(d, X), "dense_index": list(t.index), "n_rows": len(t)}


def _close(a, b, rtol=1e-9):
    if a is None or b is None:
        return a is None and b is None
    a, b = np.asarray(a, dtype=float), np.asarray(b, dtype=float)
    if a.shape != b.shape:
        return False
    fin = np.isfinite(a) & np.isfinite(b)
    if not np.array_equal(np.isfinite(a), np.isfinite(b)):
        return False
    return bool(np.all(np.abs(a[fin] - b[fin]) <= rtol * (np.abs(a[fin]) + np.abs(b[fin])) + 1e-12))


def signal(rng, n, p, flat=False):
    X = np.asarray([[rng.gauss(0, 1) for _ in range(p)] for _ in range(n)])
    if not flat:
        a = rng.randint(n // 5, n // 2)
        b = rng.randint(a + max(3, n // 8), min(n - 2, a + n // 2))
        cols = [j for j in range(p) if j == 0 or rng.random() < 0.6]
        X[a:b, cols] += rng.choice([7.0, -9.0])
        if rng.random() < 0.7:
            t = rng.randrange(0, max(1, a - 2))
            X[t, rng.randrange(p)] += rng.choice([15.0, -18.0])        # an isolated spike BEFORE the shifted stretch
    return X


def variants_stream(ctx, name, make, count, p_choices=(1, 2, 3), n_range=(36, 70), integer_ok=True, flat_make=None, score_rtol=1e-9, nested=None):
    """make() -> fresh detector with a built-in scorer.  flat_make() -> a detector configured so that nothing is detected on noise.
    nested = (key, value): a NESTED hyper-parameter of the detector's scorer (e.g. "change_score__param", 0.0) that set_params must bring into effect."""
    rng = ctx.rng
    for it in range(count):
        p = rng.choice(list(p_choices))
        n = rng.randint(*n_range)
        Xn = signal(rng, n, p)
        base = {"detector": name, "n": n, "p": p, "X": Xn.tolist()}

        def fail(what, msg, extra=None):
            ctx.violation(f"{name} (n={n}, p={p}), variant {what}: {msg}", dict(base, variant=what, **(extra or {})),
                          {"what": "glue-" + what, "detector": name})

        try:
            d0 = make().fit(Xn.copy())
            ref = _outputs(d0, Xn.copy())
        except Exception as ex:
            fail("reference", f"raised {type(ex).__name__}: {str(ex)[:120]} on a plain float64 ndarray")
            continue
        ctx.case({"variants": name, "it": it, "n": n, "p": p, "x0": float(Xn[0, 0])}, nontrivial=len(ref["predict"]) > 0)
        ctx.count("variants", name)

        def same(out, what, index=None, cols_ok=True):
            if out["n_rows"] != n:
                fail(what, f"the dense output has {out['n_rows']} rows for {n} rows of data")
                return False
            if out["predict"] != ref["predict"]:
                fail(what, f"predict gives {str(out['predict'])[:160]}, the same numbers as a float64 ndarray give {str(ref['predict'])[:160]}")
                return False
            if out["labels"] != ref["labels"]:
                fail(what, "transform (dense labels) differs from that of the same numbers as a float64 ndarray")
                return False
            if not _close(out["scores"], ref["scores"], score_rtol):
                fail(what, f"scores differ from those of the same numbers as a float64 ndarray (first entries {str(out['scores'])[:100]} vs {str(ref['scores'])[:100]})")
                return False
            if index is not None and out["dense_index"] != list(index):
                fail(what, "the dense output does not carry the input's own index")
                return False
            return True

        # ---- the caller's array is not modified; a second evaluation gives the same again ----
        Xkeep = Xn.copy()
        Xuser = Xn.copy()
        try:
            d = make().fit(Xuser)
            out1 = _outputs(d, Xuser)
            if not np.array_equal(Xuser, Xkeep):
                fail("input-mutation", f"fit / predict / transform modified the caller's float64 array (max change {float(np.max(np.abs(Xuser - Xkeep)))!r})")
            else:
                same(out1, "same-array")
            Xdf = pd.DataFrame(Xkeep.copy())
            d = make().fit(Xdf)
            _outputs(d, Xdf)
            if not np.array_equal(Xdf.to_numpy(), Xkeep):
                fail("input-mutation", "fit / predict / transform modified the caller's DataFrame")
        except Exception as ex:
            fail("input-mutation", f"raised {type(ex).__name__}: {str(ex)[:120]}")
        # ---- the composite entry points are what their names say ----
        try:
            y_fp = _canon(make().fit_predict(Xn.copy()))
            if y_fp != ref["predict"]:
                fail("fit_predict", f"fit_predict(X) gives {str(y_fp)[:140]}, fit(X).predict(X) gives {str(ref['predict'])[:140]}")
            t_ft = np.asarray(make().fit_transform(Xn.copy()).to_numpy()).tolist()
            if t_ft != ref["labels"]:
                fail("fit_transform", "fit_transform(X) differs from fit(X).transform(X)")
            # update_predict(X2) on a detector fitted on X1 = predict(X2) by a detector fitted on the data combined by index (X2's rows replace / extend X1's)
            h = n // 2
            X1, X2 = pd.DataFrame(Xn[:h].copy()), pd.DataFrame(Xn.copy())
            d_up = make().fit(X1)
            y_up = _canon(d_up.update_predict(X2))
            if y_up != ref["predict"]:
                fail("update_predict", f"fit(first half).update_predict(all rows) gives {str(y_up)[:140]}, a detector fitted on all rows predicts {str(ref['predict'])[:140]}")
        except Exception as ex:
            fail("composite-entry", f"raised {type(ex).__name__}: {str(ex)[:120]}")
        # ---- a nested hyper-parameter set through the detector takes effect: the detector behaves like a fresh one built from what get_params reports ----
        if nested is not None:
            try:
                key, val = nested
                d = make()
                d.set_params(**{key: val})
                got = _outputs(d.fit(Xn.copy()), Xn.copy())
                fresh = type(d)(**d.get_params(deep=False))
                want = _outputs(fresh.fit(Xn.copy()), Xn.copy())
                base_ = _outputs(make().fit(Xn.copy()), Xn.copy())
                ctx.count("nested_param_changes_output", str(want["predict"] != base_["predict"] or not _close(want["scores"], base_["scores"], score_rtol)))
                if got["predict"] != want["predict"] or got["labels"] != want["labels"] or not _close(got["scores"], want["scores"], score_rtol):
                    fail("nested-set_params", f"after set_params({key}={val!r}) the detector gives {str(got['predict'])[:120]}, a fresh detector built from get_params() gives "
                                              f"{str(want['predict'])[:120]} (get_params reports {key} = {d.get_params().get(key)!r})")
            except Exception as ex:
                fail("nested-set_params", f"raised {type(ex).__name__}: {str(ex)[:120]}")
        # ---- results handed out earlier stay what they were ----
        try:
            d = make().fit(Xn.copy())
            y1 = d.predict(Xn.copy())
            s1 = d.transform_scores(Xn.copy()) if _has_scores(d) else None
            t1 = d.transform(Xn.copy())
            tab1 = copy.deepcopy(getattr(d, "scores", None))
            keep = (copy.deepcopy(y1), copy.deepcopy(s1), copy.deepcopy(t1))
            other = signal(rng, n, p)[::-1].copy()
            if _has_scores(d):
                d.transform_scores(other)
            d.predict(other)
            d.transform(other)
            for nm, a, b in (("predict", y1, keep[0]), ("transform_scores", s1, keep[1]), ("transform", t1, keep[2])):
                if a is not None and not a.equals(b):
                    fail("aliasing", f"the {nm} result obtained for X changed when the detector was later applied to another series of the same length")
            # ... and a detector's published score table describes the LAST call only: compare the first table with a fresh detector's
            if tab1 is not None and isinstance(tab1, pd.DataFrame):
                f = make().fit(Xn.copy())
                f.predict(Xn.copy())
                if not _close(np.asarray(tab1.select_dtypes("number"), dtype=float), np.asarray(f.scores.select_dtypes("number"), dtype=float), score_rtol):
                    fail("aliasing", "the score table published after predict(X) differs from that of a fresh detector")
        except Exception as ex:
            fail("aliasing", f"raised {type(ex).__name__}: {str(ex)[:120]}")
        # ---- ONE detector instance applied to one series after another of the same length -- a new array, the caller's own BUFFER overwritten in place, a labelled frame
        #      after an array -- and asked for its dense scores FIRST: every answer is that of a fresh detector on that series, labelled by that series ----
        try:
            other = signal(rng, n, p)[::-1].copy()
            f = make().fit(Xn.copy())
            ref_b = _outputs(f, other.copy())
            for how in ("new-array", "buffer-overwritten", "array-then-frame"):
                buf = Xn.copy()
                d = make().fit(buf)
                _outputs(d, buf)
                if how == "buffer-overwritten":
                    buf[:] = other
                    nxt = buf
                elif how == "array-then-frame":
                    nxt = pd.DataFrame(other.copy(), index=pd.date_range("2019-07-01", periods=n, freq="D"), columns=[f"c{j}" for j in range(p)])
                else:
                    nxt = other.copy()
                if _has_scores(d):
                    sc_frame = d.transform_scores(nxt)
                    sc_first = np.asarray(sc_frame.to_numpy(), dtype=float).reshape(-1)
                    if not _close(sc_first, ref_b["scores"], score_rtol):
                        fail("instance-reuse", f"({how}) transform_scores of the second series, asked for before predict, differs from a fresh detector's (first entries "
                             f"{str(sc_first[:3])} vs {str(np.asarray(ref_b['scores'])[:3])})", {"second_series": other.tolist()})
                        break
                    if isinstance(nxt, pd.DataFrame) and not sc_frame.index.equals(nxt.index):
                        fail("instance-reuse", f"({how}) transform_scores of a frame does not carry the frame's index after the detector was used on an array", {"second_series": other.tolist()})
                        break
                out_b = _outputs(d, nxt)
                if out_b["predict"] != ref_b["predict"] or out_b["labels"] != ref_b["labels"] or not _close(out_b["scores"], ref_b["scores"], score_rtol):
                    fail("instance-reuse", f"({how}) the detector applied to a second series of the same length reports {str(out_b['predict'])[:140]}, a fresh detector reports "
                         f"{str(ref_b['predict'])[:140]} (detections, dense labels and scores compared)", {"second_series": other.tolist()})
                    break
                tab_b, tab_f = getattr(d, "scores", None), getattr(f, "scores", None)
                if isinstance(tab_b, pd.DataFrame) and isinstance(tab_f, pd.DataFrame) and not _close(np.asarray(tab_b.select_dtypes("number"), dtype=float),
                                                                                                       np.asarray(tab_f.select_dtypes("number"), dtype=float), score_rtol):
                    fail("instance-reuse", f"({how}) the published score table after the second series differs from a fresh detector's", {"second_series": other.tolist()})
                    break
        except Exception as ex:
            fail("instance-reuse", f"raised {type(ex).__name__}: {str(ex)[:120]}")
        # ---- a hyper-parameter changed by plain ATTRIBUTE ASSIGNMENT (what get_params() then reports) takes effect like one passed to the constructor ----
        try:
            d = make()
            pr = d.get_params(deep=False)
            nm_hp = next((k_ for k_ in ("min_segment_length", "bandwidth", "max_segment_length", "max_interval_length", "min_detection_interval") if isinstance(pr.get(k_), int)), None)
            if nm_hp is not None:
                d.fit(Xn.copy())
                d.predict(Xn.copy())
                new_v = pr[nm_hp] + (2 if nm_hp in ("min_segment_length", "bandwidth") else -3 if nm_hp in ("max_interval_length", "max_segment_length") and pr[nm_hp] > 12 else 1)
                setattr(d, nm_hp, new_v)
                got_hp = _outputs(d.fit(Xn.copy()), Xn.copy())
                fresh = type(d)(**d.get_params(deep=False))
                want_hp = _outputs(fresh.fit(Xn.copy()), Xn.copy())
                if got_hp["predict"] != want_hp["predict"] or not _close(got_hp["scores"], want_hp["scores"], score_rtol):
                    fail("attribute-assignment", f"after `detector.{nm_hp} = {new_v}` (get_params() reports it) and a new fit the detector gives {str(got_hp['predict'])[:120]}; a "
                                                 f"detector constructed with the parameters get_params() reports gives {str(want_hp['predict'])[:120]}", {"hyper_parameter": nm_hp, "value": new_v})
        except Exception as ex:
            fail("attribute-assignment", f"raised {type(ex).__name__}: {str(ex)[:120]}")
        # ---- a 0/1 column stored as BOOL next to float columns is data like any other (the same numbers as 0.0 / 1.0) ----
        if p >= 2:
            try:
                Xb01 = Xn.copy()
                Xb01[:, -1] = (Xb01[:, -1] > np.median(Xb01[:, -1])).astype(float)
                fb = make().fit(Xb01.copy())
                ref_b01 = _outputs(fb, Xb01.copy())
                Fb = pd.DataFrame(Xb01[:, :-1].copy(), columns=[f"c{j}" for j in range(p - 1)])
                Fb["flag"] = Xb01[:, -1].astype(bool)
                db = make().fit(Fb)
                out_b01 = _outputs(db, Fb)
                if out_b01["predict"] != ref_b01["predict"] or out_b01["labels"] != ref_b01["labels"] or not _close(out_b01["scores"], ref_b01["scores"], score_rtol):
                    fail("bool-column", f"a frame whose last column is stored as bool gives {str(out_b01['predict'])[:140]}, the same numbers as float64 give {str(ref_b01['predict'])[:140]} "
                                        f"(detections, dense labels and scores compared)")
            except Exception as ex:
                fail("bool-column", f"raised {type(ex).__name__}: {str(ex)[:120]}")
        # ---- an ARRAY with more columns than rows is still rows = time: the same outcome as the frame holding the same numbers ----
        try:
            nw = rng.randint(9, 14)
            Xw = np.asarray([[rng.gauss(0, 1) for _ in range(nw + 3)] for _ in range(nw)])
            Xw[nw // 2:] += 6.0              # a level shift in the middle of the (short) series, in every column

            def _oc(f_):
                try:
                    return ("ok", f_())
                except Exception as ex_:  # noqa
                    return ("raised", type(ex_).__name__)
            def _po(o_):
                return (o_["predict"], o_["n_rows"], None if o_["scores"] is None else [round(float(v_), 9) for v_ in np.nan_to_num(np.asarray(o_["scores"], dtype=float))])
            oa = _oc(lambda: _po(_outputs(make().fit(Xw.copy()), Xw.copy())))
            of = _oc(lambda: _po(_outputs(make().fit(pd.DataFrame(Xw.copy())), pd.DataFrame(Xw.copy()))))
            if oa != of:
                fail("wide-array", f"a {nw} x {nw + 3} ndarray gives {str(oa)[:120]}, the frame holding the same numbers gives {str(of)[:120]}", {"wide": Xw.tolist()})
        except Exception as ex:
            fail("wide-array", f"raised {type(ex).__name__}: {str(ex)[:120]}")
        # ---- repeated index labels ----
        for kind in ("int-repeats", "datetime-repeats"):
            lab = np.sort(np.asarray([rng.randrange(0, n // 2) for _ in range(n)]))
            idx = pd.Index(lab) if kind == "int-repeats" else pd.DatetimeIndex(pd.Timestamp("2024-01-01") + pd.to_timedelta(lab, unit="h"))
            try:
                idx = idx.rename("time")
                Xd = pd.DataFrame(Xn.copy(), index=idx)
                d = make().fit(Xd)
                out = _outputs(d, Xd)
                same(out, "dup-index:" + kind, index=idx)
                t_named = d.transform(Xd)
                if Xd.index.name != "time" or t_named.index.name != "time":
                    fail("index-name", f"the index of X is called 'time': after predict / transform the caller's index is called {Xd.index.name!r} and the dense output's {t_named.index.name!r}")
            except Exception as ex:
                fail("dup-index:" + kind, f"raised {type(ex).__name__}: {str(ex)[:120]} (sktime accepts a non-decreasing index with repeated labels)")
        # ---- columns sharing a label ----
        if p >= 2:
            try:
                Xd = pd.DataFrame(Xn.copy(), columns=["a"] * p)
                d = make().fit(Xd)
                y = d.predict(Xd)
                sc = _scores_arr(d, Xd)
                if _canon(y) != ref["predict"] or not _close(sc, ref["scores"], score_rtol):
                    fail("dup-columns", f"predict / scores on a frame whose {p} columns share one label differ from those of the plain array: {str(_canon(y))[:120]} vs {str(ref['predict'])[:120]}")
                for attr in ("threshold_", "penalty_", "collective_penalty_", "point_penalty_"):
                    if hasattr(d0, attr) and np.isscalar(getattr(d0, attr)) and not _close([getattr(d, attr)], [getattr(d0, attr)]):
                        fail("dup-columns", f"{attr} = {getattr(d, attr)!r} on a frame whose {p} columns share one label, {getattr(d0, attr)!r} on the plain array")
            except Exception as ex:
                fail("dup-columns", f"raised {type(ex).__name__}: {str(ex)[:120]}")
        # ---- the same numbers as int64 of large magnitude ----
        if integer_ok:
            try:
                Xi = (np.round(Xn * 1e3) * 1e5 + 2e8).astype(np.int64)
                Xf = Xi.astype(np.float64)
                df_, di_ = make().fit(Xf), make().fit(Xi)
                of, oi = _outputs(df_, Xf), _outputs(di_, Xi)
                if oi["predict"] != of["predict"] or not _close(oi["scores"], of["scores"], 1e-6):
                    fail("big-int", f"int64 data of magnitude 2e8 give {str(oi['predict'])[:120]}, the same numbers as float64 give {str(of['predict'])[:120]} "
                                    f"(scores {str(oi['scores'])[:80]} vs {str(of['scores'])[:80]})", {"X_int": Xi.tolist()})
            except Exception as ex:
                fail("big-int", f"raised {type(ex).__name__}: {str(ex)[:120]}")
        # ---- fitted on a frame, applied to a frame with the same labels in another order: positions count ----
        if p >= 2:
            try:
                names = [f"c{j}" for j in range(p)]
                perm = list(range(p))
                while perm == list(range(p)):
                    rng.shuffle(perm)
                X1 = pd.DataFrame(Xn.copy(), columns=names)
                X2 = X1[[names[j] for j in perm]]
                d = make().fit(X1)
                got = _outputs(d, X2)
                X2own = pd.DataFrame(Xn[:, perm].copy(), columns=[names[j] for j in perm])
                f = make().fit(X2own)
                want = _outputs(f, X2own)
                if got["label_columns"] != want["label_columns"]:
                    fail("permuted-columns", f"fitted on columns {names}, transform of the frame with columns {[names[j] for j in perm]} has columns {got['label_columns']}; a detector "
                                             f"fitted on that frame itself gives {want['label_columns']}: the dense output is labelled by the frame that is SCORED", {"perm": perm})
                elif got["predict"] != want["predict"] or got["labels"] != want["labels"]:
                    fail("permuted-columns", f"fitted on columns {names}, applied to the frame with columns {[names[j] for j in perm]}: {str(got['predict'])[:140]} but the numbers in "
                                             f"those positions give {str(want['predict'])[:140]}", {"perm": perm})
            except Exception as ex:
                fail("permuted-columns", f"raised {type(ex).__name__}: {str(ex)[:120]}")
        # ---- nothing detected: the dense output keeps the detector's own format ----
        if flat_make is not None:
            try:
                Xq = pd.DataFrame(signal(rng, n, p, flat=True), columns=[f"v{j}" for j in range(p)])
                d = flat_make().fit(Xq)
                y = d.predict(Xq)
                t = d.transform(Xq)
                want = d.sparse_to_dense(y, Xq.index, Xq.columns)
                want = want if isinstance(want, pd.DataFrame) else want.to_frame()
                t = t if isinstance(t, pd.DataFrame) else t.to_frame()
                ctx.count("variants_no_detection", "empty" if len(y) == 0 else "non-empty")
                if t.shape != want.shape or [str(c) for c in t.columns] != [str(c) for c in want.columns] or not np.array_equal(t.to_numpy(), want.to_numpy()):
                    fail("no-detection", f"transform has shape {t.shape} / columns {list(t.columns)[:4]} but sparse_to_dense(predict) has shape {want.shape} / columns {list(want.columns)[:4]} "
                                         f"({len(y)} detections)")
            except Exception as ex:
                fail("no-detection", f"raised {type(ex).__name__}: {str(ex)[:120]}")


def _has_scores(d):
    try:
        d.transform_scores
    except AttributeError:
        return False
    return type(d).__name__ not in ("SeededBinarySegmentation", "CircularBinarySegmentation", "StatThresholdAnomaliser")
