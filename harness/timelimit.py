"""A wall-clock limit for calls into the implementation: a call that does not return (e.g. a search loop that never
terminates) becomes a reportable outcome instead of a hung check."""
import contextlib
import signal


class Hang(Exception):
    pass


@contextlib.contextmanager
def time_limit(seconds):
    def handler(signum, frame):
        raise Hang(f"no result after {seconds} s")
    old = signal.signal(signal.SIGALRM, handler)
    signal.setitimer(signal.ITIMER_REAL, seconds)
    try:
        yield
    finally:
        signal.setitimer(signal.ITIMER_REAL, 0)
        signal.signal(signal.SIGALRM, old)
