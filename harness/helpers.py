"""Unit-level correspondence: every helper function of the detectors against the model function it is modelled by, called
DIRECTLY with small exhaustive or random integer inputs (the detector-level streams exercise them only through the reachable
states of the search loops).  Each function returns nothing; violations go to ctx."""
import itertools

import numpy as np

from harness.engine import coq_bad_cases, coq_bool, coq_list, nlist, pairs_nat, zlist, zlit

H = ("From Coq Require Import ZArith List Bool Arith.\nFrom SK Require Import Lib.Base Model.Pelt Model.Capa Model.Sbs Model.Cbs Model.Mw.\n"
     "Import ListNotations.\nOpen Scope Z_scope.\n"
     "Definition peqb (a b : nat * nat) := (fst a =? fst b)%nat && (snd a =? snd b)%nat.\n"
     "Definition pairs_eqb (a b : list (nat * nat)) := (length a =? length b)%nat && forallb (fun xy => peqb (fst xy) (snd xy)) (combine a b).\n")


def mw_helpers(ctx):
    from skchange.change_detectors.moving_window import get_moving_window_changepoints
    from skchange.utils.numba.general import where
    L = 9 if ctx.quick() else 12
    cases = []
    for n in range(0, L + 1):
        for bits in itertools.product([0, 1], repeat=n):
            impl = [(int(a), int(b)) for a, b in where(np.asarray(bits, dtype=bool))]
            cases.append(f"({coq_list([coq_bool(b) for b in bits])}, {pairs_nat(impl)})")
            ctx.case({"where": bits}, nontrivial=any(bits))
    hdr = H + "Definition c_ok (c : list bool * list (nat * nat)) : bool := pairs_eqb (where_runs (fst c)) (snd c)."
    for i in coq_bad_cases(ctx.cid, hdr, "list bool * list (nat * nat)", "c_ok", cases, shard=1500, tag="where")[:5]:
        ctx.violation(f"where(indicator) is not the list of maximal runs of True: case {cases[i][:200]}", {"case": cases[i]}, {"what": "helper", "fn": "where"})
    ctx.notes["where_exhaustive"] = f"all boolean arrays of length 0..{L}"
    cases, meta = [], []
    rng = ctx.rng
    for _ in range(ctx.n(300, 3000)):
        n = rng.randint(1, 14)
        sc = [rng.choice([0, 0, 1, 2, 2, 3, 5, -1]) for _ in range(n)]
        thr = rng.choice([-1, 0, 1, 2, 4])
        mdi = rng.choice([1, 1, 2, 3, 5])
        impl = [int(v) for v in get_moving_window_changepoints(np.asarray(sc, dtype=float), float(thr), mdi)]
        cases.append(f"({zlist(sc)}, {zlit(thr)}, {mdi}%nat, {nlist(impl)})")
        meta.append({"scores": sc, "threshold": thr, "min_detection_interval": mdi, "impl": impl})
        ctx.case({"gmwc": sc, "thr": thr, "mdi": mdi}, nontrivial=len(impl) > 0)
    hdr = H + "Definition c_ok (c : list Z * Z * nat * list nat) : bool := let '(sc, thr, mdi, impl) := c in eqb_listN (mw_cpts sc thr mdi) impl."
    for i in coq_bad_cases(ctx.cid, hdr, "list Z * Z * nat * list nat", "c_ok", cases, shard=1500, tag="gmwc")[:5]:
        ctx.violation(f"get_moving_window_changepoints{tuple(meta[i][k] for k in ('scores', 'threshold', 'min_detection_interval'))} = {meta[i]['impl']}: not the first maxima of "
                      f"the maximal above-threshold runs of at least min_detection_interval positions", meta[i], {"what": "helper", "fn": "get_moving_window_changepoints"})


def sbs_helpers(ctx):
    from skchange.change_detectors.seeded_binseg import greedy_changepoint_selection
    rng = ctx.rng
    cases, meta = [], []
    for _ in range(ctx.n(300, 3000)):
        k = rng.randint(1, 7)
        ivs = []
        for _i in range(k):
            s = rng.randint(0, 8)
            ivs.append((s, s + rng.randint(2, 7)))
        maxs = [rng.randint(s + 1, e - 1) for s, e in ivs]
        scores = [rng.choice([0, 1, 2, 3, 3, 5, 7]) for _ in ivs]       # ties are frequent
        thr = rng.choice([0, 1, 2, 4])
        impl = [int(c) for c in greedy_changepoint_selection(np.asarray(scores, dtype=float), np.asarray(maxs), np.asarray([a for a, _ in ivs]),
                                                              np.asarray([b for _, b in ivs]), float(thr))]
        cases.append(f"({zlit(thr)}, {pairs_nat(ivs)}, {nlist(maxs)}, {zlist(scores)}, {nlist(impl)})")
        meta.append({"threshold": thr, "intervals": ivs, "maximizers": maxs, "scores": scores, "impl": impl})
        ctx.case({"greedy": [thr, ivs, maxs, scores]}, nontrivial=len(impl) > 0)
    hdr = H + ("Definition c_ok (c : Z * list (nat * nat) * list nat * list Z * list nat) : bool := let '(thr, ivs, maxs, sc, impl) := c in\n"
               "  match greedy_cpts (length ivs) thr ivs maxs sc with Some picks => eqb_listN (sort_nat picks) impl | None => false end.")
    for i in coq_bad_cases(ctx.cid, hdr, "Z * list (nat * nat) * list nat * list Z * list nat", "c_ok", cases, shard=1500, tag="greedy")[:5]:
        ctx.violation(f"greedy_changepoint_selection on {meta[i]} is not the greedy procedure of the property (highest score first, first index on ties, discard every interval "
                      f"containing the chosen point)", meta[i], {"what": "helper", "fn": "greedy_changepoint_selection"})


def cbs_helpers(ctx):
    from skchange.anomaly_detectors.circular_binseg import greedy_anomaly_selection
    rng = ctx.rng
    cases, meta = [], []
    for _ in range(ctx.n(300, 3000)):
        k = rng.randint(1, 7)
        ivs, inner = [], []
        for _i in range(k):
            s = rng.randint(0, 8)
            e = s + rng.randint(3, 8)
            a = rng.randint(s + 1, e - 2)
            ivs.append((s, e))
            inner.append((a, rng.randint(a + 1, e - 1)))
        scores = [rng.choice([0, 1, 2, 3, 3, 5, 7]) for _ in ivs]
        thr = rng.choice([0, 1, 2, 4])
        impl = [(int(a), int(b)) for a, b in greedy_anomaly_selection(np.asarray(scores, dtype=float), np.asarray([a for a, _ in inner]), np.asarray([b for _, b in inner]),
                                                                      np.asarray([a for a, _ in ivs]), np.asarray([b for _, b in ivs]), float(thr))]
        cases.append(f"({zlit(thr)}, {pairs_nat(ivs)}, {pairs_nat(inner)}, {zlist(scores)}, {pairs_nat(impl)})")
        meta.append({"threshold": thr, "candidates": ivs, "inner": inner, "scores": scores, "impl": impl})
        ctx.case({"greedya": [thr, ivs, inner, scores]}, nontrivial=len(impl) > 0)
    hdr = H + ("Definition c_ok (c : Z * list (nat * nat) * list (nat * nat) * list Z * list (nat * nat)) : bool := let '(thr, ivs, inner, sc, impl) := c in\n"
               "  match greedy_anoms (length ivs) thr ivs inner sc with Some picks => pairs_eqb (sort_pairs picks) impl | None => false end.")
    for i in coq_bad_cases(ctx.cid, hdr, "Z * list (nat * nat) * list (nat * nat) * list Z * list (nat * nat)", "c_ok", cases, shard=1500, tag="greedya")[:5]:
        ctx.violation(f"greedy_anomaly_selection on {meta[i]} is not the greedy procedure of the property (highest score first, discard every candidate overlapping the pick)",
                      meta[i], {"what": "helper", "fn": "greedy_anomaly_selection"})


def pelt_helpers(ctx):
    from skchange.change_detectors.pelt import get_changepoints
    rng = ctx.rng
    cases, meta = [], []
    for _ in range(ctx.n(300, 3000)):
        n = rng.randint(1, 16)
        prev = [0] + [rng.randint(0, t) for t in range(1, n)]       # prev[t] <= t: start of the last segment of the prefix ending at t
        impl = [int(c) for c in get_changepoints(np.asarray(prev))]
        cases.append(f"({nlist(prev)}, {nlist(impl)})")
        meta.append({"prev_cpts": prev, "impl": impl})
        ctx.case({"prev": prev}, nontrivial=len(impl) > 0)
    hdr = H + "Definition c_ok (c : list nat * list nat) : bool := eqb_listN (changepoints (fst c) (length (fst c))) (snd c)."
    for i in coq_bad_cases(ctx.cid, hdr, "list nat * list nat", "c_ok", cases, shard=1500, tag="getcp")[:5]:
        ctx.violation(f"get_changepoints({meta[i]['prev_cpts']}) = {meta[i]['impl']}: not the chain of last-segment starts followed back from the last observation",
                      meta[i], {"what": "helper", "fn": "get_changepoints"})

    # ---- run_pelt called directly (a public module-level function): the result must not depend on the Python TYPE of the penalty (int, np.int64, float) ----
    from skchange.change_detectors.pelt import run_pelt
    from skchange.costs import GaussianVarCost, L2Cost
    for it in range(ctx.n(12, 80)):
        n = rng.randint(8, 40)
        m = rng.choice([1, 2, 3])
        x = np.asarray([[rng.gauss(0, 1)] for _ in range(n)])
        x[rng.randint(2, n - 2):] += rng.choice([2.5, -3.5])
        pen = rng.choice([0, 1, 2, 4, 7])
        mk = L2Cost if (it % 2 == 0 or m < 2) else GaussianVarCost
        ref_s, ref_c = run_pelt(x, mk(), float(pen), m)
        ctx.case({"run_pelt_penalty_type": it, "n": n, "m": m, "pen": pen, "x0": float(x[0, 0])}, nontrivial=len(ref_c) > 0)
        for tag, pv in (("int", int(pen)), ("np.int64", np.int64(pen)), ("np.float32", np.float32(pen))):
            try:
                s_, c_ = run_pelt(x, mk(), pv, m)
            except Exception as ex:
                ctx.violation(f"run_pelt(X, {mk.__name__}(), penalty={tag}({pen}), {m}) raised {type(ex).__name__}: {str(ex)[:100]}", {"X": x.ravel().tolist(), "penalty": pen, "m": m},
                              {"what": "helper", "fn": "run_pelt", "penalty_type": tag})
                continue
            if [int(v) for v in c_] != [int(v) for v in ref_c] or not np.allclose(np.asarray(s_, dtype=float), np.asarray(ref_s, dtype=float), rtol=1e-12, atol=1e-12):
                ctx.violation(f"run_pelt(X, {mk.__name__}(), penalty={tag}({pen}), min_segment_length={m}): changepoints {[int(v) for v in c_]} / scores differ from those for the same "
                              f"penalty given as a float ({[int(v) for v in ref_c]}): the optimal-cost table must not take its dtype from the penalty",
                              {"X": x.ravel().tolist(), "penalty": pen, "m": m, "penalty_type": tag}, {"what": "helper", "fn": "run_pelt", "penalty_type": tag})


def capa_helpers(ctx):
    from skchange.anomaly_detectors.mvcapa import get_anomalies, penalise_savings
    rng = ctx.rng
    cases, meta = [], []
    for _ in range(ctx.n(300, 3000)):
        p = rng.choice([1, 2, 3, 4, 5])
        rows = [[rng.randint(0, 9) for _ in range(p)] for _ in range(rng.randint(1, 4))]
        alpha = rng.choice([0, 1, 3, 7])
        kind = rng.choice(["zero", "equal", "incr", "decr", "any", "ends-equal"])
        betas = {"zero": [0] * p, "equal": [rng.choice([1, 2, 4])] * p, "incr": sorted(rng.randint(0, 5) for _ in range(p)),
                 "decr": sorted((rng.randint(0, 5) for _ in range(p)), reverse=True), "any": [rng.randint(0, 5) for _ in range(p)],
                 "ends-equal": [2] + [rng.randint(0, 6) for _ in range(max(0, p - 2))] + ([2] if p > 1 else [])}[kind]
        impl = penalise_savings(np.asarray(rows, dtype=float), float(alpha), np.asarray(betas, dtype=float))
        if not np.all(impl == np.round(impl)):
            ctx.violation("penalise_savings returned non-integer values on integer input", {"savings": rows, "alpha": alpha, "betas": betas}, {"what": "helper", "fn": "penalise_savings"})
            continue
        cases.append(f"({coq_list([zlist(r) for r in rows])}, {zlit(alpha)}, {zlist(betas)}, {zlist([int(v) for v in impl])})")
        meta.append({"savings": rows, "alpha": alpha, "betas": betas, "impl": [int(v) for v in impl]})
        ctx.case({"pen": [rows, alpha, betas]}, nontrivial=True)
        ctx.count("penalise_betas", kind)
    hdr = H + "Definition c_ok (c : list (list Z) * Z * list Z * list Z) : bool := let '(rows, alpha, betas, impl) := c in eqb_listZ (map (fun r => penalise r alpha betas) rows) impl."
    for i in coq_bad_cases(ctx.cid, hdr, "list (list Z) * Z * list Z * list Z", "c_ok", cases, shard=1500, tag="pen")[:5]:
        ctx.violation(f"penalise_savings{(meta[i]['savings'], meta[i]['alpha'], meta[i]['betas'])} = {meta[i]['impl']}: not the penalised saving of the model (all-tiny / all-equal / "
                      f"sorted cumulative branch)", meta[i], {"what": "helper", "fn": "penalise_savings"})
    cases, meta = [], []
    for _ in range(ctx.n(300, 3000)):
        n = rng.randint(1, 14)
        starts = [rng.choice([None, None, rng.randint(0, t)]) for t in range(n)]
        arr = np.asarray([np.nan if s is None else float(s) for s in starts])
        coll, pts = get_anomalies(arr)
        coll, pts = [(int(a), int(b)) for a, b in coll], [(int(a), int(b)) for a, b in pts]
        opt = coq_list(["None" if s is None else f"(Some {s}%nat)" for s in starts])
        cases.append(f"({opt}, {pairs_nat(coll)}, {pairs_nat(pts)})")
        meta.append({"opt_anomaly_starts": starts, "collective": coll, "point": pts})
        ctx.case({"ga": starts}, nontrivial=len(coll) + len(pts) > 0)
    hdr = H + ("Definition c_ok (c : list (option nat) * list (nat * nat) * list (nat * nat)) : bool := let '(st, coll, pts) := c in\n"
               "  let '(mc, mp) := get_anoms (length st) st (length st) in pairs_eqb mc coll && pairs_eqb mp pts.")
    for i in coq_bad_cases(ctx.cid, hdr, "list (option nat) * list (nat * nat) * list (nat * nat)", "c_ok", cases, shard=1500, tag="getan")[:5]:
        ctx.violation(f"get_anomalies({meta[i]['opt_anomaly_starts']}) = {(meta[i]['collective'], meta[i]['point'])}: not the backtracking of the model", meta[i],
                      {"what": "helper", "fn": "get_anomalies"})
