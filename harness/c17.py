"""C17: StatThresholdAnomaliser flags exactly the out-of-range segments."""
import numpy as np
import pandas as pd

from harness.c05 import INDEX_KINDS, make_index
from harness.engine import coq_bad_cases, nlist, pairs_nat, zlist, zlit

INFO = {
    "extra_targets": ["Check/AnomaliserCheck.vo"],
    "level": "proof",
    "rule": "StatThresholdAnomaliser around (a) a stub ChangeDetector returning a prescribed changepoint list (none, 1, n-1, adjacent, many) and "
            "(b) PELT / MovingWindow / SeededBinarySegmentation on integer univariate data, with integer statistics (sum, max, min, len, first) and "
            "integer bounds lo <= hi so that every comparison is exact; the real predict must equal the Coq model and the model's specification "
            "(exactly the flagged segments, each its own interval); mean / median are compared with a direct Python computation on data with a "
            "decision margin; every case also checks that the user's detector object is left unfitted and unchanged while a clone is fitted; "
            "index kinds as in C05; non-trivial = at least one flagged segment",
    "trusted_base": ["Coq 8.16.1 kernel + vm_compute", "harness/c17.py (stub detector, integer statistics, generators)",
                     "Model/Anomaliser.v hand-written; pandas groupby / concat (platform)"],
    "assumptions": ["univariate data; lo <= hi; the statistic is a deterministic function of the segment's values"],
}
HEADER = ("From Coq Require Import ZArith List Arith Bool.\nFrom SK Require Import Lib.Base Model.Anomaliser Check.AnomaliserCheck.\n"
          "Import ListNotations.\nOpen Scope Z_scope.")

STATS = {"StSum": lambda v: float(np.sum(v)), "StMax": lambda v: float(np.max(v)), "StMin": lambda v: float(np.min(v)),
         "StLen": lambda v: float(len(v)), "StFirst": lambda v: float(v[0])}


def stat_sum(v):
    return float(np.sum(v))


def stat_max(v):
    return float(np.max(v))


def stat_min(v):
    return float(np.min(v))


def stat_len(v):
    return float(len(v))


def stat_first(v):
    return float(v[0])


def stat_second_largest(v):
    """axis-sensitive: sorts the segment as a 1-D sample"""
    w = np.sort(v)[::-1]
    return float(w[1] if len(w) > 1 else w[0])


STAT_FN = {"StSum": stat_sum, "StMax": stat_max, "StMin": stat_min, "StLen": stat_len, "StFirst": stat_first, "StSecondLargest": stat_second_largest}


def run(ctx):
    from skchange.anomaly_detectors import StatThresholdAnomaliser
    from skchange.change_detectors import PELT, MovingWindow, SeededBinarySegmentation
    from skchange.change_detectors.base import ChangeDetector

    class StubCD(ChangeDetector):
        def __init__(self, cpts=None):
            self.cpts = cpts
            super().__init__()

        def _fit(self, X, y=None):
            return self

        def _predict(self, X):
            return ChangeDetector._format_sparse_output(list(self.cpts))

    rng = ctx.rng
    cases, meta = [], []

    def one(inner, inner_name, x, stat, lo, hi, ik, cpts_known=None):
        n = len(x)
        X = pd.DataFrame(np.asarray(x, dtype=float), index=make_index(ik, n), columns=["v"])
        inp = {"inner": inner_name, "x": [int(v) for v in x], "stat": stat, "stat_lower": lo, "stat_upper": hi, "index": ik}
        before = inner.get_params()
        try:
            a = StatThresholdAnomaliser(inner, STAT_FN[stat], float(lo), float(hi))
            a.fit(X)
            out = a.predict(X)
            cp = [int(v) for v in a.change_detector_.predict(X)["ilocs"]] if cpts_known is None else list(cpts_known)
            ref = inner.clone().fit(X).predict(X)
            cp_ref = [int(v) for v in ref["ilocs"]]
        except Exception as ex:
            ctx.violation(f"StatThresholdAnomaliser({inner_name}) raised {type(ex).__name__}: {str(ex)[:120]}", inp,
                          {"what": "exception", "cls": type(ex).__name__, "index": ik})
            return
        impl = [(int(l), int(r)) for l, r in zip(out["ilocs"].array.left, out["ilocs"].array.right)]
        inp.update({"changepoints_of_wrapped_detector": cp, "impl_anomalies": [list(t) for t in impl]})
        if cp != cp_ref:
            ctx.violation(f"the clone fitted inside the anomaliser reports changepoints {cp}, the same detector fitted directly reports {cp_ref}",
                          inp, {"what": "inner-differs", "inner": inner_name})
        untouched = (not getattr(inner, "_is_fitted", False)) and a.change_detector_ is not inner and a.change_detector is inner \
            and str(inner.get_params()) == str(before)
        if not untouched:
            ctx.violation(f"the wrapped detector passed by the user was fitted or altered (is_fitted={getattr(inner, '_is_fitted', None)})", inp,
                          {"what": "user-detector-touched", "inner": inner_name})
        frame_ok = isinstance(out.index, pd.RangeIndex) and list(out["labels"]) == list(range(1, len(impl) + 1)) \
            and (len(impl) == 0 or out["ilocs"].array.closed == "left")
        if not frame_ok:
            ctx.violation("anomaliser output frame is not in the documented sparse format", inp, {"what": "frame"})
        cases.append("{| ac_n := %d%%nat; ac_cpts := %s; ac_xs := %s; ac_stat := %s; ac_lo := %s; ac_hi := %s; ac_impl := %s |}"
                     % (n, nlist(cp), zlist(x), stat, zlit(lo), zlit(hi), pairs_nat(impl)))
        meta.append(inp)
        ctx.case({k: v for k, v in inp.items()}, nontrivial=len(impl) > 0,
                 sample={"inner": inner_name, "n": n, "changepoints": cp, "stat": stat, "bounds": [lo, hi], "anomalies": [list(t) for t in impl]})
        ctx.count("inner", inner_name)
        ctx.count("stat", stat)
        ctx.count("n_flagged", min(len(impl), 4))
        ctx.count("adjacent_flagged", any(a_[1] == b_[0] for a_, b_ in zip(impl, impl[1:])))

    # corpus: adjacent flagged segments; everything flagged; nothing flagged; boundary segments
    one(StubCD([2, 4]), "stub", [5, 5, 7, 7, 0, 0], "StFirst", 1, 6, "range0")
    one(StubCD([2, 4]), "stub", [5, 5, 7, 7, 0, 0], "StFirst", 1, 6, "range5")
    one(StubCD([1, 5]), "stub", [9, 0, 0, 0, 0, 9], "StMax", -1, 3, "datetime")
    one(StubCD([]), "stub", [4, 4, 4], "StSum", 0, 5, "range0")
    N = ctx.n(220, 2500)
    for i in range(N):
        n = rng.randint(1, 12) if i % 3 else rng.randint(8, 30)
        k = rng.choice([0, 1, 2, 3, 5])
        cp = sorted(rng.sample(range(1, n), min(k, n - 1))) if n > 1 else []
        if cp and rng.random() < 0.4:
            j = rng.randrange(len(cp))
            if cp[j] + 1 < n and cp[j] + 1 not in cp:
                cp = sorted(cp + [cp[j] + 1])          # a segment of length 1
        x = [rng.randint(-4, 4) for _ in range(n)]
        stat = rng.choice(list(STAT_FN))
        lo = rng.randint(-5, 3)
        hi = lo + rng.randint(0, 5)
        ik = rng.choice(INDEX_KINDS) if i % 2 else "range0"
        one(StubCD(cp), "stub", x, stat, lo, hi, ik, cpts_known=cp)
    for i in range(ctx.n(24, 200)):
        n = rng.randint(24, 50)
        x = [0] * n
        for c in sorted(rng.sample(range(4, n - 4), rng.choice([1, 2, 3]))):
            sh = rng.choice([-9, 8, 12])
            for t in range(c, n):
                x[t] += sh
        x = [v + rng.randint(-1, 1) for v in x]
        mk = rng.choice([("PELT", lambda: PELT(min_segment_length=2)), ("MovingWindow", lambda: MovingWindow(bandwidth=3)),
                         ("SeededBinarySegmentation", lambda: SeededBinarySegmentation(min_segment_length=2))])
        stat = rng.choice(["StSum", "StMax", "StMin", "StFirst"])
        lo = rng.randint(-12, 2)
        one(mk[1](), mk[0], x, stat, lo, lo + rng.randint(0, 14), rng.choice(INDEX_KINDS))
    bad = coq_bad_cases(ctx.cid, HEADER, "an_case", "an_case_ok", cases, shard=150)
    for i in bad[:30]:
        m = meta[i]
        ctx.violation(f"StatThresholdAnomaliser({m['inner']}): reported anomalies {m['impl_anomalies']} are not exactly the segments of changepoints "
                      f"{m['changepoints_of_wrapped_detector']} whose {m['stat']} lies outside [{m['stat_lower']}, {m['stat_upper']}] "
                      f"(x={m['x']}, index {m['index']})", m, {"what": "flagged-segments", "inner": m["inner"]})

    # ---- mean / median (the library defaults) against a direct computation, with a decision margin ----
    for i in range(ctx.n(40, 400)):
        n = rng.randint(2, 25)
        k = rng.choice([0, 1, 2, 3])
        cp = sorted(rng.sample(range(1, n), min(k, n - 1)))
        x = np.asarray([rng.choice([-3.0, -0.5, 0.25, 2.0, 5.5]) + rng.choice([0.0, 0.125]) for _ in range(n)])
        lo, hi = sorted([rng.choice([-2.1, -1.0, 0.05, 0.9]), rng.choice([0.07, 1.1, 2.6, 4.2])])
        for nm, fn in [("mean", np.mean), ("median", np.median)]:
            X = pd.DataFrame(x, columns=["v"])
            out = StatThresholdAnomaliser(StubCD(cp), fn, lo, hi).fit(X).predict(X)
            impl = [(int(l), int(r)) for l, r in zip(out["ilocs"].array.left, out["ilocs"].array.right)]
            bounds = [0] + cp + [n]
            segs = list(zip(bounds[:-1], bounds[1:]))
            vals = [float(fn(x[s:e])) for s, e in segs]
            if any(min(abs(v - lo), abs(v - hi)) < 1e-9 for v in vals):
                continue
            want = [se for se, v in zip(segs, vals) if v < lo or v > hi]
            ctx.case({"float": nm, "x": x.tolist(), "cp": cp, "lo": lo, "hi": hi}, nontrivial=len(want) > 0)
            if impl != want:
                ctx.violation(f"StatThresholdAnomaliser(stat=np.{nm}): reported {impl}, flagged segments are {want} (changepoints {cp}, bounds {lo}, {hi})",
                              {"x": x.tolist(), "changepoints": cp, "stat": nm, "stat_lower": lo, "stat_upper": hi, "impl": [list(t) for t in impl]},
                              {"what": "flagged-segments", "stat": nm})

    # ---- order statistics of NON-DYADIC data with bounds taken from the same values (a statistic exactly ON a bound is inside: the test is strict) and
    # ---- one-sided ranges (an infinite bound): decided by the two comparisons of the definition, nothing else
    vals_nd = [0.2, -1.0, 0.7, 0.1, 1.3, -0.3, 2.6]
    for i in range(ctx.n(60, 500)):
        n = rng.randint(2, 25)
        k = rng.choice([0, 1, 2, 3, 4])
        cp = sorted(rng.sample(range(1, n), min(k, n - 1)))
        x = np.asarray([rng.choice(vals_nd) for _ in range(n)])
        lo, hi = sorted([rng.choice(vals_nd), rng.choice(vals_nd)])
        r = rng.random()
        if r < 0.2:
            lo = -np.inf
        elif r < 0.4:
            hi = np.inf
        # ... and statistics that are UNDEFINED (NaN) on some segments -- the sample standard deviation of a one-sample segment, the logarithm of a negative mean: a NaN is
        # neither below the lower nor above the upper bound, so such a segment is not flagged
        nm, fn = rng.choice([("max", np.max), ("min", np.min), ("first", lambda v: v[0]), ("sample-std", lambda v: np.std(v, ddof=1)), ("log-mean", lambda v: np.log(np.mean(v)))])
        X = pd.DataFrame(x, columns=["v"])
        try:
            import warnings as _w
            with _w.catch_warnings(), np.errstate(all="ignore"):
                _w.simplefilter("ignore")
                out = StatThresholdAnomaliser(StubCD(cp), fn, lo, hi).fit(X).predict(X)
        except Exception as ex:
            ctx.violation(f"StatThresholdAnomaliser(stat={nm}, bounds ({lo}, {hi})) raised {type(ex).__name__}: {str(ex)[:100]}",
                          {"x": x.tolist(), "changepoints": cp, "stat": nm, "stat_lower": float(lo), "stat_upper": float(hi)}, {"what": "exception", "stat": nm})
            continue
        impl = [(int(l), int(r_)) for l, r_ in zip(out["ilocs"].array.left, out["ilocs"].array.right)]
        bounds = [0] + cp + [n]
        segs = list(zip(bounds[:-1], bounds[1:]))
        with _w.catch_warnings(), np.errstate(all="ignore"):
            _w.simplefilter("ignore")
            svals = [float(fn(x[s_:e_])) for s_, e_ in segs]
        want = [se for se, v in zip(segs, svals) if v < lo or v > hi]
        if any(v != v for v in svals):
            ctx.count("statistic", "NaN on some segment")
        ctx.case({"nondyadic": nm, "x": x.tolist(), "cp": cp, "lo": float(lo), "hi": float(hi)}, nontrivial=len(want) > 0)
        ctx.count("bound_kind", "one-sided" if np.isinf(lo) or np.isinf(hi) else ("tie-on-bound" if any(v in (lo, hi) for v in svals) else "two-sided"))
        if impl != want:
            ctx.violation(f"StatThresholdAnomaliser(stat={nm}): reported {impl}, the segments whose statistic is < {lo} or > {hi} are {want} (changepoints {cp}, statistics {svals})",
                          {"x": x.tolist(), "changepoints": cp, "stat": nm, "stat_lower": float(lo), "stat_upper": float(hi), "impl": [list(t) for t in impl]},
                          {"what": "flagged-segments", "stat": nm})

    # ---- histories: fit, reconfigure the user's detector object, fit again: the second fit must clone the CURRENT configuration ----
    for i in range(ctx.n(20, 150)):
        n = rng.randint(30, 50)
        x = np.asarray([rng.gauss(0, 1) for _ in range(n)])
        for c in sorted(rng.sample(range(6, n - 6), 2)):
            x[c:] += rng.choice([-7.0, 6.0, 9.0])
        X = pd.DataFrame(x, columns=["v"])
        kind = rng.choice(["PELT", "MovingWindow", "stub"])
        if kind == "PELT":
            inner, reconf = PELT(min_segment_length=2, penalty_scale=rng.choice([0.05, 1.0])), {"penalty_scale": rng.choice([50.0, 0.01])}
        elif kind == "MovingWindow":
            inner, reconf = MovingWindow(bandwidth=3, threshold_scale=rng.choice([0.1, 1.0])), {"threshold_scale": rng.choice([40.0, 0.01])}
        else:
            inner, reconf = StubCD([5, 12]), {"cpts": [rng.randint(2, 10), rng.randint(15, 25)]}
        lo, hi = -1.5, 1.5
        inp = {"inner": kind, "reconfigure": str(reconf), "x": x.tolist()}
        try:
            a = StatThresholdAnomaliser(inner, np.mean, lo, hi).fit(X)
            first = a.predict(X)
            inner.set_params(**reconf)
            a.fit(X)
            out = a.predict(X)
            fresh = StatThresholdAnomaliser(inner.clone(), np.mean, lo, hi).fit(X).predict(X)
            cp = [int(v) for v in inner.clone().fit(X).predict(X)["ilocs"]]
        except Exception as ex:
            ctx.violation(f"StatThresholdAnomaliser history raised {type(ex).__name__}: {str(ex)[:120]}", inp, {"what": "exception", "cls": type(ex).__name__, "history": True})
            continue
        got = [(int(l), int(r)) for l, r in zip(out["ilocs"].array.left, out["ilocs"].array.right)]
        want = [(int(l), int(r)) for l, r in zip(fresh["ilocs"].array.left, fresh["ilocs"].array.right)]
        bounds = [0] + cp + [n]
        direct = [(s, e) for s, e in zip(bounds[:-1], bounds[1:]) if not (lo <= float(np.mean(x[s:e])) <= hi)]
        ctx.case({"hist": i, "kind": kind, "x": x.tolist()}, nontrivial=len(want) > 0)
        ctx.count("history", kind)
        if got != want or got != direct:
            ctx.violation(f"StatThresholdAnomaliser({kind}) refitted after the wrapped detector was reconfigured ({reconf}) reports {got}; the segments of the "
                          f"current configuration's changepoints {cp} that are out of range are {direct}", dict(inp, got=got, fresh=want, changepoints=cp),
                          {"what": "flagged-segments", "history": "refit-after-reconfigure", "inner": kind})
        if getattr(inner, "_is_fitted", False):
            ctx.violation("the wrapped detector passed by the user was fitted", inp, {"what": "user-detector-touched", "inner": kind})

    from harness.variants import variants_stream
    from skchange.anomaly_detectors import StatThresholdAnomaliser as _STA
    from skchange.change_detectors import PELT as _PELT, MovingWindow as _MW, SeededBinarySegmentation as _SBS
    from skchange.costs import GaussianVarCost as _GV
    variants_stream(ctx, "StatThresholdAnomaliser(PELT(GaussianVarCost))", lambda: _STA(_PELT(cost=_GV(), min_segment_length=3), stat_lower=-1.0, stat_upper=1.0),
                    ctx.n(3, 16), p_choices=(1,), flat_make=lambda: _STA(_PELT(cost=_GV(), min_segment_length=3), stat_lower=-1e9, stat_upper=1e9))
    variants_stream(ctx, "StatThresholdAnomaliser(MovingWindow(GaussianVarCost), np.median)", lambda: _STA(_MW(change_score=_GV(), bandwidth=5, threshold_scale=1.0), stat=np.median, stat_lower=-1.0, stat_upper=1.0),
                    ctx.n(2, 10), p_choices=(1,))
    variants_stream(ctx, "StatThresholdAnomaliser(SeededBinarySegmentation(CUSUM))", lambda: _STA(_SBS(min_segment_length=2), stat_lower=-1.0, stat_upper=1.0),
                    ctx.n(2, 10), p_choices=(1,))
