"""C10: results depend only on hyper-parameters, training data and the input."""
import copy

import numpy as np
import pandas as pd

from harness.c12 import canon
from harness.engine import coq_bad_cases, coq_bool, coq_list, nlist

INFO = {
    "extra_targets": ["Check/ObjectsCheck.vo"],
    "level": "proof",
    "rule": "random histories (length 8..30) of NewS / NewD / set_params (own and nested) / clone / scorer fit / evaluate / detector fit / update / predict / "
            "transform / transform_scores over 2-4 detectors (PELT, MovingWindow, SeededBinarySegmentation, CircularBinarySegmentation, tuned and untuned) that "
            "SHARE cost objects, on a pool of datasets of different n and p: (1) the Python twin of Model/Objects.step is replayed inside Coq on every history "
            "(outputs and final state summary must be equal), (2) every real output must equal the output of a FRESH object built from the dependency tuple the "
            "model assigns to that operation (current hyper-parameters, data of the last fit combined with updates, argument), (3) NotFittedError exactly where the "
            "model says, fitted flags and hyper-parameters of every object must equal the model's final state, caller data and hyper-parameters are never modified; "
            "a separate stream mutates a shared scorer's hyper-parameter behind a fitted, tuned detector (the explicit limit of the theorem); non-trivial = history "
            "with at least one observing operation on a fitted detector after an interfering operation",
    "trusted_base": ["Coq 8.16.1 kernel + vm_compute", "harness/c10.py (history generator, Python twin -- validated in Coq on every case --, fresh-object oracle)",
                     "sktime reset / clone / set_params (platform)"],
    "assumptions": ["'the data given to the last fit' of a shared scorer object is the last fit applied to that object by anyone (a detector's predict refits "
                    "the user's scorer in place): made explicit in the model",
                    "updates use data with the same columns as the training data (otherwise pandas combine_first introduces missing values and fit raises)"],
}
HEADER = ("From Coq Require Import List Arith Bool.\nFrom SK Require Import Lib.Base Model.Objects Check.ObjectsCheck.\nImport ListNotations.")

SPARAMS = {0: None, 1: 0.0, 2: 1.5}
KINDS = ["PELT", "MW", "SBS", "CBS"]
# hyper-parameter settings per kind: id -> (kwargs, tunes)
DPARAMS = {
    "PELT": {0: (dict(min_segment_length=2, penalty_scale=1.0), False), 1: (dict(min_segment_length=3, penalty_scale=0.4), False)},
    "MW": {0: (dict(bandwidth=3, threshold_scale=1.0, level=0.01), False), 1: (dict(bandwidth=4, threshold_scale=None, level=0.1), True)},
    "SBS": {0: (dict(min_segment_length=2, threshold_scale=0.8, level=0.01), False), 1: (dict(min_segment_length=3, threshold_scale=None, level=0.2), True)},
    "CBS": {0: (dict(min_segment_length=2, max_interval_length=14, threshold_scale=0.5, level=0.01), False),
            1: (dict(min_segment_length=2, max_interval_length=10, threshold_scale=None, level=0.2), True)},
}
SCORER_ARG = {"PELT": "cost", "MW": "change_score", "SBS": "change_score", "CBS": "anomaly_score"}
OBS = ["Predict", "Transform", "TransformScores"]


def dterm_coq(t):
    return f"(Raw {t[1]})" if t[0] == "Raw" else f"(Comb {dterm_coq(t[1])} {dterm_coq(t[2])})"


class Twin:
    """Python twin of Model/Objects.step (validated in Coq on every history)."""

    def __init__(self):
        self.S, self.D = [], []

    def sparams(self, refs):
        return [self.S[r]["param"] for r in refs]

    def do_fit(self, i, D):
        d = self.D[i]
        sp = self.sparams(d["refs"])
        if d["tunes"]:
            for r in d["refs"]:
                self.S[r]["fit"] = D
        d["fit"] = {"params": d["params"], "sparams": sp, "data": D}
        d["X"] = D

    def step(self, o):
        k = o[0]
        if k == "NewS":
            self.S.append({"param": o[1], "fit": None})
            return ("ONew", len(self.S) - 1)
        if k == "NewD":
            self.D.append({"params": o[1], "tunes": o[2], "refs": list(o[3]), "fit": None, "X": None})
            return ("ONew", len(self.D) - 1)
        if k == "SetD":
            d = self.D[o[1]]
            d.update(params=o[2], tunes=o[3], fit=None, X=None)
            return ("ONone",)
        if k == "SetNested":
            d = self.D[o[1]]
            r = d["refs"][o[2]]
            self.S[r] = {"param": o[3], "fit": None}
            d.update(fit=None, X=None)
            return ("ONone",)
        if k == "SetS":
            self.S[o[1]] = {"param": o[2], "fit": None}
            return ("ONone",)
        if k == "CloneS":
            self.S.append({"param": self.S[o[1]]["param"], "fit": None})
            return ("ONew", len(self.S) - 1)
        if k == "CloneD":
            d = self.D[o[1]]
            n0 = len(self.S)
            for p in self.sparams(d["refs"]):
                self.S.append({"param": p, "fit": None})
            self.D.append({"params": d["params"], "tunes": d["tunes"], "refs": list(range(n0, n0 + len(d["refs"]))), "fit": None, "X": None})
            return ("ONew", len(self.D) - 1)
        if k == "FitS":
            self.S[o[1]]["fit"] = ("Raw", o[2])
            return ("ONone",)
        if k == "EvalS":
            s = self.S[o[1]]
            return ("OEval", s["param"], s["fit"], o[2]) if s["fit"] is not None else ("ONotFitted",)
        if k == "FitD":
            self.do_fit(o[1], ("Raw", o[2]))
            return ("ONone",)
        if k == "UpdateD":
            d = self.D[o[1]]
            if d["fit"] is None:
                return ("ONotFitted",)
            self.do_fit(o[1], ("Comb", ("Raw", o[2]), d["X"]))
            return ("ONone",)
        if k == "Observe":
            d = self.D[o[2]]
            if d["fit"] is None:
                return ("ONotFitted",)
            out = ("ODet", o[1], d["params"], self.sparams(d["refs"]), copy.deepcopy(d["fit"]), o[3])
            for r in d["refs"]:
                self.S[r]["fit"] = ("Raw", o[3])
            return out
        raise KeyError(k)


def op_coq(o):
    k = o[0]
    if k == "NewS":
        return f"NewS {o[1]}"
    if k == "NewD":
        return f"NewD {o[1]} {coq_bool(o[2])} {nlist(o[3])}"
    if k == "SetD":
        return f"SetD {o[1]} {o[2]} {coq_bool(o[3])}"
    if k == "SetNested":
        return f"SetNested {o[1]} {o[2]} {o[3]}"
    if k in ("SetS", "FitS", "EvalS"):
        return f"{k} {o[1]} {o[2]}"
    if k in ("CloneS", "CloneD"):
        return f"{k} {o[1]}"
    if k == "FitD":
        return f"FitD {o[1]} (Raw {o[2]})"
    if k == "UpdateD":
        return f"UpdateD {o[1]} {o[2]}"
    return f"Observe {o[1]} {o[2]} {o[3]}"


def out_coq(r):
    k = r[0]
    if k in ("ONone", "ONotFitted"):
        return k
    if k == "ONew":
        return f"(ONew {r[1]})"
    if k == "OEval":
        return f"(OEval {r[1]} {dterm_coq(r[2])} {r[3]})"
    fr = r[4]
    return (f"(ODet {r[1]} {r[2]} {nlist(r[3])} {{| f_params := {fr['params']}; f_sparams := {nlist(fr['sparams'])}; "
            f"f_data := {dterm_coq(fr['data'])} |}} {r[5]})")


def run(ctx):
    from sklearn.exceptions import NotFittedError as SkNotFitted  # noqa
    from skchange.anomaly_detectors import CircularBinarySegmentation
    from skchange.change_detectors import PELT, MovingWindow, SeededBinarySegmentation
    from skchange.costs import L2Cost
    try:
        from sktime.exceptions import NotFittedError
    except Exception:  # pragma: no cover
        NotFittedError = SkNotFitted
    CLS = {"PELT": PELT, "MW": MovingWindow, "SBS": SeededBinarySegmentation, "CBS": CircularBinarySegmentation}
    rng = ctx.rng
    nprng = np.random.default_rng(ctx.seed + 10)

    def dataset(n, p):
        x = nprng.normal(size=(n, p))
        a = int(nprng.integers(4, n - 8))
        x[a:a + 5] += nprng.choice([5.0, -6.0])
        return pd.DataFrame(np.round(x, 3), columns=[f"v{j}" for j in range(p)])

    # pairs of series share their length (and index): a stale cache keyed on shape or index cannot hide
    pool = {p: [dataset(nn, p) for nn in (30, 30, 38, 38)] for p in (1, 2)}
    # data ids: 0..3 -> p = 1, 4..7 -> p = 2
    DATA = pool[1] + pool[2]
    frozen = [d.copy(deep=True) for d in DATA]

    def realize(t):
        if t[0] == "Raw":
            return DATA[t[1]]
        return realize(t[1]).combine_first(realize(t[2]))

    def make_det(kind, pid, scorer):
        kw, _ = DPARAMS[kind][pid]
        return CLS[kind](**{SCORER_ARG[kind]: scorer}, **kw)

    def observe(det, ob, X):
        if ob == "Predict":
            return ("predict", canon(det.predict(X)))
        if ob == "Transform":
            y = det.transform(X)
            return ("transform", y.to_numpy().tolist(), bool(y.index.equals(X.index)))
        try:
            y = det.transform_scores(X)
        except NotImplementedError:
            det.predict(X)
            y = det.scores
        return ("scores", [float(v).hex() for v in np.asarray(y.to_numpy(), dtype=float).reshape(-1)])

    CUTS = {p: np.asarray([[0, 5], [3, 11], [2, 20]]) for p in (1, 2)}
    cases, meta = [], []
    H = ctx.n(150, 1500)
    # corpus: the explicit limit of the theorem (C10_stale_nested_parameter_possible) replayed on the real objects:
    # a tuned detector is fitted, then the shared cost's hyper-parameter is changed through the cost object itself
    CORPUS = [[("NewS", 1), ("NewD", 1, True, [0], kind, 1), ("FitD", 0, 0), ("SetS", 0, 0), ("Observe", "Predict", 0, 1)]
              for kind in ("MW", "SBS", "CBS")]
    for h in range(-len(CORPUS), H):
        stale_stream = (h % 9 == 8) or h < 0
        scripted = list(CORPUS[h + len(CORPUS)]) if h < 0 else None
        twin = Twin()
        ops, outs = [], []
        real_S, real_D, kind_D, p_D = [], [], [], []
        hist_inp = {"history": []}
        ok = True
        interesting = False
        L = rng.randint(8, 30) if scripted is None else len(scripted)
        step_i = 0
        while step_i < L and ok:
            step_i += 1
            if scripted is not None:
                o = scripted[step_i - 1]
                if o[0] == "NewD":
                    o_kind, o_p, o = o[4], o[5], o[:4]
                k = "scripted"
            # ---- choose an operation ----
            choices = ["x"] if scripted is not None else []
            if len(real_S) < 3:
                choices += ["NewS"] * 3
            if real_S and len(real_D) < 4:
                choices += ["NewD"] * 4
            if real_D:
                choices += ["FitD"] * 5 + ["Observe"] * 8 + ["UpdateD"] * 2 + ["SetD"] + ["CloneD"] + ["SetNested"]
            if real_S:
                choices += ["FitS", "EvalS", "EvalS", "CloneS", "SetS"]
            k = rng.choice(choices) if scripted is None else "scripted"
            if k == "scripted":
                pass
            elif k == "NewS":
                o = ("NewS", rng.choice([0, 0, 1, 2]))
            elif k == "NewD":
                kind = rng.choice(KINDS)
                pid = rng.choice([0, 1])
                o = ("NewD", pid, DPARAMS[kind][pid][1], [rng.randrange(len(real_S))])
                o_kind, o_p = kind, rng.choice([1, 2])
            elif k in ("FitD", "UpdateD"):
                i = rng.randrange(len(real_D))
                o = (k, i, rng.choice([0, 1, 2, 3]) + (4 if p_D[i] == 2 else 0))
            elif k == "Observe":
                i = rng.randrange(len(real_D))
                x = rng.randrange(8) if rng.random() < 0.3 else rng.choice([0, 1, 2, 3]) + (4 if p_D[i] == 2 else 0)
                o = ("Observe", rng.choice(OBS), i, x)
            elif k == "SetD":
                i = rng.randrange(len(real_D))
                pid = rng.choice([0, 1])
                o = ("SetD", i, pid, DPARAMS[kind_D[i]][pid][1])
            elif k == "CloneD":
                if len(real_D) >= 5:
                    continue
                o = ("CloneD", rng.randrange(len(real_D)))
            elif k == "CloneS":
                if len(real_S) >= 6:
                    continue
                o = ("CloneS", rng.randrange(len(real_S)))
            elif k in ("SetNested", "SetS"):
                if k == "SetNested":
                    i = rng.randrange(len(real_D))
                    r = twin.D[i]["refs"][0]
                    o = ("SetNested", i, 0, rng.choice([0, 1, 2]))
                    others = [j for j, d in enumerate(twin.D) if j != i and r in d["refs"] and d["fit"] is not None]
                else:
                    r = rng.randrange(len(real_S))
                    o = ("SetS", r, rng.choice([0, 1, 2]))
                    others = [j for j, d in enumerate(twin.D) if r in d["refs"] and d["fit"] is not None]
                if others and not stale_stream:
                    continue            # well-behaved stream: never change a scorer's hyper-parameter behind a fitted detector
            elif k == "FitS":
                o = ("FitS", rng.randrange(len(real_S)), rng.randrange(8))
            else:
                o = ("EvalS", rng.randrange(len(real_S)), 0)
            # ---- model (twin) ----
            r_model = twin.step(o)
            ops.append(o)
            outs.append(r_model)
            hist_inp["history"].append(op_coq(o))
            # ---- implementation ----
            inp = dict(hist_inp, failing_operation=op_coq(o), model_output=str(r_model)[:300])
            try:
                kk = o[0]
                real = None
                if kk == "NewS":
                    real_S.append(L2Cost(param=SPARAMS[o[1]]))
                elif kk == "NewD":
                    real_D.append(make_det(o_kind, o[1], real_S[o[3][0]]))
                    kind_D.append(o_kind)
                    p_D.append(o_p)
                elif kk == "SetD":
                    real_D[o[1]].set_params(**DPARAMS[kind_D[o[1]]][o[2]][0])
                elif kk == "SetNested":
                    real_D[o[1]].set_params(**{SCORER_ARG[kind_D[o[1]]] + "__param": SPARAMS[o[3]]})
                elif kk == "SetS":
                    real_S[o[1]].set_params(param=SPARAMS[o[2]])
                elif kk == "CloneS":
                    real_S.append(real_S[o[1]].clone())
                elif kk == "CloneD":
                    c = real_D[o[1]].clone()
                    real_D.append(c)
                    kind_D.append(kind_D[o[1]])
                    p_D.append(p_D[o[1]])
                    real_S.append(getattr(c, SCORER_ARG[kind_D[o[1]]]))
                elif kk == "FitS":
                    real_S[o[1]].fit(DATA[o[2]])
                elif kk == "EvalS":
                    try:
                        real = ("eval", [float(v).hex() for v in real_S[o[1]].evaluate(CUTS[1]).reshape(-1)])
                    except NotFittedError:
                        real = "NotFitted"
                elif kk == "FitD":
                    real_D[o[1]].fit(DATA[o[2]])
                elif kk == "UpdateD":
                    try:
                        real_D[o[1]].update(DATA[o[2]])
                    except NotFittedError:
                        real = "NotFitted"
                else:
                    try:
                        real = observe(real_D[o[2]], o[1], DATA[o[3]])
                    except NotFittedError:
                        real = "NotFitted"
            except Exception as ex:
                ctx.violation(f"history step {op_coq(o)} raised {type(ex).__name__}: {str(ex)[:160]}", inp,
                              {"what": "exception", "op": o[0], "cls": type(ex).__name__})
                ok = False
                break
            # ---- compare with the model's verdict ----
            if (r_model[0] == "ONotFitted") != (real == "NotFitted"):
                ctx.violation(f"{op_coq(o)}: implementation {'raised NotFittedError' if real == 'NotFitted' else 'returned a result'}, "
                              f"model says {r_model[0]}", inp, {"what": "fitted-state", "op": o[0]})
                ok = False
                break
            if r_model[0] == "ODet":
                _, ob, params, sparams, fr, x = r_model
                kind = kind_D[o[2]]
                stale = fr["sparams"] != sparams
                fresh = make_det(kind, params, L2Cost(param=SPARAMS[sparams[0]]))
                fresh.fit(realize(fr["data"]))
                want = observe(fresh, ob, DATA[x])
                interesting = interesting or len(ops) > 4
                if real != want:
                    if stale:
                        ctx.violation(f"{kind}: a nested scorer hyper-parameter was changed after the detector was fitted; {ob} still uses fitted values computed "
                                      f"from the old hyper-parameter: output differs from a fresh object with the current hyper-parameters fitted the same way",
                                      dict(inp, real=str(real)[:300], fresh=str(want)[:300]),
                                      {"what": "stale-nested-hyperparameter", "detector": kind, "tuned": DPARAMS[kind][params][1]})
                    else:
                        ctx.violation(f"{kind}.{ob} after this history differs from a fresh object with the same hyper-parameters fitted on the same data: "
                                      f"{str(real)[:200]} vs {str(want)[:200]}", dict(inp, real=str(real)[:400], fresh=str(want)[:400]),
                                      {"what": "history-dependence", "detector": kind, "entry": ob})
                    ok = False
                    break
            if r_model[0] == "OEval":
                _, sp, D, _c = r_model
                Xf = realize(D)
                want = ("eval", [float(v).hex() for v in L2Cost(param=SPARAMS[sp]).fit(Xf).evaluate(CUTS[1]).reshape(-1)])
                if real != want:
                    ctx.violation(f"evaluate on scorer {o[1]} differs from a fresh scorer with the same hyper-parameter fitted on the data of its last fit",
                                  dict(inp, real=str(real)[:300], fresh=str(want)[:300]), {"what": "history-dependence", "entry": "evaluate"})
                    ok = False
                    break
        if not ok:
            continue
        # ---- final state: fitted flags and hyper-parameters ----
        sd = [(d["params"], d["fit"] is not None) for d in twin.D]
        ss = [(s["param"], s["fit"] is not None) for s in twin.S]
        real_sd = []
        for i, d in enumerate(real_D):
            kw = DPARAMS[kind_D[i]]
            pid = [q for q in kw if all(d.get_params(deep=False).get(a) == b for a, b in kw[q][0].items())]
            real_sd.append((pid[0] if pid else -1, bool(d._is_fitted)))
        real_ss = [([q for q in SPARAMS if SPARAMS[q] == s.param][0], bool(s._is_fitted)) for s in real_S]
        if real_sd != sd or real_ss != ss:
            ctx.violation(f"final object state differs from the model: detectors (params, fitted) {real_sd} vs {sd}; scorers {real_ss} vs {ss}",
                          hist_inp, {"what": "final-state"})
            continue
        if any(not a.equals(b) for a, b in zip(DATA, frozen)):
            ctx.violation("a caller's data frame was modified in place by the history", hist_inp, {"what": "caller-data-modified"})
            continue
        pl = lambda L_: coq_list([f"({a}, {coq_bool(b)})" for a, b in L_])
        cases.append(f"({coq_list([op_coq(o) for o in ops])}, {coq_list([out_coq(r) for r in outs])}, ({pl(sd)}, {pl(ss)}))")
        meta.append(hist_inp)
        ctx.case({"h": hist_inp["history"]}, nontrivial=interesting, sample={"history": hist_inp["history"][:12], "outputs": [r[0] for r in outs][:12]})
        ctx.count("length", min(len(ops) // 5 * 5, 30))
        ctx.count("stream", "stale" if stale_stream else "well-behaved")
        for o in ops:
            ctx.count("op", o[0])
    bad = coq_bad_cases(ctx.cid, HEADER, "hist_case", "hist_ok", cases, shard=60)
    for i in bad[:10]:
        ctx.mismatch("the Python twin of Model/Objects.step disagrees with the Coq model on this history", meta[i], {"what": "twin-vs-model"})
    wrapper_stream(ctx, DATA)
    adapter_model_stream(ctx, DATA)
    # detectors outside the state-machine model (CAPA, MVCAPA, the anomaliser): plain reuse histories against fresh objects
    from harness.reuse import reuse_stream
    from skchange.anomaly_detectors import CAPA, MVCAPA, StatThresholdAnomaliser
    reuse_stream(ctx, "CAPA", lambda: CAPA(min_segment_length=2), ctx.n(8, 60))
    reuse_stream(ctx, "MVCAPA", lambda: MVCAPA(min_segment_length=2), ctx.n(6, 40), p_choices=(2, 3))
    capa_params_stream(ctx)
    cross_instance_stream(ctx)
    hyperparams_and_input_untouched_stream(ctx)
    shared_component_stream(ctx)
    entry_points_and_buffers_stream(ctx)
    reuse_stream(ctx, "StatThresholdAnomaliser(PELT)", lambda: StatThresholdAnomaliser(PELT(min_segment_length=2), stat_lower=-1.0, stat_upper=1.0), ctx.n(4, 30),
                 p_choices=(1,), other_shape=False)


def cross_instance_stream(ctx):
    """State must not leak BETWEEN instances: two detectors of one class with different hyper-parameters are used one after the other in this process; the second one's
    result is compared with the result of the same configuration computed in a FRESH interpreter (harness/isolated.py), where no other instance ever existed."""
    import json
    import subprocess
    import sys
    from harness import isolated
    from harness.engine import REPO, VERIF
    rng = ctx.rng
    pairs = [("PELT", {"min_segment_length": 2}, {"min_segment_length": 5}),
             ("MovingWindow", {"bandwidth": 3}, {"bandwidth": 7}),
             ("SeededBinarySegmentation", {"min_segment_length": 2, "max_interval_length": 40}, {"min_segment_length": 5, "max_interval_length": 40}),
             ("SeededBinarySegmentation", {"growth_factor": 1.5}, {"growth_factor": 2.0}),
             ("CircularBinarySegmentation", {"min_segment_length": 2, "max_interval_length": 40}, {"min_segment_length": 5, "max_interval_length": 40}),
             ("CircularBinarySegmentation", {"min_segment_length": 3, "max_interval_length": 30}, {"min_segment_length": 3, "max_interval_length": 60}),
             ("CAPA", {"min_segment_length": 2, "max_segment_length": 10}, {"min_segment_length": 4, "max_segment_length": 30}),
             ("MVCAPA", {"min_segment_length": 2, "max_segment_length": 10}, {"min_segment_length": 4, "max_segment_length": 30})]
    for rep in range(ctx.n(2, 8)):
        n = rng.randint(50, 80)
        X = np.asarray([[rng.gauss(0, 1)] for _ in range(n)])
        a = rng.randint(10, 25)
        X[a:a + rng.randint(5, 9)] += 8.0
        X[n - 20:n - 12] -= 7.0
        X[n // 2:n // 2 + 3] += 6.0          # a SHORT event (3 samples): shorter than the larger min_segment_length of each pair
        try:
            proc = subprocess.run([sys.executable, "-m", "harness.isolated"], input=json.dumps({"X": X.tolist(), "configs": [[nm, kb] for nm, _, kb in pairs] + [[nm, ka] for nm, ka, _ in pairs]}),
                                  capture_output=True, text=True, timeout=600, env=dict(__import__("os").environ, PYTHONPATH=f"{REPO}:{VERIF}", PYTHONWARNINGS="ignore"), cwd=VERIF)
            alone = json.loads(proc.stdout[proc.stdout.index("["):])
        except Exception as ex:
            ctx.mismatch(f"the isolated reference run failed: {type(ex).__name__}: {str(ex)[:200]}", {"stderr": getattr(locals().get('proc'), 'stderr', '')[-400:]}, {"what": "isolated-run"})
            return
        for i_, (nm, ka, kb) in enumerate(pairs):
            want_b, want_a = alone[i_], alone[len(pairs) + i_]
            inp = {"detector": nm, "first_instance": ka, "second_instance": kb, "X": X.tolist()}
            try:
                got_a = isolated.run_one(nm, ka, X)
                got_b = isolated.run_one(nm, kb, X)
                got_a2 = isolated.run_one(nm, ka, X)
            except Exception as ex:
                ctx.violation(f"{nm}: using {ka} and then {kb} raised {type(ex).__name__}: {str(ex)[:120]}", inp, {"what": "exception", "op": "cross-instance", "cls": type(ex).__name__})
                continue
            ctx.case({"cross": nm, "rep": rep, "kb": str(kb)}, nontrivial=len(want_b[0]) > 0)
            ctx.count("cross_instance", nm)
            # (this process has used many other instances before: whichever configuration came first, every instance must behave as in a fresh interpreter)
            for which, kw, got, want in (("first", ka, got_a, want_a), ("second", kb, got_b, want_b), ("first again", ka, got_a2, want_a)):
                if got != want:
                    ctx.violation(f"{nm}({kw}) used next to other instances of {nm} ({ka} / {kb}) in one process reports {str(got[0])[:140]}; the same configuration in a fresh "
                                  f"interpreter reports {str(want[0])[:140]} (detections and published scores compared): state leaks between instances", dict(inp, which=which, got=got, alone=want),
                                  {"what": "state-shared-between-instances", "detector": nm})
                    break


def _params_fingerprint(est):
    """canonical text of get_params(deep=True): nested estimators by class name, arrays by value"""
    out = []
    for k, v in sorted(est.get_params(deep=True).items()):
        if hasattr(v, "get_params"):
            v = type(v).__name__
        elif isinstance(v, np.ndarray):
            v = ("ndarray", v.tolist())
        elif callable(v):
            v = getattr(v, "__name__", "callable")
        out.append(f"{k}={v!r}")
    return "; ".join(out)


def hyperparams_and_input_untouched_stream(ctx):
    """Using a detector neither rewrites its hyper-parameters nor the caller's data object: get_params() is the same before and after fit / predict / transform /
    transform_scores (so that a re-fit on ANOTHER series behaves like a fresh detector: "results depend only on hyper-parameters, training data, input"), and the frame passed
    in keeps its values, its column labels and its (named) index.  Defaults are used where the default is LARGER than the series (max_interval_length = 1000 / 200)."""
    from harness import isolated
    rng = ctx.rng
    configs = [("PELT", {}), ("MovingWindow", {"bandwidth": 5}), ("SeededBinarySegmentation", {}), ("CircularBinarySegmentation", {}),
               ("CircularBinarySegmentation", {"max_interval_length": 60, "min_segment_length": 3}), ("CAPA", {}), ("MVCAPA", {}), ("CAPA", {"max_segment_length": 500})]
    for rep in range(ctx.n(2, 8)):
        nA, nB = rng.randint(30, 45), rng.randint(90, 130)
        A = np.asarray([[rng.gauss(0, 1)] for _ in range(nA)])
        A[10:16] += 7.0
        B = np.asarray([[rng.gauss(0, 1)] for _ in range(nB)])
        B[40:95] += 6.0                         # one LONG event: longer than series A
        for nm, kw in configs:
            inp = {"detector": nm, "hyper_parameters": kw, "A": A.tolist(), "B": B.tolist()}
            d = isolated.build(nm, kw)
            fp0 = _params_fingerprint(d)
            FA = pd.DataFrame(A.copy(), index=pd.date_range("2020-05-01", periods=nA, freq="h", name="timestamp"), columns=["level"])
            keep = (FA.to_numpy().copy(), list(FA.columns), FA.index.copy(), FA.index.name)
            ctx.case({"untouched": nm, "rep": rep, "kw": str(kw)}, nontrivial=True)
            ctx.count("hyperparams_untouched", nm)
            bad = None
            try:
                for step in ["fit", "predict", "transform", "transform_scores", "fit_predict"]:
                    try:
                        getattr(d, step)(FA)
                    except NotImplementedError:
                        continue
                    if _params_fingerprint(d) != fp0:
                        bad = (f"{nm}({kw}): get_params() after {step} on a series of {nA} rows is [{_params_fingerprint(d)[:300]}], at construction it was [{fp0[:300]}]: using the detector "
                               f"rewrote a hyper-parameter", "hyper-parameter-rewritten")
                        break
                    if not (np.array_equal(FA.to_numpy(), keep[0]) and list(FA.columns) == keep[1] and FA.index.equals(keep[2]) and FA.index.name == keep[3]):
                        bad = (f"{nm}({kw}): {step} changed the caller's frame (values / column labels / index, index name now {FA.index.name!r}, was {keep[3]!r})", "caller-frame-changed")
                        break
                if bad is None:
                    d.fit(B.copy())
                    det = isolated.canon(d.predict(B.copy()))
                    want = isolated.run_one(nm, kw, B)[0]
                    if det != want:
                        bad = (f"{nm}({kw}) used on a series of {nA} rows and then re-fitted on one of {nB} rows reports {str(det)[:160]}; a fresh detector with the same hyper-parameters "
                               f"reports {str(want)[:160]}", "refit-differs-from-fresh")
            except Exception as ex:
                ctx.violation(f"{nm}({kw}): fit / predict / transform on a frame with a named index raised {type(ex).__name__}: {str(ex)[:120]}", inp,
                              {"what": "exception", "op": "untouched", "cls": type(ex).__name__})
                continue
            if bad:
                ctx.violation(bad[0], inp, {"what": bad[1], "detector": nm})


def _outcome(f):
    try:
        return ("ok", f())
    except Exception as ex:  # noqa
        return ("raised", type(ex).__name__)


def shared_component_stream(ctx):
    """A component object (a cost whose minimum size depends on the fitted data; a change detector wrapped by two anomalisers) used by SEVERAL composites, or by one composite
    on series of different width, carries no information from one use to the next: every outcome -- a result or the class of the exception -- equals that of freshly built
    objects given the same hyper-parameters, training data and input."""
    from skchange.anomaly_detectors import CircularBinarySegmentation, StatThresholdAnomaliser
    from skchange.change_detectors import PELT, MovingWindow, SeededBinarySegmentation
    from skchange.costs import GaussianCovCost
    rng = ctx.rng

    def data(n, p, at):
        x = np.asarray([[rng.gauss(0, 1) for _ in range(p)] for _ in range(n)])
        x[at:] += 6.0
        return pd.DataFrame(x, columns=[f"v{j}" for j in range(p)])

    mks = [("MovingWindow", lambda c, k: MovingWindow(change_score=c, bandwidth=k)), ("PELT", lambda c, k: PELT(cost=c, min_segment_length=k)),
           ("SeededBinarySegmentation", lambda c, k: SeededBinarySegmentation(change_score=c, min_segment_length=k)),
           ("CircularBinarySegmentation", lambda c, k: CircularBinarySegmentation(anomaly_score=c, min_segment_length=k, max_interval_length=40))]
    for rep in range(ctx.n(2, 8)):
        wide, narrow = data(rng.randint(60, 80), 4, 30), data(rng.randint(50, 70), rng.choice([1, 2]), 25)
        for nm, mk in mks:
            for scenario in ("one detector: wide series first, then a narrow one", "one cost object shared by two detectors", "a cost fitted by the user beforehand"):
                k_small, k_big = 3, 6
                inp = {"detector": nm, "scenario": scenario, "wide": wide.to_numpy().tolist(), "narrow": narrow.to_numpy().tolist(), "k": k_small}
                ctx.case({"shared": nm, "rep": rep, "scenario": scenario}, nontrivial=True)
                ctx.count("shared_component", scenario.split(":")[0])
                want = _outcome(lambda: canon(mk(GaussianCovCost(), k_small).fit(narrow).predict(narrow)))
                cost = GaussianCovCost()
                if scenario.startswith("one detector"):
                    d = mk(cost, k_small)
                    _outcome(lambda: d.fit(wide).predict(wide))       # k_small < p + 1: this may legitimately be rejected
                elif scenario.startswith("one cost"):
                    _outcome(lambda: mk(cost, k_big).fit(wide).predict(wide))
                    d = mk(cost, k_small)
                else:
                    cost.fit(wide.to_numpy())
                    d = mk(cost, k_small)
                got = _outcome(lambda: canon(d.fit(narrow).predict(narrow)))
                if got != want:
                    ctx.violation(f"{nm}(GaussianCovCost, {k_small}) on a {narrow.shape[1]}-column series, {scenario}: {got[0]} {str(got[1])[:120]}; freshly built objects: {want[0]} "
                                  f"{str(want[1])[:120]}", inp, {"what": "shared-component-state", "detector": nm})
        # two anomalisers around ONE change detector object
        A, B = data(rng.randint(60, 80), 1, 30), data(rng.randint(120, 160), 1, 70)
        for nm, mkcd in [("PELT", lambda: PELT(min_segment_length=2)), ("MovingWindow(tuned)", lambda: MovingWindow(bandwidth=5, threshold_scale=None, level=0.05)),
                         ("SeededBinarySegmentation", lambda: SeededBinarySegmentation(min_segment_length=2))]:
            ctx.case({"shared-cd": nm, "rep": rep}, nontrivial=True)
            ctx.count("shared_component", "two anomalisers, one detector")
            inp = {"wrapped": nm, "A": A.to_numpy().tolist(), "B": B.to_numpy().tolist()}
            cd = mkcd()
            want = _outcome(lambda: canon(StatThresholdAnomaliser(mkcd(), stat_lower=-1.0, stat_upper=1.0).fit(A).predict(A)))
            a1 = StatThresholdAnomaliser(cd, stat_lower=-1.0, stat_upper=1.0)
            a2 = StatThresholdAnomaliser(cd, stat_lower=-1.0, stat_upper=1.0)
            r1 = _outcome(lambda: canon(a1.fit(A).predict(A)))
            _outcome(lambda: a2.fit(B).predict(B))
            r1b = _outcome(lambda: canon(a1.predict(A)))
            if r1 != want or r1b != want:
                ctx.violation(f"StatThresholdAnomaliser({nm}): two anomalisers built around one detector object; the first, fitted on A, reports {str(r1[1])[:100]} and, after the second "
                              f"was fitted on another series, {str(r1b[1])[:100]}; a fresh anomaliser fitted on A reports {str(want[1])[:100]}", inp,
                              {"what": "shared-component-state", "detector": "StatThresholdAnomaliser"})
            elif cd.is_fitted:
                ctx.violation(f"StatThresholdAnomaliser({nm}).fit fitted the caller's own detector object (is_fitted is now True)", inp, {"what": "caller-component-fitted"})


def entry_points_and_buffers_stream(ctx):
    """(a) The composite entry points are fits: after fit(A), fit_predict(B) / fit_transform(B) the training data is B, so update(C) and everything after it behave like a fresh
    detector fitted on B and updated with C.  (b) A SCORER fitted again on the caller's own buffer after the buffer was overwritten in place scores the new numbers (as a fresh
    scorer does), whatever object identity suggests."""
    from harness import isolated
    from skchange.anomaly_scores import L2Saving, LocalAnomalyScore, Saving
    from skchange.change_scores import CUSUM, ChangeScore
    from skchange.costs import GaussianCovCost, GaussianVarCost, L2Cost
    rng = np.random.default_rng(ctx.seed + 1010)
    configs = [("PELT", {}), ("MovingWindow", {"bandwidth": 5, "threshold_scale": None, "level": 0.1}), ("SeededBinarySegmentation", {"threshold_scale": None, "level": 0.1}),
               ("CAPA", {}), ("CircularBinarySegmentation", {"max_interval_length": 40})]
    for rep in range(ctx.n(2, 6)):
        A = pd.DataFrame(rng.normal(size=(int(rng.integers(50, 70)), 1)))
        B = pd.DataFrame(rng.normal(size=(int(rng.integers(80, 110)), 1)) * 1.5)
        B.iloc[40:] += 4.0
        nC = int(rng.integers(30, 50))
        C = pd.DataFrame(rng.normal(size=(nC, 1)) + 4.0, index=pd.RangeIndex(len(B), len(B) + nC))
        D = pd.DataFrame(rng.normal(size=(90, 1)))
        D.iloc[30:60] += 5.0
        for nm, kw in configs:
            for entry in ("fit_predict", "fit_transform"):
                ctx.case({"entry": nm, "rep": rep, "via": entry}, nontrivial=True)
                ctx.count("entry_point_then_update", entry)
                inp = {"detector": nm, "hyper_parameters": {k_: str(v_) for k_, v_ in kw.items()}, "entry_point": entry, "rows": [len(A), len(B), len(C)]}
                try:
                    d = isolated.build(nm, kw).fit(A.copy())
                    getattr(d, entry)(B.copy())
                    d.update(C.copy())
                    got = (isolated.canon(d.predict(D.copy())), [float(getattr(d, a_)) for a_ in ("penalty_", "threshold_", "collective_penalty_") if hasattr(d, a_)])
                    f = isolated.build(nm, kw).fit(B.copy())
                    f.update(C.copy())
                    want = (isolated.canon(f.predict(D.copy())), [float(getattr(f, a_)) for a_ in ("penalty_", "threshold_", "collective_penalty_") if hasattr(f, a_)])
                except Exception as ex:
                    ctx.violation(f"{nm}: fit(A); {entry}(B); update(C); predict raised {type(ex).__name__}: {str(ex)[:120]}", inp, {"what": "exception", "op": "entry-point-update", "cls": type(ex).__name__})
                    continue
                if got[0] != want[0] or not np.allclose(got[1], want[1], rtol=1e-12, atol=0):
                    ctx.violation(f"{nm}: after fit(A); {entry}(B); update(C) the detector has {got[1]} and predicts {str(got[0])[:100]}; a fresh detector after fit(B); update(C) has "
                                  f"{want[1]} and predicts {str(want[0])[:100]}: {entry} is a fit, the training data is B", inp, {"what": "entry-point-not-a-fit", "detector": nm})
    scs = [("L2Cost", lambda: L2Cost(), 2, 1), ("L2Cost(0.5)", lambda: L2Cost(0.5), 2, 1), ("GaussianVarCost", lambda: GaussianVarCost(), 2, 2), ("GaussianCovCost", lambda: GaussianCovCost(), 2, 3),
           ("CUSUM", lambda: CUSUM(), 3, 1), ("ChangeScore(L2Cost)", lambda: ChangeScore(L2Cost()), 3, 1), ("L2Saving", lambda: L2Saving(), 2, 1),
           ("Saving(L2Cost(0))", lambda: Saving(L2Cost(0.0)), 2, 1), ("LocalAnomalyScore(L2Cost)", lambda: LocalAnomalyScore(L2Cost()), 4, 1)]
    for rep in range(ctx.n(2, 8)):
        n, p = int(rng.integers(20, 40)), 2
        first, second = rng.normal(size=(n, p)), rng.normal(size=(n, p)) * 3.0 + 1.0
        for nm, mk, k, ms in scs:
            cut = {2: [2, n - 3], 3: [2, n // 2, n - 3], 4: [2, n // 3, 2 * n // 3, n - 3]}[k]
            ctx.case({"scorer-buffer": nm, "rep": rep}, nontrivial=True)
            ctx.count("scorer_buffer_reuse", nm.split("(")[0])
            try:
                buf = first.copy()
                sc = mk().fit(buf)
                sc.evaluate(np.asarray([cut]))
                buf[:] = second
                got = np.asarray(sc.fit(buf).evaluate(np.asarray([cut])), dtype=float)
                want = np.asarray(mk().fit(second.copy()).evaluate(np.asarray([cut])), dtype=float)
            except Exception as ex:
                ctx.violation(f"{nm}: fit(buffer); evaluate; buffer[:] = other series; fit(buffer); evaluate raised {type(ex).__name__}: {str(ex)[:100]}", {"scorer": nm},
                              {"what": "exception", "op": "scorer-buffer", "cls": type(ex).__name__})
                continue
            if got.shape != want.shape or not np.allclose(got, want, rtol=1e-12, atol=1e-12):
                ctx.violation(f"{nm}: fitted again on the caller's buffer after it was overwritten in place, evaluate({cut}) = {got.tolist()[0][:3]}; a fresh scorer fitted on the new "
                              f"numbers gives {want.tolist()[0][:3]}", {"scorer": nm, "first": first.tolist(), "second": second.tolist(), "cut": cut},
                              {"what": "scorer-buffer-reuse", "scorer": nm.split("(")[0]})


def capa_params_stream(ctx):
    """CAPA / MVCAPA built on a cost-derived saving: the baseline cost's hyper-parameter is changed through the detector (nested set_params) and through
    the user's own cost object; after a fit the detector must behave like a FRESH one built from the hyper-parameters get_params(deep=True) reports."""
    from skchange.anomaly_detectors import CAPA, MVCAPA
    from skchange.costs import GaussianVarCost, L2Cost
    from harness.reuse import _canon, series
    rng = ctx.rng
    for h in range(ctx.n(16, 120)):
        Det = [CAPA, MVCAPA][h % 2]
        use_gv = h % 4 >= 2
        mkcost = (lambda v: GaussianVarCost(param=(v, 1.0))) if use_gv else (lambda v: L2Cost(param=v))
        getv = (lambda c: c.get_params()["param"][0]) if use_gv else (lambda c: c.get_params()["param"])
        setv = (lambda c, v: c.set_params(param=(v, 1.0))) if use_gv else (lambda c, v: c.set_params(param=v))
        p = rng.choice([1, 2])
        n = rng.randint(24, 40)
        A, B, _ = series(rng, n, p, 3)
        A, B = A + 4.0, B + 4.0                  # the level of the data is 4: a baseline mean of 0 and one of 4 give very different savings
        cost = mkcost(0.0)
        det = Det(collective_saving=cost, min_segment_length=2)
        hist = [f"{Det.__name__}(collective_saving={type(cost).__name__}(mean 0.0))"]
        fitted = None
        for step in range(rng.randint(3, 9)):
            r = rng.random()
            inp = {"detector": Det.__name__, "cost": type(cost).__name__, "history": list(hist), "A": A.to_numpy().tolist(), "B": B.to_numpy().tolist()}
            try:
                if r < 0.25:
                    v = rng.choice([4.0, 0.0, 2.0])
                    hist.append(f"det.set_params(collective_saving__param -> mean {v})")
                    det.set_params(collective_saving__param=((v, 1.0) if use_gv else v))
                    fitted = None
                elif r < 0.45:
                    v = rng.choice([4.0, 0.0, 2.0])
                    hist.append(f"user's cost object .set_params(mean {v})")
                    setv(det.get_params(deep=False)["collective_saving"], v)
                elif r < 0.75 or fitted is None:
                    fitted = rng.choice(["A", "B"])
                    hist.append(f"fit({fitted})")
                    det.fit(A if fitted == "A" else B)
                else:
                    X = rng.choice([A, B])
                    hist.append("predict(%s)" % ("A" if X is A else "B"))
                    now = getv(det.get_params(deep=False)["collective_saving"])
                    # the hyper-parameter may have been changed after the last fit through the shared cost object: the fresh detector is built with the
                    # parameter reported NOW and fitted on the same training series (stale fitted state is the documented finding D20 of other detectors; CAPA's
                    # fitted penalties do not depend on the cost's parameter, and its savings are refitted by predict)
                    fresh = Det(collective_saving=mkcost(now), min_segment_length=2).fit(A if fitted == "A" else B)
                    got, want = _canon(det.predict(X)), _canon(fresh.predict(X))
                    gs, ws = det.transform_scores(X).to_numpy(), fresh.transform_scores(X).to_numpy()
                    ctx.case({"capa_params": h, "i": step}, nontrivial=len(hist) > 2)
                    ctx.count("capa_params_op", "predict")
                    if got != want or not np.allclose(gs, ws, rtol=1e-9, atol=1e-9):
                        ctx.violation(f"{Det.__name__}: after the history {hist} predict / transform_scores differ from a fresh detector built from the reported hyper-parameters "
                                      f"(baseline mean {now}) and fitted on {fitted}: {str(got)[:120]} vs {str(want)[:120]}", dict(inp, got=str(got), fresh=str(want), reported_mean=now),
                                      {"what": "stale-nested-hyperparameter", "detector": Det.__name__, "tuned": False})
                        break
            except Exception as ex:
                ctx.violation(f"{Det.__name__}: {hist[-1]} raised {type(ex).__name__}: {str(ex)[:120]} in the history {hist}", inp,
                              {"what": "exception", "op": "capa-params", "cls": type(ex).__name__})
                break


def wrapper_stream(ctx, DATA):
    """Adapters (ChangeScore / Saving / LocalAnomalyScore) held by the user and SHARING their inner cost object with each other and with
    a detector: whatever happened before, `w.fit(X)` followed at once by `w.evaluate(cuts)` must give the values of a fresh adapter
    fitted on X (fit is a full refit of everything the adapter reads)."""
    from skchange.anomaly_scores import LocalAnomalyScore, Saving
    from skchange.change_detectors import PELT
    from skchange.change_scores import ChangeScore
    from skchange.costs import GaussianCovCost, GaussianVarCost, L2Cost
    rng = ctx.rng
    arrays = [d.to_numpy().copy() for d in DATA]          # the SAME ndarray / DataFrame objects are passed again and again
    frozen = [a.copy() for a in arrays]
    cuts = {"cs": np.asarray([[0, 6, 14], [3, 9, 20]]), "las": np.asarray([[0, 4, 10, 16], [2, 8, 12, 22]]), "sav": np.asarray([[0, 9], [5, 21]])}
    for h in range(ctx.n(40, 400)):
        costK = rng.choice([L2Cost, GaussianVarCost, GaussianCovCost])
        c0 = costK()
        base = costK(0.5) if costK is L2Cost else costK((0.5, 2.0))
        W = [("cs", ChangeScore(c0), lambda: ChangeScore(costK())), ("cs", ChangeScore(c0), lambda: ChangeScore(costK())),
             ("las", LocalAnomalyScore(c0), lambda: LocalAnomalyScore(costK())),
             ("sav", Saving(base), lambda: Saving(costK(0.5) if costK is L2Cost else costK((0.5, 2.0))))]
        det = PELT(cost=c0, min_segment_length=3)
        hist = []
        for step in range(rng.randint(4, 14)):
            k = rng.randrange(8)
            use_array = rng.random() < 0.5
            X = arrays[k] if use_array else DATA[k]
            r = rng.random()
            inp = {"cost": costK.__name__, "history": hist}
            try:
                if r < 0.2:
                    hist.append(f"PELT(cost=c0).fit_predict(D{k})")
                    det.fit(X).predict(X)
                elif r < 0.3:
                    hist.append(f"c0.fit(D{k})")
                    c0.fit(X)
                else:
                    kind, w, mkfresh = W[rng.randrange(len(W))]
                    hist.append(f"{kind}.fit({'array' if use_array else 'frame'} D{k}); evaluate")
                    got = w.fit(X).evaluate(cuts[kind])
                    want = mkfresh().fit(np.asarray(frozen[k])).evaluate(cuts[kind])
                    ctx.case({"wrap": h, "i": step}, nontrivial=len(hist) > 1)
                    ctx.count("wrapper_op", kind)
                    same = ([float(v).hex() for v in got.reshape(-1)] == [float(v).hex() for v in want.reshape(-1)]) if costK is not GaussianCovCost \
                        else bool(np.all(np.abs(got - want) <= 1e-9 * (np.abs(got) + np.abs(want) + 1)))
                    if not same:
                        ctx.violation(f"{type(w).__name__}({costK.__name__}).fit(D{k}) followed at once by evaluate differs from a fresh adapter fitted on D{k} "
                                      f"after the history {hist}", dict(inp, got=got.tolist(), fresh=want.tolist()),
                                      {"what": "history-dependence", "entry": "adapter-evaluate-after-fit", "adapter": type(w).__name__})
                        break
            except Exception as ex:
                ctx.violation(f"adapter history step {hist[-1]} raised {type(ex).__name__}: {str(ex)[:120]}", inp, {"what": "exception", "op": "wrapper", "cls": type(ex).__name__})
                break
        if any(not np.array_equal(a, b) for a, b in zip(arrays, frozen)):
            ctx.violation("a caller's ndarray was modified in place by an adapter / detector history", {"history": hist}, {"what": "caller-data-modified"})
            arrays[:] = [a.copy() for a in frozen]


# ------------------------------------------------------------------------------------------------------------------
# adapters held by the user and sharing their cost object: Model/Adapters.v (twin validated in Coq by Check/AdaptersCheck.ahist_ok)
# ------------------------------------------------------------------------------------------------------------------
AHEADER = ("From Coq Require Import List Arith Bool.\nFrom SK Require Import Lib.Base Model.Adapters Check.AdaptersCheck.\nImport ListNotations.")
AK = ["KChange", "KSaving", "KLocal"]


class ATwin:
    def __init__(self):
        self.C, self.A = [], []

    def step(self, o):
        k = o[0]
        if k == "NewC":
            self.C.append({"param": o[1], "fit": None})
            return ("ANew", len(self.C) - 1)
        if k == "NewA":
            co = self.C[o[2]]
            self.A.append({"kind": o[1], "cost": o[2], "clone_param": 0 if o[1] == "KSaving" else co["param"], "clone_fit": None, "fit": None})
            return ("ANew", len(self.A) - 1)
        if k == "SetC":
            self.C[o[1]] = {"param": o[2], "fit": None}
            return ("ANone",)
        if k == "FitC":
            self.C[o[1]]["fit"] = o[2]
            return ("ANone",)
        if k == "FitA":
            ad = self.A[o[1]]
            co = self.C[ad["cost"]]
            if ad["kind"] == "KLocal":
                ad["clone_param"] = co["param"]
            if ad["kind"] == "KSaving":
                ad["clone_fit"] = o[2]
            ad["fit"] = o[2]
            co["fit"] = o[2]
            return ("ANone",)
        ad = self.A[o[1]]
        co = self.C[ad["cost"]]
        if ad["fit"] is None or co["fit"] is None:
            return ("ANotFitted",)
        return ("AVal", ad["kind"], co["param"], co["fit"], ad["clone_param"], ad["clone_fit"], ad["fit"])


def aop_coq(o):
    if o[0] == "NewA":
        return f"NewA {o[1]} {o[2]}"
    return " ".join([o[0]] + [str(v) for v in o[1:]])


def aout_coq(r):
    if r[0] in ("ANone", "ANotFitted"):
        return r[0]
    if r[0] == "ANew":
        return f"(ANew {r[1]})"
    cl = "None" if r[5] is None else f"(Some {r[5]})"
    return f"(AVal {r[1]} {r[2]} {r[3]} {r[4]} {cl} {r[6]})"


def adapter_model_stream(ctx, DATA):
    import os
    from harness.engine import COQ
    if not os.path.exists(os.path.join(COQ, "Check", "AdaptersCheck.v")):
        return
    from skchange.anomaly_scores import LocalAnomalyScore, Saving
    from skchange.change_scores import ChangeScore
    from skchange.costs import L2Cost
    try:
        from sktime.exceptions import NotFittedError
    except Exception:  # pragma: no cover
        from sklearn.exceptions import NotFittedError
    rng = ctx.rng
    MK = {"KChange": ChangeScore, "KSaving": Saving, "KLocal": LocalAnomalyScore}
    CUTS = {"KChange": np.asarray([[0, 6, 14], [3, 9, 20]]), "KSaving": np.asarray([[0, 9], [5, 21]]), "KLocal": np.asarray([[0, 4, 10, 16], [2, 8, 12, 22]])}
    cases, meta = [], []
    for h in range(ctx.n(60, 600)):
        pcls = rng.choice([0, 4])                  # datasets 0..3 have one column, 4..7 two
        tw = ATwin()
        ops, outs, realC, realA = [], [], [], []
        hist = []
        ok = True
        for step in range(rng.randint(6, 22)):
            ch = []
            if len(realC) < 2:
                ch += ["NewC"] * 3
            if realC and len(realA) < 4:
                ch += ["NewA"] * 3
            if realC:
                ch += ["FitC", "SetC"]
            if realA:
                ch += ["FitA"] * 4 + ["EvalA"] * 5
            k = rng.choice(ch)
            if k == "NewC":
                o = ("NewC", rng.choice([0, 1, 2]))
            elif k == "NewA":
                c = rng.randrange(len(realC))
                kind = rng.choice(AK)
                if kind == "KSaving" and tw.C[c]["param"] == 0:
                    continue                      # Saving needs a fixed baseline hyper-parameter
                o = ("NewA", kind, c)
            elif k == "SetC":
                c = rng.randrange(len(realC))
                pnew = rng.choice([0, 1, 2])
                if pnew == 0 and any(a["kind"] == "KSaving" and a["cost"] == c for a in tw.A):
                    continue
                o = ("SetC", c, pnew)
            elif k == "FitC":
                o = ("FitC", rng.randrange(len(realC)), pcls + rng.randrange(4))
            elif k == "FitA":
                o = ("FitA", rng.randrange(len(realA)), pcls + rng.randrange(4))
            else:
                o = ("EvalA", rng.randrange(len(realA)))
            r = tw.step(o)
            ops.append(o)
            outs.append(r)
            hist.append(aop_coq(o))
            inp = {"history": list(hist), "model_output": str(r)}
            try:
                real = None
                if o[0] == "NewC":
                    realC.append(L2Cost(param=SPARAMS[o[1]]))
                elif o[0] == "NewA":
                    realA.append(MK[o[1]](realC[o[2]]))
                elif o[0] == "SetC":
                    realC[o[1]].set_params(param=SPARAMS[o[2]])
                elif o[0] == "FitC":
                    realC[o[1]].fit(DATA[o[2]])
                elif o[0] == "FitA":
                    realA[o[1]].fit(DATA[o[2]])
                else:
                    kind = tw.A[o[1]]["kind"]
                    try:
                        real = [float(v).hex() for v in realA[o[1]].evaluate(CUTS[kind]).reshape(-1)]
                    except NotFittedError:
                        real = "NotFitted"
            except Exception as ex:
                ctx.violation(f"adapter history step {hist[-1]} raised {type(ex).__name__}: {str(ex)[:140]}", inp, {"what": "exception", "op": "adapter:" + o[0], "cls": type(ex).__name__})
                ok = False
                break
            if o[0] != "EvalA":
                continue
            if (r[0] == "ANotFitted") != (real == "NotFitted"):
                ctx.violation(f"{hist[-1]}: implementation {'raised NotFittedError' if real == 'NotFitted' else 'returned values'}, model says {r[0]}", inp,
                              {"what": "fitted-state", "op": "adapter"})
                ok = False
                break
            if r[0] == "AVal":
                _, kind, cp, cd, clp, cld, own = r
                # rebuild from the dependency tuple with FRESH objects: adapter fitted on its own data, then the cost refitted on the data it was last fitted on
                c0 = L2Cost(param=SPARAMS[clp] if kind == "KLocal" else SPARAMS[cp])
                a0 = MK[kind](c0).fit(DATA[own])
                if kind == "KLocal" and clp != cp:
                    c0.set_params(param=SPARAMS[cp])
                    c0.fit(DATA[cd])
                elif cd != own:
                    c0.fit(DATA[cd])
                want = [float(v).hex() for v in a0.evaluate(CUTS[kind]).reshape(-1)]
                ctx.case({"ahist": h, "i": step}, nontrivial=len(hist) > 3)
                if real != want:
                    ctx.violation(f"{kind} adapter: evaluate after the history {hist} differs from fresh objects built from the model's dependency tuple "
                                  f"(cost hyper-parameter {cp} fitted on D{cd}, private clone {clp}, adapter fitted on D{own})", dict(inp, real=real, fresh=want),
                                  {"what": "history-dependence", "entry": "adapter-evaluate", "adapter": kind})
                    ok = False
                    break
        if not ok:
            continue
        sc = [(c["param"], c["fit"] is not None) for c in tw.C]
        sa = [a["fit"] is not None for a in tw.A]
        real_sc = [([q for q in SPARAMS if SPARAMS[q] == c.param][0], bool(c._is_fitted)) for c in realC]
        real_sa = [bool(a._is_fitted) for a in realA]
        if real_sc != sc or real_sa != sa:
            ctx.violation(f"adapter history: final state differs from the model: costs {real_sc} vs {sc}, adapters fitted {real_sa} vs {sa}", {"history": hist},
                          {"what": "final-state", "op": "adapter"})
            continue
        cases.append(f"({coq_list([aop_coq(o) for o in ops])}, {coq_list([aout_coq(r) for r in outs])}, "
                     f"({coq_list([f'({a}, {coq_bool(b)})' for a, b in sc])}, {coq_list([coq_bool(b) for b in sa])}))")
        meta.append({"history": hist})
        ctx.count("stream", "adapter-model")
    bad = coq_bad_cases(ctx.cid, AHEADER, "ahist_case", "ahist_ok", cases, shard=100, tag="ahist")
    for i in bad[:10]:
        ctx.mismatch("the Python twin of Model/Adapters.astep disagrees with the Coq model on this history", meta[i], {"what": "twin-vs-model", "model": "adapters"})
