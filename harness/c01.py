"""C01: cost values equal their definition on every admissible interval."""
import sys
from fractions import Fraction

import numpy as np

from harness import direct
from harness.engine import REPO as _REPO


def engine_repo():
    return _REPO


from harness.engine import VERIF, coq_bad_cases, coq_list

INFO = {
    "extra_targets": ["Check/KernelCheck.vo", "Check/FloatKernelCheck.vo"],
    "level": "proof",
    "rule": "L2Cost / GaussianVarCost / GaussianCovCost x {optimal, fixed (scalar, per-column, length-1 array)} x p in 1..4 x n in 1..40 on dyadic "
            "data (multiples of 1/8, |x| <= 10, plus constant and duplicated-column matrices for the not-positive-definite branch) x random batches of "
            "admissible intervals (duplicates, any order): (a) every value is compared with the direct definition computed from X[s:e]; (b) for the "
            "log-free kernels the exact rational twin generated from the source is evaluated in Coq on the same data, must bracket the real value "
            "within 1e-9 (sum|terms| + 1) and must equal the direct definition in Q exactly; (c) for the kernels with log the translator's IR is "
            "evaluated in Python against the real function; (d) shape, single-vs-batch, permuted-batch and repeated-call results are compared "
            "bit for bit; non-trivial = interval strictly inside the data or p > 1",
    "trusted_base": ["Coq 8.16.1 kernel + vm_compute; Reals axioms as listed per theorem", "translator/py2coq.py (validated by (b) and (c))",
                     "harness/direct.py (direct definitions; np.linalg for the multivariate case)", "NumPy cov/slogdet/inv (oracles of the multivariate cost)"],
    "assumptions": ["finite data of moderate range", "variances well above the 1e-16 floor for the likelihood reading"],
}
HEADER = ("From Coq Require Import QArith List Arith Bool.\nFrom SK Require Import Lib.Base Check.KernelCheck.\nImport ListNotations.\nOpen Scope Q_scope.")


def qlit(x):
    fr = Fraction(x)
    return f"({fr.numerator} # {fr.denominator})"


def bits(a):
    return [float(v).hex() for v in np.asarray(a, dtype=float).reshape(-1)]


def rand_cuts(rng, n, ms, k):
    out = []
    for _ in range(k):
        s = rng.randint(0, n - ms)
        e = rng.randint(s + ms, n)
        out.append((s, e))
    return out


def run(ctx):
    sys.path.insert(0, f"{VERIF}/translator")
    import py2coq
    from skchange.costs import GaussianCovCost, GaussianVarCost, L2Cost
    rng = ctx.rng
    kq, kq_meta = [], []
    pf, pf_meta = [], []
    from skchange.utils.numba.stats import col_cumsum
    N = ctx.n(70, 700)
    for it in range(N):
        p = rng.choice([1, 1, 2, 3, 4])
        n = rng.randint(1, 12) if it % 3 else rng.randint(10, 40)
        kind = rng.choice(["random", "random", "random", "constant", "dupcol", "spike"])
        X = np.asarray([[rng.randint(-80, 80) / 8.0 for _ in range(p)] for _ in range(n)])
        if kind == "constant":
            X[:] = X[0]
        if kind == "dupcol" and p > 1:
            X[:, -1] = X[:, 0]
        if kind == "spike":
            X[:] = 0.0
            X[rng.randrange(n)] = 9.5
        # the model of col_cumsum(init_zero=True) (prefix i = sum of the first i entries), exact on dyadic data
        if it % 3 == 0:
            sums = col_cumsum(X, init_zero=True)
            sums2 = col_cumsum(X ** 2, init_zero=True)
            for j in range(p):
                for arr, src in ((sums, X[:, j]), (sums2, X[:, j] ** 2)):
                    pf.append(f"({coq_list([qlit(Fraction(float(v))) for v in src])}, {coq_list([qlit(Fraction(float(v))) for v in arr[:, j]])})")
                    pf_meta.append({"X_column": [float(v) for v in src], "col_cumsum": [float(v) for v in arr[:, j]]})
        mu_s = rng.randint(-16, 16) / 8.0
        mu_v = [rng.randint(-16, 16) / 8.0 for _ in range(p)]
        var_s = rng.choice([0.25, 1.0, 2.5])
        var_v = [rng.choice([0.5, 1.0, 3.0]) for _ in range(p)]
        A = np.asarray([[rng.randint(-4, 4) / 4.0 for _ in range(p)] for _ in range(p)])
        cov = A @ A.T + np.eye(p)
        cfgs = [
            ("L2Cost()", L2Cost(), "l2", None, "l2_cost_optim", None),
            ("L2Cost(scalar)", L2Cost(mu_s), "l2", mu_s, "l2_cost_fixed", [mu_s] * p),
            ("L2Cost(per-column)", L2Cost(np.asarray(mu_v)), "l2", mu_v, "l2_cost_fixed", mu_v),
            ("L2Cost([x])", L2Cost(np.asarray([mu_s])), "l2", mu_s, "l2_cost_fixed", [mu_s] * p),
            ("GaussianVarCost()", GaussianVarCost(), "gvar", None, "gaussian_var_cost_optim", None),
            ("GaussianVarCost(scalars)", GaussianVarCost((mu_s, var_s)), "gvar", (mu_s, var_s), "gaussian_var_cost_fixed", ([mu_s] * p, [var_s] * p)),
            ("GaussianVarCost(per-column)", GaussianVarCost((np.asarray(mu_v), np.asarray(var_v))), "gvar", (mu_v, var_v), "gaussian_var_cost_fixed", (mu_v, var_v)),
            ("GaussianCovCost()", GaussianCovCost(), "gcov", None, None, None),
            ("GaussianCovCost(mean, cov)", GaussianCovCost((np.asarray(mu_v), cov)), "gcov", (mu_v, cov), None, None),
            ("GaussianCovCost(scalars)", GaussianCovCost((mu_s, var_s)), "gcov", (mu_s, var_s), None, None),
        ]
        for name, cost, dk, dparam, kern, kparam in cfgs:
            inp0 = {"cost": name, "n": n, "p": p, "X": X.tolist(), "data_kind": kind}
            frozen = X.copy()
            try:
                cost.fit(X)
                ms = int(cost.min_size)
            except Exception as ex:
                ctx.violation(f"{name}.fit raised {type(ex).__name__}: {str(ex)[:120]}", inp0, {"what": "fit-exception", "cost": name.split("(")[0]})
                continue
            if ms > n:
                continue
            cuts = rand_cuts(rng, n, ms, rng.randint(1, 5))
            arr = np.asarray(cuts)
            inp0["cuts"] = [list(c) for c in cuts]
            try:
                vals = cost.evaluate(arr)
                status = "ok"
            except RuntimeError as ex:
                vals, status = None, "RuntimeError"
            except Exception as ex:
                ctx.violation(f"{name}.evaluate raised {type(ex).__name__}: {str(ex)[:120]}", inp0,
                              {"what": "evaluate-exception", "cost": name.split("(")[0], "cls": type(ex).__name__})
                continue
            # the documented error must come from a slice whose covariance is genuinely singular / an interval too short
            if status == "RuntimeError":
                ok_err = False
                if dk == "gcov" and dparam is None:
                    for s, e in cuts:
                        seg = X[s:e]
                        c = np.cov(seg, rowvar=False, ddof=0).reshape(p, p)
                        if np.linalg.matrix_rank(c, tol=1e-9) < p:
                            ok_err = True
                ctx.case({"c": name, "it": it, "err": True}, nontrivial=True)
                ctx.count("outcome", "documented-RuntimeError" if ok_err else "RuntimeError")
                if not ok_err:
                    ctx.violation(f"{name}.evaluate raised RuntimeError although every slice has a positive definite covariance", inp0,
                                  {"what": "spurious-error", "cost": name.split("(")[0]})
                continue
            want_cols = 1 if dk == "gcov" else p
            if vals.shape != (len(cuts), want_cols):
                ctx.violation(f"{name}.evaluate returned shape {vals.shape}, expected {(len(cuts), want_cols)}", inp0,
                              {"what": "shape", "cost": name.split("(")[0]})
                continue
            # (d) batch independence, bit for bit
            again = cost.evaluate(arr)
            perm = list(range(len(cuts)))
            rng.shuffle(perm)
            permuted = cost.evaluate(arr[perm])
            singles = np.vstack([cost.evaluate(np.asarray([c])) for c in cuts])
            # ... and with some intervals REPEATED in an unsorted batch
            rep_idx = perm + perm[: max(1, len(perm) // 2)] + perm[-1:]
            repeated = cost.evaluate(arr[rep_idx])
            if not (bits(again) == bits(vals) and bits(permuted) == bits(vals[perm]) and bits(singles) == bits(vals) and bits(repeated) == bits(vals[rep_idx])):
                ctx.violation(f"{name}: the row of an interval depends on the batch it is evaluated in / on earlier calls", inp0,
                              {"what": "batch-dependence", "cost": name.split("(")[0]})
            if not np.array_equal(X, frozen):
                ctx.violation(f"{name}: fit / evaluate modified the caller's data array in place", inp0, {"what": "caller-data-modified", "cost": name.split("(")[0]})
                X = frozen.copy()
            # (a) direct definition
            for (s, e), row in zip(cuts, vals):
                inp = dict(inp0, interval=[s, e], value=row.tolist())
                try:
                    want = direct.cost_direct(dk, dparam, X, s, e)
                except RuntimeError:
                    want = None
                scale = float(np.sum(X[s:e] ** 2)) + (e - s) * 30 + 1
                nontriv = (s > 0 or e < n) or p > 1
                ctx.case({"c": name, "X": X.tolist(), "se": [s, e]}, nontrivial=nontriv,
                         sample={"cost": name, "n": n, "p": p, "interval": [s, e], "value": row.tolist()})
                ctx.count("cost", name.split("(")[0])
                ctx.count("mode", "optim" if dparam is None else "fixed")
                if dk == "gcov" and dparam is None and e - s > 0:
                    cm = np.cov(X[s:e], rowvar=False, ddof=0).reshape(p, p)
                    ev = np.linalg.eigvalsh(cm)
                    if not np.any(cm):
                        # the sample covariance is EXACTLY the zero matrix (all rows of the slice equal): no rounding noise is involved, its determinant is 0 and the
                        # documented error is the only admissible outcome -- for one column as for several
                        ctx.count("outcome", "exactly-singular: error demanded")
                        ctx.violation(f"{name}: all rows of X[{s}:{e}] are equal (sample covariance exactly 0) but evaluate returned {row.tolist()} instead of the documented error",
                                      inp, {"what": "missing-error", "cost": name.split("(")[0]})
                        continue
                    if ev.min() <= 1e-9 * max(1.0, ev.max()):
                        # numerically singular sample covariance: log det is pure rounding noise, whether the documented error is raised
                        # depends on the sign of that noise; neither a value nor the error can be demanded (outside "moderate dynamic range")
                        ctx.count("outcome", "numerically-singular: not compared")
                        continue
                if want is None:
                    if dk == "gcov" and dparam is None:
                        ctx.violation(f"{name}: interval [{s},{e}) has a singular sample covariance but evaluate returned {row.tolist()} instead of the documented error",
                                      inp, {"what": "missing-error", "cost": name.split("(")[0]})
                    continue
                if dk == "gvar" and dparam is None and np.any(((X[s:e] - X[s:e].mean(axis=0)) ** 2).mean(axis=0) < 1e-12):
                    tol_scale = 1e6          # at the variance floor the value is ln(1e-16)-dominated; compare loosely
                else:
                    tol_scale = scale
                if not direct.close(row, want, scale=tol_scale):
                    ctx.violation(f"{name}: value of [{s},{e}) is {row.tolist()}, the definition computed from X[{s}:{e}] gives {np.asarray(want).tolist()}",
                                  inp, {"what": "value", "cost": name.split("(")[0], "mode": "optim" if dparam is None else "fixed"})
                # (b) exact twins in Coq / (c) translated IR in Python
                if kern in ("l2_cost_optim", "l2_cost_fixed"):
                    for j in range(p):
                        col = [Fraction(float(v)) for v in X[:, j]]
                        tol = Fraction(1e-9) * (Fraction(float(np.sum(X[s:e, j] ** 2))) + (e - s) * 8 + 1)
                        v = Fraction(float(row[j]))
                        mu = Fraction(float(kparam[j])) if kparam is not None else Fraction(0)
                        kq.append("{| kq_kind_ := %s; kq_xs := %s; kq_mu := %s; kq_s := %d%%nat; kq_e := %d%%nat; kq_lo := %s; kq_hi := %s |}"
                                  % ("KL2Optim" if kern == "l2_cost_optim" else "KL2Fixed", coq_list([qlit(c) for c in col]), qlit(mu), s, e,
                                     qlit(v - tol), qlit(v + tol)))
                        kq_meta.append(dict(inp, column=j, kernel=kern))
                elif kern in ("gaussian_var_cost_optim", "gaussian_var_cost_fixed"):
                    S1 = np.vstack([np.zeros(p), np.cumsum(X, axis=0)])
                    S2 = np.vstack([np.zeros(p), np.cumsum(X ** 2, axis=0)])
                    for j in range(p):
                        env = {"S1": S1[:, j], "S2": S2[:, j], "s": s, "e": e}
                        if kparam is not None:
                            env.update({"mu": kparam[0][j], "v": kparam[1][j]})
                        try:
                            tr = py2coq.pyeval(py2coq.to_ir(kern, engine_repo()), env)
                        except Exception as ex:
                            ctx.mismatch(f"translated kernel {kern} could not be evaluated: {ex}", inp, {"what": "translator"})
                            continue
                        if not direct.close([row[j]], [tr], scale=1e-3 if tol_scale == scale else 1e6):
                            ctx.mismatch(f"{name}: translated kernel {kern} gives {tr}, the real function {row[j]} on column {j} of [{s},{e})",
                                         dict(inp, column=j), {"what": "translator-vs-code", "kernel": kern})
    if pf:
        for i in coq_bad_cases(ctx.cid, HEADER, "pf_case", "pf_ok", pf, shard=200, tag="pf")[:10]:
            ctx.violation(f"col_cumsum(x, init_zero=True) is not the array of prefix sums with a leading zero: column {pf_meta[i]['X_column']} -> {pf_meta[i]['col_cumsum']}",
                          pf_meta[i], {"what": "prefix-sums"})
    if kq:
        bad = coq_bad_cases(ctx.cid, HEADER, "kq_case", "kq_ok", kq, shard=120, tag="kq")
        for i in bad[:20]:
            m = kq_meta[i]
            ctx.violation(f"{m['cost']}: column {m['column']} of interval {m['interval']}: the real value {m['value']} is outside the bracket around the exact "
                          f"rational twin of {m['kernel']} generated from the source, or that twin differs from the direct definition", m,
                          {"what": "twin", "kernel": m["kernel"]})
    sys.path.pop(0)
    # ---- the OPERATION ORDER of the squared-error kernel on binary64, bit for bit (Check/FloatKernelCheck.v): this is the order the rounding-error
    # ---- theorems C01_float_* (Proofs/FloatError.v) are stated for
    from harness.floatstreams import fl, flist
    from skchange.costs import L2Cost as _L2
    fk_terms, fk_meta = [], []
    rng_f = np.random.default_rng(ctx.seed + 101)
    for it in range(ctx.n(60, 500)):
        n = int(rng_f.integers(2, 60))
        p = int(rng_f.integers(1, 4))
        scale = float(rng_f.choice([1.0, 1e-3, 1e4, 123.456]))
        Xf = rng_f.normal(size=(n, p)) * scale + float(rng_f.choice([0.0, 1e3, -7.25]))
        mu = None if it % 3 else float(rng_f.choice([0.5, -2.0, 1e3, 0.1]))
        sc = (_L2() if mu is None else _L2(mu)).fit(Xf)
        s = int(rng_f.integers(0, n - 1))
        e = int(rng_f.integers(s + 1, n + 1))
        vals = sc.evaluate(np.asarray([[s, e]]))[0]
        for j in range(p):
            fk_terms.append("{| fk_xs := %s; fk_mu := %s; fk_s := %d%%nat; fk_e := %d%%nat; fk_val := %s |}"
                            % (flist(Xf[:, j]), "None" if mu is None else f"(Some {fl(mu)})", s, e, fl(vals[j])))
            fk_meta.append({"X_column": Xf[:, j].tolist(), "fixed_mean": mu, "cut": [s, e], "impl_value": float(vals[j]), "column": j})
        ctx.case({"fk": it, "n": n, "p": p, "cut": [s, e], "x0": float(Xf[0, 0])}, nontrivial=True)
        ctx.count("float_kernel", "fixed" if mu is not None else "optim")
    fk_header = ("From Coq Require Import PrimFloat List Arith Bool.\nFrom SK Require Import Lib.Base Check.FloatKernelCheck Proofs.FloatRefine.\nImport ListNotations.\nOpen Scope float_scope.")
    # the PREMISE of the refinement theorem (C01_primitive_float_program_refines_rounding_model: no overflow, no harmful underflow in any intermediate result) is
    # evaluated on the same cases: where it holds, the value the code returned is -- by bit-equality with l2_cost_F, the refinement theorem and the error theorem --
    # within the proved bound of the residual sum of squares of the data
    fk_header = fk_header.replace("Proofs.FloatRefine.", "Proofs.FloatRefine Proofs.FloatKernels2.")
    prem = coq_bad_cases(ctx.cid, fk_header, "fk_case", "(fun c => match fk_mu c with None => l2_trace_ok (fk_xs c) (fk_s c) (fk_e c) | Some mu => l2_fixed_trace_ok mu (fk_xs c) (fk_s c) (fk_e c) end)",
                         fk_terms, shard=120, tag="fkprem")
    n_opt = len(fk_meta)
    ctx.notes["float_refinement_premise"] = (f"l2_trace_ok / l2_fixed_trace_ok holds on {n_opt - len(prem)} of {n_opt} cases (optimal and fixed mean; data of scale 1e-3 .. 1e4: "
                                             "no overflow / underflow expected)")
    if len(prem) > n_opt // 10:
        ctx.mismatch(f"the premise l2_trace_ok of the float refinement theorem fails on {len(prem)} of {n_opt} ordinary cases: the checker or the kernel model is off",
                     {"first": fk_meta[prem[0]]}, {"what": "float-refinement-premise"})
    for i in coq_bad_cases(ctx.cid, fk_header, "fk_case", "fk_ok", fk_terms, shard=120, tag="fk")[:20]:
        m = fk_meta[i]
        ctx.mismatch(f"L2Cost({'' if m['fixed_mean'] is None else m['fixed_mean']}).evaluate({m['cut']}) = {m['impl_value']!r} is not what the kernel's documented operation order "
                     f"(sequential prefix sums of x and x*x, then S2 - S1*S1/n resp. S2 - 2 mu S1 + n mu*mu) gives on binary64", m, {"what": "float-operation-order", "kernel": "l2"})
    # ---- MANY columns with a common non-unit scale: the determinant itself leaves the binary64 range long before its logarithm does ----
    from skchange.costs import GaussianCovCost as _GCC
    from skchange.change_scores import ChangeScore as _CS
    from skchange.anomaly_scores import Saving as _SV
    rng_w = np.random.default_rng(ctx.seed + 4545)
    for scale_w in (1.0, 1e4, 1e-4):
        pw, nw = 45, 220
        Xw = rng_w.normal(size=(nw, pw)) * scale_w
        Xw[nw // 2:] += 2.0 * scale_w
        for name_w, mk_w, cuts_w, ref_w in [
                ("GaussianCovCost()", lambda: _GCC(), [[0, nw], [10, 150]], lambda c: direct.cost_direct("gcov", None, Xw, *c)),
                ("ChangeScore(GaussianCovCost())", lambda: _CS(_GCC()), [[0, nw // 2, nw], [5, 100, 200]], lambda c: direct.change_direct("gcov", Xw, *c)),
                ("Saving(GaussianCovCost((0, scale^2)))", lambda: _SV(_GCC((0.0, scale_w ** 2))), [[0, nw], [20, 140]], lambda c: direct.saving_direct("gcov", (0.0, scale_w ** 2), Xw, *c))]:
            ctx.case({"widep": name_w, "scale": scale_w}, nontrivial=True)
            try:
                got_w = mk_w().fit(Xw).evaluate(np.asarray(cuts_w))
            except Exception as ex:
                ctx.violation(f"{name_w} on {nw} x {pw} well-conditioned data of scale {scale_w:g} raised {type(ex).__name__}: {str(ex)[:100]}",
                              {"n": nw, "p": pw, "scale": scale_w, "data_seed": ctx.seed + 4545}, {"what": "wide-p-exception", "scorer": name_w.split("(")[0]})
                continue
            for c_w, g_w in zip(cuts_w, got_w):
                w_w = np.asarray(ref_w(c_w), dtype=float)
                if not (np.all(np.isfinite(g_w)) and direct.close(g_w, w_w, scale=abs(float(w_w[0])) + nw * pw)):
                    ctx.violation(f"{name_w} on {nw} x {pw} data of scale {scale_w:g}: {c_w} -> {np.asarray(g_w).tolist()}, the definition (log-determinant via slogdet) gives {w_w.tolist()}",
                                  {"n": nw, "p": pw, "scale": scale_w, "cut": c_w, "data_seed": ctx.seed + 4545}, {"what": "wide-p-value", "scorer": name_w.split("(")[0]})
    # ---- several objects of one cost class alive at once, fitted on DIFFERENT data and evaluated alternately: each row depends on its own object's data only ----
    from skchange.costs import GaussianCovCost as _GC2, GaussianVarCost as _GV2, L2Cost as _L22
    rng_i = np.random.default_rng(ctx.seed + 111)
    for it in range(ctx.n(6, 40)):
        p_i = int(rng_i.integers(1, 4))
        n_i = int(rng_i.integers(12, 30))
        for cname, mk_i, kind_i, ms_i in [("L2Cost", _L22, "l2", 1), ("GaussianVarCost", _GV2, "gvar", 2), ("GaussianCovCost", _GC2, "gcov", p_i + 1)]:
            XA, XB = rng_i.normal(size=(n_i, p_i)), rng_i.normal(size=(n_i, p_i)) * 3.0 + 5.0
            a_, b_ = mk_i().fit(XA), mk_i().fit(XB)
            for _ in range(4):
                s_i = int(rng_i.integers(0, n_i - ms_i - 1))
                e_i = int(rng_i.integers(s_i + ms_i + 1, n_i + 1))
                cut_i = np.asarray([[s_i, e_i]])
                ga, gb, ga2 = a_.evaluate(cut_i)[0], b_.evaluate(cut_i)[0], a_.evaluate(cut_i)[0]
                ctx.case({"interleaved": cname, "it": it, "cut": [s_i, e_i]}, nontrivial=True)
                for tag, X_, g_ in (("first object", XA, ga), ("second object", XB, gb), ("first object again", XA, ga2)):
                    w_ = np.asarray(direct.cost_direct(kind_i, None, X_, s_i, e_i), dtype=float)
                    if not direct.close(g_, w_, scale=float(np.sum(np.asarray(X_)[s_i:e_i] ** 2)) + (e_i - s_i) * p_i + 1.0):
                        ctx.violation(f"{cname}: two objects fitted on different data and evaluated alternately on {[s_i, e_i]}: the {tag} returns {np.asarray(g_).tolist()}, "
                                      f"its own data give {w_.tolist()}", {"cost": cname, "cut": [s_i, e_i], "XA": XA.tolist(), "XB": XB.tolist(), "which": tag},
                                      {"what": "row-depends-on-another-object", "cost": cname})
                        break

