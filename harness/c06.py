"""C06: scores derived from costs equal their defining cost differences."""
import sys
from fractions import Fraction

import numpy as np
import pandas as pd

from harness import direct
from harness.c01 import qlit
from harness.engine import REPO as _REPO


def engine_repo():
    return _REPO


from harness.engine import VERIF, coq_bad_cases, coq_list, zlit

INFO = {
    "extra_targets": ["Check/KernelCheck.vo", "Check/FloatKernelCheck2.vo", "Check/FloatSavingCheck.vo", "Proofs/FloatSaving.vo"],
    "level": "proof",
    "rule": "(a) the three adapters around USER-DEFINED exact integer costs (n-scaled residual sum of squares / n-scaled squared error at an integer "
            "baseline; range cost max-min) on integer data, p = 1..3: every adapter value must equal the cost difference of the definition exactly "
            "(decided in Coq on integers), including LocalAnomalyScore's refit on the pooled surroundings; (b) adapters around the built-in costs "
            "(L2, Gaussian variance, Gaussian covariance) and the direct scores CUSUM / L2Saving on dyadic data against the direct definitions, "
            "CUSUM^2 vs ChangeScore(L2Cost), L2Saving vs Saving(L2Cost(0)); non-negativity, optimal <= fixed and the split inequality up to a "
            "conditioned tolerance; (c) the exact rational twin of l2_saving in Coq and the translated cusum kernel evaluated in Python; "
            "non-trivial = cut strictly inside the data",
    "trusted_base": ["Coq 8.16.1 kernel + vm_compute; Reals axioms as listed per theorem", "translator/py2coq.py", "harness/direct.py, harness/c06.py user costs"],
    "assumptions": ["variances and covariance eigenvalues well above the 1e-16 floor; data of moderate dynamic range"],
}
HEADER = ("From Coq Require Import QArith ZArith List Arith Bool.\nFrom SK Require Import Lib.Base Check.KernelCheck.\nImport ListNotations.")


def make_user_costs():
    from skchange.costs.base import BaseCost

    class NScaledL2(BaseCost):
        """optimal: n * sum x^2 - (sum x)^2 ; fixed (integer theta): n * sum (x - theta)^2 -- exact on integer data"""

        def __init__(self, param=None, weight=1):
            self.weight = weight          # a hyper-parameter OTHER than `param`: every copy an adapter makes of the cost must carry it
            super().__init__(param)

        @property
        def min_size(self):
            return 1

        def _fit(self, X, y=None):
            X = np.asarray(X, dtype=float)
            self._S1 = np.vstack([np.zeros(X.shape[1]), np.cumsum(X, axis=0)])
            self._S2 = np.vstack([np.zeros(X.shape[1]), np.cumsum(X ** 2, axis=0)])
            return self

        def _evaluate_optim_param(self, starts, ends):
            n = (ends - starts).reshape(-1, 1)
            a, q = self._S1[ends] - self._S1[starts], self._S2[ends] - self._S2[starts]
            return self.weight * (n * q - a ** 2)

        def _evaluate_fixed_param(self, starts, ends):
            n = (ends - starts).reshape(-1, 1)
            a, q = self._S1[ends] - self._S1[starts], self._S2[ends] - self._S2[starts]
            th = float(self.param)
            return self.weight * (n * (q - 2 * th * a + n * th * th))

    class RangeCost(BaseCost):
        """max - min of the slice per column (optimal mode only)"""

        def __init__(self, param=None):
            super().__init__(param)

        @property
        def min_size(self):
            return 1

        def _fit(self, X, y=None):
            self._Xa = np.asarray(X, dtype=float)
            return self

        def _evaluate_optim_param(self, starts, ends):
            return np.asarray([self._Xa[s:e].max(axis=0) - self._Xa[s:e].min(axis=0) for s, e in zip(starts, ends)])

    from skchange.costs import L2Cost as _L2

    class TripleL2(_L2):
        """user subclass of the built-in L2Cost that reuses its fit but scales the evaluation (3 x squared error)"""

        def _evaluate_optim_param(self, starts, ends):
            return 3.0 * super()._evaluate_optim_param(starts, ends)

        def _evaluate_fixed_param(self, starts, ends):
            return 3.0 * super()._evaluate_fixed_param(starts, ends)

    class AbsDevCost(BaseCost):
        """sum of absolute deviations from the (lower) median per column; reads the documented attribute self._X at evaluation time"""

        def __init__(self, param=None):
            super().__init__(param)

        @property
        def min_size(self):
            return 1

        def _fit(self, X, y=None):
            return self

        def _evaluate_optim_param(self, starts, ends):
            Xa = np.asarray(self._X, dtype=float)
            if Xa.ndim == 1:
                Xa = Xa.reshape(-1, 1)
            out = []
            for s, e in zip(starts, ends):
                seg = np.sort(Xa[s:e], axis=0)
                med = seg[(len(seg) - 1) // 2]
                out.append(np.abs(Xa[s:e] - med).sum(axis=0))
            return np.asarray(out)

    return NScaledL2, RangeCost, TripleL2, AbsDevCost


def nl2(x, theta=None):
    """reference definitions on a slice (integers)"""
    x = [int(v) for v in x]
    n = len(x)
    if theta is None:
        return n * sum(v * v for v in x) - sum(x) ** 2
    return n * sum((v - theta) ** 2 for v in x)


def rng_cost(x, theta=None):
    x = [int(v) for v in x]
    return max(x) - min(x)


def absdev(x, theta=None):
    x = sorted(int(v) for v in x)
    med = x[(len(x) - 1) // 2]
    return sum(abs(v - med) for v in x)


def run(ctx):
    sys.path.insert(0, f"{VERIF}/translator")
    import py2coq
    from skchange.anomaly_scores import L2Saving, LocalAnomalyScore, Saving
    from skchange.change_scores import CUSUM, ChangeScore
    from skchange.costs import GaussianCovCost, GaussianVarCost, L2Cost
    NScaledL2, RangeCost, TripleL2, AbsDevCost = make_user_costs()
    from skchange.anomaly_scores import to_saving
    rng = ctx.rng
    ad, ad_meta = [], []

    # ---------- (a) adapters around exact user-defined costs ----------
    for it in range(ctx.n(80, 800)):
        p = rng.choice([1, 2, 3])
        n = rng.randint(3, 14)
        X = np.asarray([[rng.randint(-6, 6) for _ in range(p)] for _ in range(n)], dtype=float)
        for cname, mk, ref in [("NScaledL2", NScaledL2, nl2), ("RangeCost", RangeCost, rng_cost), ("AbsDevCost", AbsDevCost, absdev)]:
            cs = ChangeScore(mk()).fit(X)
            las = LocalAnomalyScore(mk()).fit(X)
            for _ in range(3):
                s = rng.randint(0, n - 2)
                e = rng.randint(s + 2, n)
                k = rng.randint(s + 1, e - 1)
                got = cs.evaluate(np.asarray([[s, k, e]]))[0]
                for j in range(p):
                    col = X[:, j]
                    ad.append(f"(AdChange {zlit(ref(col[s:e]))} {zlit(ref(col[s:k]))} {zlit(ref(col[k:e]))} {zlit(got[j])})")
                    ad_meta.append({"adapter": "ChangeScore", "cost": cname, "X": X.tolist(), "cut": [s, k, e], "column": j, "impl": float(got[j])})
                ctx.case({"ad": "cs", "c": cname, "X": X.tolist(), "cut": [s, k, e]}, nontrivial=s > 0 or e < n,
                         sample={"adapter": "ChangeScore", "cost": cname, "cut": [s, k, e], "value": got.tolist()})
                if e - s >= 3:
                    a = rng.randint(s + 1, e - 2)
                    b = rng.randint(a + 1, e - 1)
                    got = las.evaluate(np.asarray([[s, a, b, e]]))[0]
                    for j in range(p):
                        col = X[:, j]
                        pooled = list(col[s:a]) + list(col[b:e])
                        ad.append(f"(AdLocal {zlit(ref(col[s:e]))} {zlit(ref(col[a:b]))} {zlit(ref(pooled))} {zlit(got[j])})")
                        ad_meta.append({"adapter": "LocalAnomalyScore", "cost": cname, "X": X.tolist(), "cut": [s, a, b, e], "column": j, "impl": float(got[j])})
                    ctx.case({"ad": "las", "c": cname, "X": X.tolist(), "cut": [s, a, b, e]}, nontrivial=True)
            theta = rng.randint(-3, 3)
            wgt = rng.choice([1, 3, 7])
            sv = Saving(NScaledL2(param=theta, weight=wgt)).fit(X)
            for _ in range(3):
                s = rng.randint(0, n - 1)
                e = rng.randint(s + 1, n)
                got = sv.evaluate(np.asarray([[s, e]]))[0]
                for j in range(p):
                    col = X[:, j]
                    ad.append(f"(AdSaving {zlit(wgt * nl2(col[s:e], theta))} {zlit(wgt * nl2(col[s:e]))} {zlit(got[j])})")
                    ad_meta.append({"adapter": "Saving", "cost": f"NScaledL2({theta}, weight={wgt})", "X": X.tolist(), "cut": [s, e], "column": j, "impl": float(got[j])})
                ctx.case({"ad": "sv", "X": X.tolist(), "cut": [s, e], "th": theta}, nontrivial=s > 0 or e < n)
            # Saving / to_saving around a user SUBCLASS of the built-in L2Cost (baseline mean 0): 3 * (sum x)^2 / n, compared as n * value = 3 (sum x)^2
            for conv in ("Saving", "to_saving"):
                tl = TripleL2(param=0.0)
                svt = (Saving(tl) if conv == "Saving" else to_saving(tl)).fit(X)
                s = rng.randint(0, n - 1)
                e = rng.randint(s + 1, n)
                got = svt.evaluate(np.asarray([[s, e]]))[0]
                for j in range(p):
                    want_n = 3 * int(sum(X[s:e, j])) ** 2
                    if abs(got[j] * (e - s) - want_n) > 1e-6 * (abs(want_n) + 1):
                        ctx.violation(f"{conv}(user subclass of L2Cost, baseline 0) on [{s},{e}) column {j} = {got[j]}; the definition C_fixed - C_optimal of THAT cost "
                                      f"is {want_n / (e - s)}", {"X": X.tolist(), "cut": [s, e], "adapter": conv}, {"what": "saving", "cost": "user-subclass-of-L2Cost"})
                ctx.case({"ad": "triple", "X": X.tolist(), "cut": [s, e], "conv": conv}, nontrivial=True)
        ctx.count("stream", "user-cost adapters")
    bad = coq_bad_cases(ctx.cid, HEADER, "ad_case", "ad_ok", ad, shard=1500, tag="ad")
    for i in bad[:25]:
        m = ad_meta[i]
        ctx.violation(f"{m['adapter']}({m['cost']}) on cut {m['cut']}, column {m['column']}: value {m['impl']} is not the defining cost difference", m,
                      {"what": "adapter", "adapter": m["adapter"]})

    # ---------- (b) built-in costs and direct scores ----------
    kq, kq_meta = [], []
    for it in range(ctx.n(50, 500)):
        p = rng.choice([1, 2, 3])
        n = rng.randint(6, 30)
        X = np.asarray([[rng.randint(-64, 64) / 8.0 for _ in range(p)] for _ in range(n)])
        if rng.random() < 0.3:
            c = rng.randint(2, n - 2)
            X[c:] += rng.choice([-6.0, 4.5])
        scale = float(np.sum(X ** 2)) + n * 40 + 1
        inp0 = {"n": n, "p": p, "X": X.tolist()}
        costs = [("l2", L2Cost, 1), ("gvar", GaussianVarCost, 2), ("gcov", GaussianCovCost, p + 1)]
        cusum, l2sav = CUSUM().fit(X), L2Saving().fit(X)
        sav0 = Saving(L2Cost(0.0)).fit(X)
        for kind, K, ms in costs:
            if n < 2 * ms + 2:
                continue
            cs, las, c_opt = ChangeScore(K()).fit(X), LocalAnomalyScore(K()).fit(X), K().fit(X)
            for _ in range(3):
                s = rng.randint(0, n - 2 * ms)
                e = rng.randint(s + 2 * ms, n)
                k = rng.randint(s + ms, e - ms)
                inp = dict(inp0, cost=kind, cut=[s, k, e])
                try:
                    got = cs.evaluate(np.asarray([[s, k, e]]))[0]
                    want = direct.change_direct(kind, X, s, k, e)
                    whole, left, right = (c_opt.evaluate(np.asarray([iv]))[0] for iv in ([s, e], [s, k], [k, e]))
                except RuntimeError:
                    continue
                ctx.case({"b": kind, "X": X.tolist(), "cut": [s, k, e]}, nontrivial=s > 0 or e < n,
                         sample={"score": f"ChangeScore({kind})", "cut": [s, k, e], "value": got.tolist()})
                ctx.count("builtin", kind)
                if not direct.close(got, want, scale=scale):
                    ctx.violation(f"ChangeScore({kind}) on {[s, k, e]} = {got.tolist()}, definition C(s,e)-C(s,k)-C(k,e) from the rows = {np.asarray(want).tolist()}",
                                  inp, {"what": "change-score", "cost": kind})
                floor_hit = kind == "gvar" and any(np.any(((X[a:b] - X[a:b].mean(axis=0)) ** 2).mean(axis=0) < 1e-9) for a, b in ([s, k], [k, e], [s, e]))
                if not floor_hit and np.any(got < -1e-7 * scale) or (not floor_hit and np.any(left + right > whole + 1e-7 * scale)):
                    ctx.violation(f"{kind}: splitting [{s},{e}) at {k} increases the optimal cost / change score negative: {left.tolist()} + {right.tolist()} > {whole.tolist()}",
                                  inp, {"what": "split-inequality", "cost": kind})
                if kind == "l2":
                    cu = cusum.evaluate(np.asarray([[s, k, e]]))[0]
                    if not (direct.close(cu ** 2, got, scale=scale) and direct.close(cu, direct.cusum_direct(X, s, k, e), scale=np.sqrt(scale))):
                        ctx.violation(f"CUSUM({[s, k, e]})^2 = {(cu ** 2).tolist()} differs from ChangeScore(L2Cost) = {got.tolist()}", inp,
                                      {"what": "cusum-vs-l2"})
                    S1 = np.vstack([np.zeros(p), np.cumsum(X, axis=0)])
                    for j in range(p):
                        tr = py2coq.pyeval(py2coq.to_ir("cusum_score", engine_repo()), {"S1": S1[:, j], "s": s, "k": k, "e": e})
                        if not direct.close([cu[j]], [tr], scale=1e-6):
                            ctx.mismatch(f"translated cusum kernel gives {tr}, the real function {cu[j]}", inp, {"what": "translator-vs-code", "kernel": "cusum_score"})
                # local anomaly score
                if e - s >= 3 * ms:
                    a = rng.randint(s, e - 2 * ms)
                    a = max(a, s + (ms if rng.random() < 0.5 else 0))
                    b = rng.randint(a + ms, e)
                    if (a - s) + (e - b) >= ms and b - a >= ms and a > s - 1 and b <= e and (a > s or b < e):
                        try:
                            gl = las.evaluate(np.asarray([[s, a, b, e]]))[0]
                            wl = direct.local_direct(kind, X, s, a, b, e)
                        except (RuntimeError, ValueError):
                            gl = None
                        if gl is not None:
                            ctx.case({"b": "las" + kind, "X": X.tolist(), "cut": [s, a, b, e]}, nontrivial=True)
                            if not direct.close(gl, wl, scale=scale):
                                ctx.violation(f"LocalAnomalyScore({kind}) on {[s, a, b, e]} = {gl.tolist()}, definition gives {np.asarray(wl).tolist()}",
                                              dict(inp0, cost=kind, cut=[s, a, b, e]), {"what": "local-score", "cost": kind})
            # savings: baseline minus optimal, optimal <= fixed
            for _ in range(2):
                s = rng.randint(0, n - ms)
                e = rng.randint(s + ms, n)
                if kind == "l2":
                    par, dpar = 0.5, 0.5
                elif kind == "gvar":
                    par, dpar = (0.5, 2.0), (0.5, 2.0)
                elif rng.random() < 0.5:
                    par, dpar = (0.0, 2.0), (0.0, 2.0)
                else:
                    Lm = np.tril(np.asarray([[rng.randint(-3, 3) / 4.0 for _ in range(p)] for _ in range(p)])) + np.eye(p) * 1.5
                    covm = Lm @ Lm.T
                    mvec = np.asarray([rng.randint(-8, 8) / 8.0 for _ in range(p)])
                    par, dpar = (mvec, covm), (mvec, covm)
                inp = dict(inp0, cost=kind, cut=[s, e], baseline=str(par))
                try:
                    gs = Saving(K(par)).fit(X).evaluate(np.asarray([[s, e]]))[0]
                    ws = direct.saving_direct(kind, dpar, X, s, e)
                except RuntimeError:
                    continue
                ctx.case({"b": "sav" + kind, "X": X.tolist(), "cut": [s, e]}, nontrivial=s > 0 or e < n)
                if not direct.close(gs, ws, scale=scale):
                    ctx.violation(f"Saving({kind}{par}) on {[s, e]} = {gs.tolist()}, definition C_fixed - C_optimal = {np.asarray(ws).tolist()}", inp,
                                  {"what": "saving", "cost": kind})
                floor_hit = kind == "gvar" and np.any(((X[s:e] - X[s:e].mean(axis=0)) ** 2).mean(axis=0) < 1e-9)
                if not floor_hit and np.any(gs < -1e-7 * scale):
                    ctx.violation(f"{kind}: the optimal-parameter cost exceeds the cost at the fixed parameter {par} on {[s, e]}: saving {gs.tolist()}", inp,
                                  {"what": "optim-le-fixed", "cost": kind})
        # ---- the same adapter instances refitted on a second series: values must be those of the series fitted LAST ----
        X2 = np.asarray([[rng.randint(-64, 64) / 8.0 for _ in range(p)] for _ in range(n)])
        scale2 = float(np.sum(X2 ** 2)) + n * 40 + 1
        for kind, K, ms in costs[:2]:
            if n < 3 * ms + 2:
                continue
            cs_r, las_r, sv_r = ChangeScore(K()), LocalAnomalyScore(K()), Saving(K(0.5 if kind == "l2" else (0.5, 2.0)))
            s = rng.randint(0, n - 3 * ms - 1)
            e = rng.randint(s + 3 * ms + 1, n)
            k = rng.randint(s + ms, e - ms)
            a = rng.randint(s + 1, e - ms - 1)
            b = rng.randint(a + ms, e - 1)
            cut3, cut4, cut2 = np.asarray([[s, k, e]]), np.asarray([[s, a, b, e]]), np.asarray([[s, e]])
            ok4 = (a - s) + (e - b) >= ms
            for obj in (cs_r, las_r, sv_r):
                obj.fit(X)
            cs_r.evaluate(cut3), sv_r.evaluate(cut2)
            if ok4:
                las_r.evaluate(cut4)
            for obj in (cs_r, las_r, sv_r):
                obj.fit(X2)
            got = [cs_r.evaluate(cut3)[0], sv_r.evaluate(cut2)[0]] + ([las_r.evaluate(cut4)[0]] if ok4 else [])
            want = [direct.change_direct(kind, X2, s, k, e), direct.saving_direct(kind, 0.5 if kind == "l2" else (0.5, 2.0), X2, s, e)] + \
                   ([direct.local_direct(kind, X2, s, a, b, e)] if ok4 else [])
            ctx.case({"refit": kind, "X": X.tolist(), "X2": X2.tolist(), "cut": [s, a, b, k, e]}, nontrivial=True)
            for nm, g, w in zip(("ChangeScore", "Saving", "LocalAnomalyScore"), got, want):
                if not direct.close(g, w, scale=scale2):
                    ctx.violation(f"{nm}({kind}) refitted on a second series returns {np.asarray(g).tolist()}, the definition on the series fitted last gives "
                                  f"{np.asarray(w).tolist()}", dict(inp0, X2=X2.tolist(), cost=kind, cuts=[[s, k, e], [s, e], [s, a, b, e]]),
                                  {"what": "refit", "adapter": nm, "cost": kind})
        # ---- to_saving of an L2Cost whose baseline mean vector has some (not all) zero entries ----
        if p >= 2:
            mu = np.asarray([0.0] + [rng.choice([1.5, -2.0, 3.0]) for _ in range(p - 1)])
            rng.shuffle(mu)
            ts_ = to_saving(L2Cost(mu)).fit(X)
            for _ in range(2):
                s = rng.randint(0, n - 1)
                e = rng.randint(s + 1, n)
                g = ts_.evaluate(np.asarray([[s, e]]))[0]
                w = direct.saving_direct("l2", mu, X, s, e)
                ctx.case({"b": "to_saving", "X": X.tolist(), "mu": mu.tolist(), "cut": [s, e]}, nontrivial=True)
                if not direct.close(g, w, scale=scale):
                    ctx.violation(f"to_saving(L2Cost({mu.tolist()})) on {[s, e]} = {g.tolist()}, definition C_fixed - C_optimal = {np.asarray(w).tolist()}",
                                  dict(inp0, baseline=mu.tolist(), cut=[s, e]), {"what": "saving", "cost": "l2-mixed-zero-mean"})
        # L2Saving vs Saving(L2Cost(0)) and the exact twin of l2_saving
        for _ in range(3):
            s = rng.randint(0, n - 1)
            e = rng.randint(s + 1, n)
            a_, b_ = l2sav.evaluate(np.asarray([[s, e]]))[0], sav0.evaluate(np.asarray([[s, e]]))[0]
            ctx.case({"b": "l2sav", "X": X.tolist(), "cut": [s, e]}, nontrivial=s > 0 or e < n)
            if not (direct.close(a_, b_, scale=scale) and direct.close(a_, direct.l2saving_direct(X, s, e), scale=scale)):
                ctx.violation(f"L2Saving({[s, e]}) = {a_.tolist()} differs from Saving(L2Cost(0)) = {b_.tolist()}", dict(inp0, cut=[s, e]),
                              {"what": "l2saving-vs-saving"})
            for j in range(p):
                col = [Fraction(float(v)) for v in X[:, j]]
                v = Fraction(float(a_[j]))
                tol = Fraction(1e-9) * (Fraction(float(np.sum(X[s:e, j] ** 2))) * (e - s) + 1)
                kq.append("{| kq_kind_ := KL2Saving; kq_xs := %s; kq_mu := 0; kq_s := %d%%nat; kq_e := %d%%nat; kq_lo := %s; kq_hi := %s |}"
                          % (coq_list([qlit(c) for c in col]), s, e, qlit(v - tol), qlit(v + tol)))
                kq_meta.append(dict(inp0, cut=[s, e], column=j, value=float(a_[j])))
    if kq:
        bad = coq_bad_cases(ctx.cid, HEADER + "\nOpen Scope Q_scope.", "kq_case", "kq_ok", kq, shard=150, tag="kq")
        for i in bad[:20]:
            m = kq_meta[i]
            ctx.violation(f"L2Saving: column {m['column']} of {m['cut']}: real value {m['value']} outside the bracket around the exact twin of l2_saving "
                          f"generated from the source, or twin differs from (sum)^2 / n", m, {"what": "twin", "kernel": "l2_saving"})
    sys.path.pop(0)
    # ---- long series, cuts of a narrower integer dtype: the values must not depend on the dtype of the cuts array ----
    for it in range(ctx.n(2, 8)):
        n = 3000 + rng.randint(0, 500)
        p = rng.choice([1, 2])
        X = np.asarray([[rng.gauss(0, 1) + (2.0 if t > n // 3 else 0.0) for _ in range(p)] for t in range(n)])
        cuts3 = np.asarray([[0, n // 3, n], [0, n // 2, n], [10, 1500, n - 7], [100, 160, 230]])
        cuts2 = cuts3[:, [0, 2]]
        for name, sc, cuts in [("CUSUM", CUSUM().fit(X), cuts3), ("ChangeScore(L2Cost)", ChangeScore(L2Cost()).fit(X), cuts3), ("L2Saving", L2Saving().fit(X), cuts2),
                               ("L2Cost", L2Cost().fit(X), cuts2)]:
            ref64 = sc.evaluate(cuts.astype(np.int64))
            for dt in (np.int32, np.uint32):
                got = sc.evaluate(cuts.astype(dt))
                ctx.case({"long": name, "it": it, "dt": str(dt)}, nontrivial=True)
                if not (np.all(np.isfinite(got)) and direct.close(got, ref64, scale=1.0)):
                    ctx.violation(f"{name}: cuts of dtype {np.dtype(dt).name} on a series of {n} rows give {got.tolist()[:2]}..., the same cuts as int64 give "
                                  f"{ref64.tolist()[:2]}...", {"n": n, "p": p, "cuts": cuts.tolist(), "dtype": np.dtype(dt).name}, {"what": "cuts-dtype", "scorer": name})
        cu = CUSUM().fit(X).evaluate(cuts3) ** 2
        l2 = ChangeScore(L2Cost()).fit(X).evaluate(cuts3)
        if not direct.close(cu, l2, scale=float(np.sum(X ** 2))):
            ctx.violation("CUSUM^2 differs from ChangeScore(L2Cost) on a long series", {"n": n, "cuts": cuts3.tolist()}, {"what": "cusum-vs-l2", "long": True})
    # ---- integer-dtype data with NON-integer fixed parameters: the baseline parameter must not be coerced to the data's dtype ----
    from skchange.costs import GaussianVarCost
    for it in range(ctx.n(6, 40)):
        n = rng.randint(8, 30)
        p = rng.choice([1, 2, 3])
        Xi = np.asarray([[rng.randint(0, 9) + (5 if t > n // 2 else 0) for _ in range(p)] for t in range(n)], dtype=np.int64)
        Xf = Xi.astype(float)
        mu = rng.choice([2.5, 0.25, -1.75, 3.1])
        var = rng.choice([4.5, 0.5, 2.25])
        s = rng.randint(0, n - 3)
        e = rng.randint(s + 2, n)
        cut = np.asarray([[s, e]])
        plans = [("L2Cost(%r)" % mu, lambda: L2Cost(mu), lambda X: direct.cost_direct("l2", mu, X, s, e)),
                 ("GaussianVarCost((%r, %r))" % (mu, var), lambda: GaussianVarCost((mu, var)), lambda X: direct.cost_direct("gvar", (mu, var), X, s, e)),
                 ("Saving(L2Cost(%r))" % mu, lambda: Saving(L2Cost(mu)), lambda X: direct.saving_direct("l2", mu, X, s, e)),
                 ("Saving(GaussianVarCost((%r, %r)))" % (mu, var), lambda: Saving(GaussianVarCost((mu, var))), lambda X: direct.saving_direct("gvar", (mu, var), X, s, e))]
        for name, mk, ref in plans:
            want = np.asarray(ref(Xf), dtype=float)
            for tag, Xin in (("int64 ndarray", Xi), ("integer DataFrame", pd.DataFrame(Xi)), ("float64 ndarray", Xf)):
                ctx.case({"intdata": name, "it": it, "tag": tag, "cut": [s, e]}, nontrivial=True)
                try:
                    got = mk().fit(Xin).evaluate(cut)[0]
                except Exception as ex:
                    ctx.violation(f"{name} on {tag}: raised {type(ex).__name__}: {str(ex)[:100]}", {"X": Xi.tolist(), "cut": [s, e], "container": tag},
                                  {"what": "int-data-exception", "scorer": name.split("(")[0]})
                    continue
                if not direct.close(got, want, scale=float(np.sum(Xf ** 2)) + 1.0):
                    ctx.violation(f"{name} fitted on {tag} gives {np.asarray(got).tolist()} on {[s, e]}, the definition with the parameter as given gives {want.tolist()} "
                                  f"(a non-integer baseline parameter must not be converted to the data's integer dtype)",
                                  {"X": Xi.tolist(), "cut": [s, e], "container": tag, "mean": mu, "var": var}, {"what": "int-data-fixed-param", "scorer": name.split("(")[0]})
    # ---- the OPERATION ORDER of the CUSUM score on binary64, bit for bit (Check/FloatKernelCheck2.v), and the premise of the refinement theorem
    # ---- C06_primitive_float_cusum_program_refines_rounding_model on the same cases
    from harness.floatstreams import fl, flist
    fcu_terms, fcu_meta = [], []
    rng_f = np.random.default_rng(ctx.seed + 606)
    for it in range(ctx.n(60, 500)):
        n = int(rng_f.integers(3, 60))
        p = int(rng_f.integers(1, 4))
        Xf = rng_f.normal(size=(n, p)) * float(rng_f.choice([1.0, 1e-3, 1e4, 37.5])) + float(rng_f.choice([0.0, 1e3, -7.25]))
        s_ = int(rng_f.integers(0, n - 2))
        k_ = int(rng_f.integers(s_ + 1, n))
        e_ = int(rng_f.integers(k_ + 1, n + 1))
        vals = CUSUM().fit(Xf).evaluate(np.asarray([[s_, k_, e_]]))[0]
        for j in range(p):
            fcu_terms.append("{| fcu_xs := %s; fcu_s := %d%%nat; fcu_k := %d%%nat; fcu_e := %d%%nat; fcu_val := %s |}" % (flist(Xf[:, j]), s_, k_, e_, fl(vals[j])))
            fcu_meta.append({"X_column": Xf[:, j].tolist(), "cut": [s_, k_, e_], "impl_value": float(vals[j]), "column": j})
        ctx.case({"fcu": it, "n": n, "cut": [s_, k_, e_], "x0": float(Xf[0, 0])}, nontrivial=True)
        ctx.count("float_kernel", "cusum")
    fcu_header = ("From Coq Require Import PrimFloat List Arith Bool.\nFrom SK Require Import Lib.Base Check.FloatKernelCheck Check.FloatKernelCheck2 Proofs.FloatKernels2.\n"
                  "Import ListNotations.\nOpen Scope float_scope.")
    prem = coq_bad_cases(ctx.cid, fcu_header, "fcu_case", "(fun c => cusum_trace_ok (fcu_xs c) (fcu_s c) (fcu_k c) (fcu_e c))", fcu_terms, shard=120, tag="fcuprem")
    ctx.notes["float_refinement_premise"] = f"cusum_trace_ok holds on {len(fcu_meta) - len(prem)} of {len(fcu_meta)} cases"
    if len(prem) > len(fcu_meta) // 10:
        ctx.mismatch(f"the premise cusum_trace_ok of the float refinement theorem fails on {len(prem)} of {len(fcu_meta)} ordinary cases", {"first": fcu_meta[prem[0]]},
                     {"what": "float-refinement-premise"})
    for i in coq_bad_cases(ctx.cid, fcu_header, "fcu_case", "fcu_ok", fcu_terms, shard=120, tag="fcu")[:20]:
        m = fcu_meta[i]
        ctx.mismatch(f"CUSUM().evaluate({m['cut']}) = {m['impl_value']!r} is not what the kernel's documented operation order (sequential prefix sums, weights sqrt(na / (n nb)) and "
                     f"sqrt(nb / (n na)) with integer products, |bw before - aw after|) gives on binary64", m, {"what": "float-operation-order", "kernel": "cusum"})
    # ---- batches in which cuts RECUR, in no particular order (3-point cuts listed by split point share their outer interval; a caller may ask for a cut twice): every row of
    # ---- the result is the defining difference of ITS cut
    from skchange.anomaly_scores import LocalAnomalyScore as _LASb, Saving as _SVb
    from skchange.change_scores import ChangeScore as _CSb
    from skchange.costs import GaussianVarCost as _GVb, L2Cost as _L2b
    rng_b = np.random.default_rng(ctx.seed + 608)
    for it in range(ctx.n(6, 40)):
        n, p = int(rng_b.integers(12, 30)), int(rng_b.integers(1, 4))
        Xb = rng_b.normal(size=(n, p)) * 2.0 + 1.0
        for name_b, mk_b, k_b, ms_b, ref_b in [("ChangeScore(L2Cost)", lambda: _CSb(_L2b()), 3, 1, lambda c: direct.change_direct("l2", Xb, *c)),
                                               ("ChangeScore(GaussianVarCost)", lambda: _CSb(_GVb()), 3, 2, lambda c: direct.change_direct("gvar", Xb, *c)),
                                               ("Saving(L2Cost(0.5))", lambda: _SVb(_L2b(0.5)), 2, 1, lambda c: direct.saving_direct("l2", 0.5, Xb, *c)),
                                               ("LocalAnomalyScore(L2Cost)", lambda: _LASb(_L2b()), 4, 1, lambda c: direct.local_direct("l2", Xb, *c))]:
            cuts_b = []
            while len(cuts_b) < 5:
                pts = sorted(int(v) for v in rng_b.choice(np.arange(0, n + 1), size=k_b, replace=False))
                if all(b_ - a_ >= ms_b for a_, b_ in zip(pts, pts[1:])) and (k_b != 4 or (pts[1] - pts[0]) + (pts[3] - pts[2]) >= ms_b):
                    cuts_b.append(pts)
            order = [3, 0, 4, 0, 2, 3, 1, 3]
            batch = np.asarray([cuts_b[i] for i in order])
            ctx.case({"recurring-batch": name_b, "it": it, "n": n, "p": p}, nontrivial=True)
            ctx.count("recurring_batch", name_b)
            try:
                got = np.asarray(mk_b().fit(Xb).evaluate(batch), dtype=float)
            except Exception as ex:
                ctx.violation(f"{name_b}: a batch with recurring cuts raised {type(ex).__name__}: {str(ex)[:100]}", {"X": Xb.tolist(), "cuts": batch.tolist()},
                              {"what": "recurring-batch-exception", "scorer": name_b.split("(")[0]})
                continue
            for row, cut in zip(got, batch.tolist()):
                want = np.asarray(ref_b(cut), dtype=float)
                if not direct.close(row, want, scale=float(np.sum(Xb ** 2)) + 1.0):
                    ctx.violation(f"{name_b}: in a batch with recurring cuts (order {order}) the row for {cut} is {row.tolist()}, its defining cost difference is {want.tolist()}",
                                  {"X": Xb.tolist(), "cuts": batch.tolist(), "cut": cut}, {"what": "recurring-batch-row", "scorer": name_b.split("(")[0]})
                    break
    # ---- the same for the L2 SAVING (Check/FloatSavingCheck.v, Proofs/FloatSaving.v): L2Saving.evaluate bit for bit, and the premise l2_saving_trace_ok of
    # ---- C06_float_l2_saving_program_refines_rounding_model on the same cases
    from skchange.anomaly_scores import L2Saving as _L2S
    fsv_terms, fsv_meta = [], []
    rng_s = np.random.default_rng(ctx.seed + 607)
    for it in range(ctx.n(60, 500)):
        n = int(rng_s.integers(1, 60))
        p = int(rng_s.integers(1, 4))
        Xf = rng_s.normal(size=(n, p)) * float(rng_s.choice([1.0, 1e-3, 1e4, 37.5])) + float(rng_s.choice([0.0, 0.0, 1e3, -7.25]))
        s_ = int(rng_s.integers(0, n))
        e_ = int(rng_s.integers(s_ + 1, n + 1))
        vals = _L2S().fit(Xf).evaluate(np.asarray([[s_, e_]]))[0]
        for j in range(p):
            fsv_terms.append("{| fsv_xs := %s; fsv_s := %d%%nat; fsv_e := %d%%nat; fsv_val := %s |}" % (flist(Xf[:, j]), s_, e_, fl(vals[j])))
            fsv_meta.append({"X_column": Xf[:, j].tolist(), "cut": [s_, e_], "impl_value": float(vals[j]), "column": j})
        ctx.case({"fsv": it, "n": n, "cut": [s_, e_], "x0": float(Xf[0, 0])}, nontrivial=True)
        ctx.count("float_kernel", "l2_saving")
    fsv_header = ("From Coq Require Import PrimFloat List Arith Bool.\nFrom SK Require Import Lib.Base Check.FloatKernelCheck Check.FloatSavingCheck Proofs.FloatSaving.\n"
                  "Import ListNotations.\nOpen Scope float_scope.")
    prem = coq_bad_cases(ctx.cid, fsv_header, "fsv_case", "(fun c => l2_saving_trace_ok (fsv_xs c) (fsv_s c) (fsv_e c))", fsv_terms, shard=120, tag="fsvprem")
    ctx.notes["float_saving_refinement_premise"] = f"l2_saving_trace_ok holds on {len(fsv_meta) - len(prem)} of {len(fsv_meta)} cases"
    if len(prem) > len(fsv_meta) // 10:
        ctx.mismatch(f"the premise l2_saving_trace_ok of the float refinement theorem fails on {len(prem)} of {len(fsv_meta)} ordinary cases", {"first": fsv_meta[prem[0]]},
                     {"what": "float-refinement-premise", "kernel": "l2_saving"})
    for i in coq_bad_cases(ctx.cid, fsv_header, "fsv_case", "fsv_ok_strict", fsv_terms, shard=120, tag="fsv")[:20]:
        m = fsv_meta[i]
        ctx.mismatch(f"L2Saving().evaluate({m['cut']}) = {m['impl_value']!r} is not what the kernel's operation order (sequential prefix sums, difference, square, division by the "
                     f"length) gives on binary64", m, {"what": "float-operation-order", "kernel": "l2_saving"})
    # ---- MANY columns with a common non-unit scale: the determinant itself leaves the binary64 range long before its logarithm does ----
    from skchange.costs import GaussianCovCost as _GCC
    from skchange.change_scores import ChangeScore as _CS
    from skchange.anomaly_scores import Saving as _SV
    rng_w = np.random.default_rng(ctx.seed + 4545)
    for scale_w in (1.0, 1e4, 1e-4):
        pw, nw = 45, 220
        Xw = rng_w.normal(size=(nw, pw)) * scale_w
        Xw[nw // 2:] += 2.0 * scale_w
        for name_w, mk_w, cuts_w, ref_w in [
                ("GaussianCovCost()", lambda: _GCC(), [[0, nw], [10, 150]], lambda c: direct.cost_direct("gcov", None, Xw, *c)),
                ("ChangeScore(GaussianCovCost())", lambda: _CS(_GCC()), [[0, nw // 2, nw], [5, 100, 200]], lambda c: direct.change_direct("gcov", Xw, *c)),
                ("Saving(GaussianCovCost((0, scale^2)))", lambda: _SV(_GCC((0.0, scale_w ** 2))), [[0, nw], [20, 140]], lambda c: direct.saving_direct("gcov", (0.0, scale_w ** 2), Xw, *c))]:
            ctx.case({"widep": name_w, "scale": scale_w}, nontrivial=True)
            try:
                got_w = mk_w().fit(Xw).evaluate(np.asarray(cuts_w))
            except Exception as ex:
                ctx.violation(f"{name_w} on {nw} x {pw} well-conditioned data of scale {scale_w:g} raised {type(ex).__name__}: {str(ex)[:100]}",
                              {"n": nw, "p": pw, "scale": scale_w, "data_seed": ctx.seed + 4545}, {"what": "wide-p-exception", "scorer": name_w.split("(")[0]})
                continue
            for c_w, g_w in zip(cuts_w, got_w):
                w_w = np.asarray(ref_w(c_w), dtype=float)
                if not (np.all(np.isfinite(g_w)) and direct.close(g_w, w_w, scale=abs(float(w_w[0])) + nw * pw)):
                    ctx.violation(f"{name_w} on {nw} x {pw} data of scale {scale_w:g}: {c_w} -> {np.asarray(g_w).tolist()}, the definition (log-determinant via slogdet) gives {w_w.tolist()}",
                                  {"n": nw, "p": pw, "scale": scale_w, "cut": c_w, "data_seed": ctx.seed + 4545}, {"what": "wide-p-value", "scorer": name_w.split("(")[0]})
