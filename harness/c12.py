"""C12: detections respect the model's symmetries: permutation, shift, scale, reversal."""
import numpy as np
import pandas as pd

from harness import table_scorers as ts
from harness.c03 import pen_callable

INFO = {
    "extra_targets": [],
    "level": "proof",
    "rule": "pairs of runs on X and on a transformed copy (column permutation, per-column shift, positive scale, time reversal): (a) every scorer "
            "(L2 / Gaussian variance / Gaussian covariance costs, CUSUM, cost-based change scores and local anomaly scores) on random admissible cuts, "
            "values compared with a conditioned tolerance, per-column outputs permuted exactly; (b) every detector on seeded data with planted events: "
            "scores compared with tolerance, discrete outputs compared whenever no decision is within the rounding margin (1e-7 relative) of a tie or "
            "of the threshold; (c) exact runs: table costs / savings with permuted columns through PELT, CAPA and MVCAPA (discrete outputs and affected "
            "columns must match exactly; tie-free savings); non-trivial = the detector reports at least one event / the cut is strictly inside the data",
    "trusted_base": ["Coq 8.16.1 kernel; Reals axioms as listed per theorem", "harness/c12.py (metamorphic relations, margin rule)",
                     "translator/py2coq.py for the kernel theorems"],
    "assumptions": ["shifts and scale factors of moderate size; variances well above the 1e-16 floor; discrete outputs are compared only where the "
                    "decision margin exceeds the rounding bound (the property's own wording)"],
}


def close(a, b, scale, extra=0.0):
    """extra: additional absolute tolerance per row (conditioning of the prefix-sum variance), scalar or one entry per cut"""
    a, b = np.asarray(a, dtype=float), np.asarray(b, dtype=float)
    ex = np.asarray(extra, dtype=float)
    if ex.ndim == 1 and a.ndim == 2:
        ex = ex.reshape(-1, 1)
    return a.shape == b.shape and bool(np.all(np.abs(a - b) <= 1e-8 * (np.abs(a) + np.abs(b) + scale) + ex))


def canon(y):
    if "icolumns" in y:
        return [(int(l), int(r), sorted(int(c) for c in cc)) for l, r, cc in zip(y["ilocs"].array.left, y["ilocs"].array.right, y["icolumns"])]
    if len(y) and isinstance(y["ilocs"].iloc[0], pd.Interval):
        return [(int(l), int(r)) for l, r in zip(y["ilocs"].array.left, y["ilocs"].array.right)]
    return [int(v) for v in y["ilocs"]]


def run(ctx):
    from skchange.anomaly_detectors import CAPA, MVCAPA, CircularBinarySegmentation
    from skchange.anomaly_scores import L2Saving, LocalAnomalyScore
    from skchange.change_detectors import PELT, MovingWindow, SeededBinarySegmentation
    from skchange.change_scores import CUSUM, ChangeScore
    from skchange.costs import GaussianCovCost, GaussianVarCost, L2Cost
    rng = ctx.rng

    def v(what, inp, sig):
        ctx.violation(what, inp, sig)

    # ---------------- (a) scorers ----------------
    for it in range(ctx.n(60, 600)):
        p = rng.choice([1, 2, 3, 4, 5])
        n = rng.randint(8, 30)
        X = np.asarray([[rng.gauss(0, 2) + (3 if (t > n // 2 and j == 0) else 0) for j in range(p)] for t in range(n)])
        if it % 5 == 4:
            X = 1000.0 + 0.02 * X          # a high level with a small spread (pressure-like readings): shift / scale invariance must survive it
        perm = list(range(p))
        rng.shuffle(perm)
        shift = np.asarray([rng.choice([-7.5, 2.0, 11.25]) for _ in range(p)])
        a = rng.choice([0.5, 3.0, 8.0, 3.0e-5, 2.0e-4, 0.1, 0.02])
        scale = float(np.sum(X ** 2)) * max(1, a * a) + float(np.sum(shift ** 2)) * n + n * 50
        Xp, Xs, Xa, Xr = X[:, perm], X + shift, X * a, X[::-1].copy()
        inp0 = {"n": n, "p": p, "X": X.tolist(), "perm": perm, "shift": shift.tolist(), "scale": a}
        scorers = [
            ("L2Cost", lambda: L2Cost(), 2, 1, True, True, False),
            ("GaussianVarCost", lambda: GaussianVarCost(), 2, 2, True, True, False),
            ("GaussianCovCost", lambda: GaussianCovCost(), 2, p + 1, False, True, False),
            ("CUSUM", lambda: CUSUM(), 3, 1, True, True, False),
            ("ChangeScore(L2Cost)", lambda: ChangeScore(L2Cost()), 3, 1, True, True, False),
            ("ChangeScore(GaussianVarCost)", lambda: ChangeScore(GaussianVarCost()), 3, 2, True, True, True),
            ("ChangeScore(GaussianCovCost)", lambda: ChangeScore(GaussianCovCost()), 3, p + 1, False, True, True),
            ("LocalAnomalyScore(L2Cost)", lambda: LocalAnomalyScore(L2Cost()), 4, 1, True, True, False),
            ("LocalAnomalyScore(GaussianVarCost)", lambda: LocalAnomalyScore(GaussianVarCost()), 4, 2, True, True, True),
            ("L2Saving", lambda: L2Saving(), 2, 1, True, False, False),
        ]
        for name, mk, k, ms, percol, shift_inv, scale_inv in scorers:
            need = {2: ms, 3: 2 * ms, 4: 2 * ms}[k]
            if n < need + 2:
                continue
            cuts = []
            for _ in range(4):
                if k == 2:
                    s = rng.randint(0, n - ms); e = rng.randint(s + ms, n); cuts.append([s, e])
                elif k == 3:
                    s = rng.randint(0, n - 2 * ms); e = rng.randint(s + 2 * ms, n); cuts.append([s, rng.randint(s + ms, e - ms), e])
                else:
                    s = rng.randint(0, n - 2 * ms - 1); e = rng.randint(s + 2 * ms + 1, n)
                    a_ = rng.randint(s + 1, e - ms - 1); b_ = rng.randint(a_ + ms, e - 1)
                    if (a_ - s) + (e - b_) < ms:
                        continue
                    cuts.append([s, a_, b_, e])
            if not cuts:
                continue
            extra = 0.0
            if "Gaussian" in name:
                # the prefix-sum variance S2/n - (S1/n)^2 loses about eps * (mean^2 + var) / var relative accuracy; the log-variance terms of a cut of
                # total length L then move by about L * that.  The tolerance is conditioned accordingly (factor 50 of slack); cuts where even that
                # exceeds 1e-3 (variance below ~1e-11 of the squared level, or essentially constant parts) are not compared.
                def condition(cut):
                    parts = list(zip(cut[:-1], cut[1:])) + [(cut[0], cut[-1])]
                    worst = 0.0
                    for Xv in (X, Xs, Xa):
                        segs = [Xv[a_:b_] for a_, b_ in parts]
                        if k == 4:
                            segs.append(np.concatenate((Xv[cut[0]:cut[1]], Xv[cut[2]:cut[3]])))
                        for seg in segs:
                            if len(seg):
                                var_, m2 = seg.var(axis=0), seg.mean(axis=0) ** 2
                                if np.any(var_ < 1e-250):
                                    return np.inf
                                worst = max(worst, float(np.max((m2 + var_) / var_)))
                    return 50 * 2.3e-16 * worst * (cut[-1] - cut[0])
                tol_rows = [condition(c_) for c_ in cuts]
                kept = [(c_, t_) for c_, t_ in zip(cuts, tol_rows) if t_ < 1e-3]
                ctx.count("ill_conditioned_cuts_skipped", len(cuts) - len(kept))
                cuts = [c_ for c_, _ in kept]
                extra = np.asarray([t_ for _, t_ in kept])
                if not cuts:
                    continue
            cuts = np.asarray(cuts)
            mirrored = (n - cuts[:, ::-1])
            inp = dict(inp0, scorer=name, cuts=cuts.tolist())
            try:
                base = mk().fit(X).evaluate(cuts)
            except RuntimeError:
                continue          # the documented error of the reference run (a sample covariance that is not positive definite)
            try:
                vp = mk().fit(Xp).evaluate(cuts)
                vs = mk().fit(Xs).evaluate(cuts)
                va = mk().fit(Xa).evaluate(cuts)
                vr = mk().fit(Xr).evaluate(mirrored)
            except RuntimeError as ex:
                # positive definiteness of a sample covariance is itself invariant under column permutation, shift, positive scaling and reversal: when the
                # reference run succeeds on WELL-CONDITIONED segments, the transformed run must succeed too
                def well_conditioned():
                    for c_ in cuts:
                        for a_, b_ in list(zip(c_[:-1], c_[1:])) + [(c_[0], c_[-1])]:
                            seg = X[a_:b_]
                            if len(seg) > p:
                                ev = np.linalg.eigvalsh(np.cov(seg.T, ddof=0).reshape(p, p))
                                if ev[0] <= 1e-6 * ev[-1]:
                                    return False
                    return True
                if well_conditioned():
                    v(f"{name}: evaluate works on X but raises {type(ex).__name__} ({str(ex)[:80]}) on a permuted / shifted / scaled (factor {a}) / reversed copy although every "
                      f"segment's covariance is well conditioned", inp, {"what": "symmetry-error", "scorer": name})
                continue
            ctx.case({"s": name, "X": X.tolist(), "cuts": cuts.tolist()}, nontrivial=True,
                     sample={"scorer": name, "p": p, "cuts": cuts.tolist()[:2], "values": base.tolist()[:2]})
            ctx.count("scorer", name)
            if percol:
                if not np.array_equal(vp, base[:, perm]):
                    v(f"{name}: permuting the columns of X does not permute the per-column outputs exactly", inp, {"what": "permutation", "scorer": name})
            elif not close(vp, base, scale, extra):
                v(f"{name}: value changes under a column permutation: {base.tolist()} vs {vp.tolist()}", inp, {"what": "permutation", "scorer": name})
            if shift_inv and not close(vs, base, scale, extra):
                v(f"{name}: adding a constant to each column changes the value: {base.tolist()} vs {vs.tolist()}", inp, {"what": "shift", "scorer": name})
            if scale_inv and not close(va, base, scale, extra):
                v(f"{name}: multiplying X by {a} changes the value: {base.tolist()} vs {va.tolist()}", inp, {"what": "scale", "scorer": name})
            if not close(vr, base, scale, extra):
                v(f"{name}: time reversal does not map the values to those of the mirrored cuts: {base.tolist()} vs {vr.tolist()}", inp,
                  {"what": "reversal", "scorer": name})

    # ---------------- (b) detectors on real data ----------------
    def planted(n, p):
        X = np.asarray([[rng.gauss(0, 1) for _ in range(p)] for _ in range(n)])
        a, b = sorted(rng.sample(range(8, n - 8), 2))
        if b - a < 4:
            b = a + 4
        X[a:b, : max(1, p - 1)] += rng.choice([5.0, -6.0, 8.0])
        return X

    for it in range(ctx.n(10, 80)):
        p = rng.choice([2, 3])
        n = rng.randint(40, 70)
        X = planted(n, p)
        perm = list(range(p))
        while perm == list(range(p)):
            rng.shuffle(perm)
        shift = np.asarray([rng.choice([-5.0, 3.5, 20.0]) for _ in range(p)])
        a = rng.choice([0.25, 2.0, 6.0])
        inp0 = {"n": n, "p": p, "X": X.tolist(), "perm": perm, "shift": shift.tolist(), "scale": a}
        dets = [
            ("PELT(L2Cost)", lambda: PELT(cost=L2Cost(), min_segment_length=2), True, False),
            ("PELT(GaussianVarCost)", lambda: PELT(cost=GaussianVarCost(), min_segment_length=3), True, False),
            ("MovingWindow(CUSUM)", lambda: MovingWindow(bandwidth=5), True, False),
            ("MovingWindow(GaussianVarCost)", lambda: MovingWindow(change_score=GaussianVarCost(), bandwidth=6), True, True),
            ("SeededBinarySegmentation(CUSUM)", lambda: SeededBinarySegmentation(min_segment_length=3), True, False),
            ("SeededBinarySegmentation(GaussianVarCost)", lambda: SeededBinarySegmentation(change_score=GaussianVarCost(), min_segment_length=4), True, True),
            ("CircularBinarySegmentation(L2Cost)", lambda: CircularBinarySegmentation(min_segment_length=3, max_interval_length=30), True, False),
            ("CAPA", lambda: CAPA(), False, False),
            ("MVCAPA", lambda: MVCAPA(), False, False),
            ("MVCAPA(intermediate)", lambda: MVCAPA(collective_penalty="intermediate", point_penalty="intermediate"), False, False),
        ]
        for name, mk, shift_inv, scale_inv in dets:
            def out(Xv):
                d = mk().fit(pd.DataFrame(X))       # thresholds from the ORIGINAL shape: the same in every run
                d.fit(pd.DataFrame(Xv))
                y = d.predict(pd.DataFrame(Xv))
                try:
                    d.transform_scores(pd.DataFrame(Xv))
                except NotImplementedError:
                    pass
                scv = None
                try:
                    scv = np.asarray(d.scores["score"] if isinstance(d.scores, pd.DataFrame) else d.scores, dtype=float)
                except Exception:
                    pass
                thr = getattr(d, "threshold_", getattr(d, "penalty_", None))
                return y, scv, thr
            try:
                y0, s0, thr = out(X)
            except Exception as ex:
                v(f"{name} raised {type(ex).__name__}: {str(ex)[:100]}", dict(inp0, detector=name), {"what": "exception", "detector": name})
                continue
            c0 = canon(y0)
            ctx.case({"d": name, "X": X.tolist()}, nontrivial=len(c0) > 0, sample={"detector": name, "n": n, "p": p, "events": c0})
            ctx.count("detector", name)

            def near_tie(sc, thr):
                if sc is None:
                    return False
                srt = np.sort(np.asarray(sc, dtype=float))
                gap = np.min(np.diff(srt)[np.diff(srt) > 0]) if np.any(np.diff(srt) > 0) else 1.0
                tol = 1e-7 * (1 + np.max(np.abs(srt)))
                return bool(gap < tol or (thr is not None and np.min(np.abs(srt - thr)) < tol))

            variants = [("permutation", X[:, perm], True)]
            if shift_inv:
                variants.append(("shift", X + shift, True))
            if scale_inv:
                variants.append(("scale", X * a, True))
            for kind, Xv, _ in variants:
                try:
                    y1, s1, _ = out(Xv)
                except Exception as ex:
                    v(f"{name} raised {type(ex).__name__} on the transformed data ({kind})", dict(inp0, detector=name, transform=kind),
                      {"what": "exception", "detector": name})
                    continue
                c1 = canon(y1)
                if name.startswith("MVCAPA") and kind == "permutation":
                    # column j of the permuted data is column perm[j] of the original
                    c1 = [(l, r, sorted(perm[c] for c in cols)) for l, r, cols in c1]
                scale_ref = float(np.max(np.abs(s0))) + 1 if s0 is not None else 1.0
                if s0 is not None and s1 is not None and s0.shape == s1.shape and not close(s1, s0, scale_ref):
                    v(f"{name}: scores change under {kind}", dict(inp0, detector=name, transform=kind), {"what": kind + "-scores", "detector": name})
                elif c1 != c0 and not (near_tie(s0, thr) or near_tie(s1, thr)):
                    v(f"{name}: detections change under {kind}: {c0} vs {c1}", dict(inp0, detector=name, transform=kind, base=c0, transformed=c1),
                      {"what": kind, "detector": name})
            # reversal: PELT's optimal cost unchanged; moving window scores mirrored
            if name.startswith("PELT"):
                _, sr, _ = out(X[::-1].copy())
                if not close(sr[-1], s0[-1], abs(s0[-1]) + 1):
                    v(f"{name}: optimal penalised cost changes under time reversal: {s0[-1]} vs {sr[-1]}", dict(inp0, detector=name),
                      {"what": "reversal", "detector": name})
            if name.startswith("MovingWindow"):
                _, sr, _ = out(X[::-1].copy())
                if not close(sr[1:], s0[::-1][:-1], float(np.max(np.abs(s0))) + 1):
                    v(f"{name}: time reversal does not map the score at t to n - t", dict(inp0, detector=name), {"what": "reversal", "detector": name})

    # ---------------- (c) exact column permutations through PELT / CAPA / MVCAPA ----------------
    for it in range(ctx.n(60, 600)):
        p = rng.choice([2, 3, 4])
        n = rng.randint(6, 14)
        perm = list(range(p))
        rng.shuffle(perm)
        X = pd.DataFrame(np.zeros((n, p)))
        # PELT with table costs
        ctabs = [ts.cost_from_loss(ts.loss_table(rng, n, 2, rng.choice([3, 9])), n) for _ in range(p)]
        m = rng.choice([1, 2])
        pen = rng.randint(0, 6)

        def pelt(tabs):
            d = PELT(cost=ts.TableCost(tabs), min_segment_length=m).fit(X)
            d.penalty_ = float(pen)
            return canon(d.predict(X)), d.transform_scores(X).to_numpy().tolist()
        r0, r1 = pelt(ctabs), pelt([ctabs[j] for j in perm])
        ctx.case({"exact": "pelt", "tabs": ctabs, "perm": perm, "pen": pen, "m": m}, nontrivial=len(r0[0]) > 0)
        if r0 != r1:
            v(f"PELT on table costs: output changes when the columns are permuted: {r0[0]} vs {r1[0]}",
              {"tables": ctabs, "perm": perm, "pen": pen, "m": m}, {"what": "permutation-exact", "detector": "PELT"})
        # CAPA / MVCAPA with table savings (wide value range: ties between columns are rare; compare icolumns only when tie-free)
        stabs = [ts.saving_from_loss(ts.loss_table(rng, n, 2, rng.choice([9, 40])), n) for _ in range(p)]
        ac, ap, bc = rng.choice([1, 4]), rng.choice([5, 12]), sorted(rng.randint(0, 3) for _ in range(p))
        for dn in ("CAPA", "MVCAPA"):
            def capa(tabs):
                if dn == "CAPA":
                    d = CAPA(collective_saving=ts.TableSaving(tabs), point_saving=ts.TableSaving(tabs), min_segment_length=2).fit(X)
                    d.collective_penalty_, d.point_penalty_ = float(ac), float(ap)
                else:
                    d = MVCAPA(collective_saving=ts.TableSaving(tabs), point_saving=ts.TableSaving(tabs), min_segment_length=2,
                               collective_penalty=pen_callable(ac, bc), point_penalty=pen_callable(ap, bc),
                               collective_penalty_scale=1.25 / np.log(p)).fit(X)
                y = d.predict(X)
                return y, d.transform_scores(X).to_numpy().tolist()
            (y0, s0), (y1, s1) = capa(stabs), capa([stabs[j] for j in perm])
            c0, c1 = canon(y0), canon(y1)
            ctx.case({"exact": dn, "tabs": stabs, "perm": perm}, nontrivial=len(c0) > 0)
            iv0 = [t[:2] for t in c0]
            iv1 = [t[:2] for t in c1]
            if iv0 != iv1 or s0 != s1:
                v(f"{dn} on table savings: anomalies / scores change when the columns are permuted: {iv0} vs {iv1}",
                  {"tables": stabs, "perm": perm, "alpha_c": ac, "alpha_p": ap, "betas": bc}, {"what": "permutation-exact", "detector": dn})
            elif dn == "MVCAPA":
                for (l, r, cols0), (_, _, cols1) in zip(c0, c1):
                    sav = [stabs[j][l][r] for j in range(p)]
                    if len(set(sav)) == p and sorted(perm[c] for c in cols1) != cols0:
                        v(f"MVCAPA: affected columns of [{l},{r}) are not permuted with the data: {cols0} vs {sorted(perm[c] for c in cols1)} (perm {perm})",
                          {"tables": stabs, "perm": perm, "anomaly": [l, r]}, {"what": "permutation-columns", "detector": "MVCAPA"})
    # ---- MVCAPA through labelled frames: the affected columns are POSITIONS; permuting a frame's columns permutes them and the dense per-column labels accordingly ----
    from harness.variants import variants_stream
    from skchange.anomaly_detectors import MVCAPA as _MVCAPA12
    variants_stream(ctx, "MVCAPA", lambda: _MVCAPA12(min_segment_length=2, max_segment_length=30), ctx.n(3, 16), p_choices=(2, 3, 4),
                    flat_make=lambda: _MVCAPA12(min_segment_length=2, collective_penalty_scale=1e6, point_penalty_scale=1e6))
    rng12 = np.random.default_rng(ctx.seed + 1212)
    for it in range(ctx.n(6, 40)):
        p = int(rng12.integers(2, 5))
        n = int(rng12.integers(40, 70))
        Xn = rng12.normal(size=(n, p))
        a0 = int(rng12.integers(5, n // 2))
        Xn[a0:a0 + 8, 0] += 9.0
        Xn[n - 12:n - 6, p - 1] -= 8.0
        perm = list(rng12.permutation(p))
        while perm == list(range(p)):
            perm = list(rng12.permutation(p))
        base = _MVCAPA12(min_segment_length=2).fit(Xn)
        y0 = base.predict(Xn)
        ref = [(int(l), int(r), sorted(int(c) for c in cc)) for l, r, cc in zip(y0["ilocs"].array.left, y0["ilocs"].array.right, y0["icolumns"])]
        t0 = base.transform(Xn).to_numpy()
        for tag, frame in (("integer labels kept", pd.DataFrame(Xn)[perm]), ("string labels", pd.DataFrame(Xn, columns=[f"v{j}" for j in range(p)])[[f"v{j}" for j in perm]])):
            d = _MVCAPA12(min_segment_length=2).fit(frame)
            y = d.predict(frame)
            got = [(int(l), int(r), sorted(int(c) for c in cc)) for l, r, cc in zip(y["ilocs"].array.left, y["ilocs"].array.right, y["icolumns"])]
            want = [(l, r, sorted(perm.index(c) for c in cc)) for l, r, cc in ref]
            tt = d.transform(frame).to_numpy()
            inp = {"detector": "MVCAPA", "n": n, "p": p, "perm": [int(v) for v in perm], "X": Xn.tolist(), "labels": tag}
            ctx.case({"mvcapa_perm": it, "tag": tag}, nontrivial=len(ref) > 0)
            if got != want:
                ctx.violation(f"MVCAPA on a frame with permuted columns ({tag}): anomalies / affected positions {got}, expected the permuted ones {want}", inp,
                              {"what": "mvcapa-permutation", "detector": "MVCAPA"})
            elif tt.shape != t0.shape or not np.array_equal(tt, t0[:, perm]):
                ctx.violation(f"MVCAPA.transform on a frame with permuted columns ({tag}) is not the column-permuted transform of X", inp,
                              {"what": "mvcapa-permutation-dense", "detector": "MVCAPA"})
