"""C15: thresholds and penalties follow their documented formulas and act monotonically."""
import math
import sys
from fractions import Fraction

import numpy as np
import pandas as pd

from harness import table_scorers as ts
from harness.engine import REPO as _REPO


def engine_repo():
    return _REPO


from harness.engine import VERIF, coq_bad_cases, coq_list

INFO = {
    "extra_targets": [],
    "level": "proof",
    "rule": "grid n in {2..3000} x p in 1..6 x n_params_per_variable in 1..3 x scale in {0, 0.5, 1, 2, 4} x level x bandwidth: the module-level "
            "penalty functions and every detector's fitted threshold_/penalty_ attributes are compared (rel. 1e-12) with (i) the translator's IR of "
            "the same source evaluated in Python and (ii) the documented formula written independently; tuned thresholds are compared with the exact "
            "rational model of np.quantile evaluated in Coq (Model/Quantile.v) and the exceedance bound / the literal 'fraction level' claim are "
            "decided in Coq on the detectors' own training scores; PELT penalty monotonicity is run on table costs (exact) and seeded L2 data; "
            "non-trivial = value differs from 0 / at least one score above the tuned threshold",
    "trusted_base": ["Coq 8.16.1 kernel + vm_compute; Reals axioms as listed per theorem", "translator/py2coq.py (validated here by running its IR)",
                     "harness/c15.py documented-formula twins", "SciPy chi2.ppf/pdf (oracle behind the intermediate penalty)",
                     "NumPy np.quantile (modelled in Q, compared with tolerance 1e-9 relative)"],
    "assumptions": ["n >= 2 for formulas involving log n", "scores are finite binary64 values (converted exactly to rationals)"],
}
QHEADER = ("From Coq Require Import QArith Qround ZArith List Bool.\nFrom SK Require Import Lib.Base Model.Quantile.\nImport ListNotations.\n"
           "Open Scope Q_scope.\n"
           "Definition qcase := (list Q * Q * Q * Q * nat)%type.\n"
           "(* scores, q = exact value of the float 1 - level, lower / upper bracket of the implementation's threshold, implementation count above *)\n"
           "Definition qcase_ok (c : qcase) : bool := let '(sc, q, lo, hi, cnt) := c in\n"
           "  let t := quantile_linear sc q in Qle_bool lo t && Qle_bool t hi &&\n"
           "  (cnt <=? length sc - 1 - Z.to_nat (Qfloor (inject_Z (Z.of_nat (length sc - 1)) * q)))%nat.\n"
           "(* the literal claim: #scores above the model threshold <= level * N *)\n"
           "Definition frac_ok (c : list Q * Q * Q) : bool := let '(sc, q, lev) := c in\n"
           "  Qle_bool (inject_Z (Z.of_nat (count_above (quantile_linear sc q) sc))) (lev * inject_Z (Z.of_nat (length sc))).")


def close(a, b, rel=1e-12):
    a, b = np.asarray(a, dtype=float), np.asarray(b, dtype=float)
    return a.shape == b.shape and bool(np.all(np.abs(a - b) <= rel * (np.abs(a) + np.abs(b) + 1e-300) + 1e-300))


def qlit(fr):
    fr = Fraction(fr)
    return f"({fr.numerator} # {fr.denominator})"


# ---- documented formulas, written independently of the code ----
def doc_capa(n, k, scale):
    return scale * (k + 2 * math.sqrt(k * math.log(n)) + 2 * math.log(n))


def doc_mw(n, p, b, level):
    u = n / b
    a = math.sqrt(2 * math.log(u))
    bb = 2 * math.log(u) + 0.5 * math.log(math.log(u)) + math.log(1.5) - 0.5 * math.log(math.pi)
    c = -math.log(math.log(1 / math.sqrt(1 - level)))
    return p * (bb + c) / a


def run(ctx):
    sys.path.insert(0, f"{VERIF}/translator")
    import py2coq
    from skchange.anomaly_detectors import CAPA, MVCAPA, CircularBinarySegmentation
    from skchange.anomaly_detectors import mvcapa as M
    from skchange.change_detectors import PELT, MovingWindow, SeededBinarySegmentation
    from skchange.costs import GaussianVarCost, L2Cost
    from skchange.anomaly_scores import L2Saving, Saving
    rng = ctx.rng
    repo = engine_repo()

    def ir(name):
        return py2coq.to_ir(name, repo)

    def v(what, inp, sig):
        ctx.violation(what, inp, sig)

    # ---------------- module-level penalty functions ----------------
    ns = [2, 3, 5, 10, 37, 100, 999, 3000]
    scales = [0.0, 0.5, 1.0, 2.0, 4.0]
    for n in ns:
        for scale in scales:
            for k in [1, 2, 3, 6, 12]:
                got = M.capa_penalty(n, k, scale)
                want = doc_capa(n, k, scale)
                tr = py2coq.pyeval(ir("capa_penalty"), {"n": n, "n_params": k, "scale": scale})
                ctx.case({"f": "capa", "n": n, "k": k, "s": scale}, nontrivial=got != 0)
                if not (close(got, want) and close(got, tr)):
                    v(f"capa_penalty({n}, {k}, {scale}) = {got}, documented formula {want}, translated kernel {tr}",
                      {"function": "capa_penalty", "n": n, "n_params": k, "scale": scale}, {"what": "formula", "f": "capa_penalty"})
            for p in [1, 2, 3, 4, 6, 30, 64]:
                for npv in [1, 2, 3]:
                    inp = {"n": n, "p": p, "n_params_per_variable": npv, "scale": scale}
                    da, db = M.dense_mvcapa_penalty(n, p, npv, scale)
                    sa, sb = M.sparse_mvcapa_penalty(n, p, npv, scale)
                    env = {"n": n, "p": p, "npv": npv, "scale": scale}
                    d_ir, s_ir = ir("dense_mvcapa_penalty"), ir("sparse_mvcapa_penalty")
                    ctx.case({"f": "families", **inp}, nontrivial=scale > 0)
                    if not (close(da, doc_capa(n, p * npv, scale)) and close(da, py2coq.pyeval(d_ir[1], env))
                            and len(db) == p and np.all(db == 0)):
                        v(f"dense_mvcapa_penalty{(n, p, npv, scale)} = ({da}, {db.tolist()}), documented (capa_penalty(n, p*k), zeros(p)) = "
                          f"({doc_capa(n, p * npv, scale)}, 0)", dict(inp, function="dense"), {"what": "formula", "f": "dense"})
                    want_sb = 2 * scale * math.log(npv * p)
                    if not (close(sa, 2 * scale * math.log(n)) and close(sa, py2coq.pyeval(s_ir[1], env)) and len(sb) == p
                            and close(sb, np.full(p, want_sb)) and close(sb[0], py2coq.pyeval(s_ir[2], env))):
                        v(f"sparse_mvcapa_penalty{(n, p, npv, scale)} = ({sa}, {sb.tolist()}), documented ({2 * scale * math.log(n)}, {want_sb} each)",
                          dict(inp, function="sparse"), {"what": "formula", "f": "sparse"})
                    if p >= 2:
                        ia, ib = M.intermediate_mvcapa_penalty(n, p, npv, scale)
                        # the per-j curve translated from the source (closure penalty_func), with SciPy's chi-square quantile / density as oracle inputs
                        from scipy.stats import chi2 as _chi2
                        icurve = ir("intermediate_mvcapa_penalty.penalty_func")
                        want_i = []
                        for j in range(1, p):
                            cj = float(_chi2.ppf(1 - j / p, npv))
                            want_i.append(py2coq.pyeval(icurve, {"n": n, "p": p, "npv": npv, "scale": scale, "j": j, "c_j": cj, "f_j": float(_chi2.pdf(cj, npv))}))
                        want_i.append(want_i[-1])
                        if not (ia == 0.0 and close(ia + np.cumsum(ib), np.asarray(want_i), rel=1e-10)):
                            v(f"intermediate_mvcapa_penalty{(n, p, npv, scale)}: cumulative penalties {(ia + np.cumsum(ib)).tolist()[:4]}... differ from the translated per-j curve "
                              f"{want_i[:4]}... (alpha must be 0, the last increment 0)", dict(inp, function="intermediate"), {"what": "formula", "f": "intermediate"})
                        ca, cb = M.combined_mvcapa_penalty(n, p, npv, scale)
                        dcum, scum, icum = da + np.cumsum(db), sa + np.cumsum(sb), ia + np.cumsum(ib)
                        want_c = np.minimum(dcum, np.minimum(scum, icum))
                        got_c = ca + np.cumsum(cb)
                        if scale > 0:
                            ctx.count("combined_min_attained_by", "intermediate" if np.any((icum < dcum) & (icum < scum)) else "dense/sparse only")
                        if not close(got_c, want_c, rel=1e-10):
                            v(f"combined_mvcapa_penalty{(n, p, npv, scale)}: cumulative penalties {got_c.tolist()} are not the pointwise minimum "
                              f"{want_c.tolist()} of the dense {dcum.tolist()}, sparse and intermediate ones", dict(inp, function="combined"),
                              {"what": "combined-min", "scale_is_one": scale == 1.0})
                        for nm, (a_, b_) in {"intermediate": (ia, ib), "combined": (ca, cb)}.items():
                            if a_ < 0 or np.any(b_ < -1e-9 * (1 + abs(b_).max())):
                                v(f"{nm}_mvcapa_penalty{(n, p, npv, scale)} has a negative component: alpha {a_}, betas {np.asarray(b_).tolist()}",
                                  dict(inp, function=nm), {"what": "negative", "f": nm})
                        if scale > 0:
                            i1 = M.intermediate_mvcapa_penalty(n, p, npv, 1.0)
                            c1 = M.combined_mvcapa_penalty(n, p, npv, 1.0)
                            if not (close(ib, scale * i1[1], rel=1e-10) and close(ca + np.cumsum(cb), scale * (c1[0] + np.cumsum(c1[1])), rel=1e-10)):
                                v(f"intermediate/combined penalty not proportional to the scale at {(n, p, npv, scale)}", dict(inp, function="combined"),
                                  {"what": "proportional", "f": "combined"})
                    else:
                        ca, cb = M.combined_mvcapa_penalty(n, p, npv, scale)
                        if not (close(ca, doc_capa(n, npv, scale)) and np.all(cb == 0)):
                            v(f"combined_mvcapa_penalty for p=1 is not the dense penalty: {(ca, cb)}", dict(inp, function="combined"),
                              {"what": "combined-min", "p1": True})

    # ---------------- default functions and fitted attributes ----------------
    shapes = [(n, p) for n in [12, 20, 57, 200] for p in [1, 2, 3]] + [(1500, 10), (700, 8)]
    for n, p in shapes:
        X = pd.DataFrame(np.asarray([[rng.gauss(0, 1) for _ in range(p)] for _ in range(n)]))
        for scale in [0.0, 0.5, 1.0, 3.0]:
            inp = {"n": n, "p": p, "scale": scale}
            checks = []
            d = PELT(penalty_scale=scale).fit(X)
            checks.append(("PELT.penalty_", d.penalty_, scale * 2 * p * math.log(n), scale * py2coq.pyeval(ir("PELT.get_default_penalty"), {"n": n, "p": p})))
            d = SeededBinarySegmentation(threshold_scale=scale).fit(X)
            checks.append(("SeededBinarySegmentation.threshold_", d.threshold_, scale * 2 * p * math.sqrt(math.log(n)),
                           scale * py2coq.pyeval(ir("SeededBinarySegmentation.get_default_threshold"), {"n": n, "p": p})))
            for maxlen in [4, 10, 100]:
                d = CircularBinarySegmentation(threshold_scale=scale, min_segment_length=2, max_interval_length=maxlen).fit(X)
                checks.append((f"CircularBinarySegmentation(max_interval_length={maxlen}).threshold_", d.threshold_, scale * 2 * p * math.log(n * maxlen),
                               scale * py2coq.pyeval(ir("CircularBinarySegmentation.get_default_threshold"), {"n": n, "p": p, "maxlen": maxlen})))
            for b in [1, 2, 3]:
                for level in [0.01, 0.1, 0.3]:
                    if 2 * b > n or n / b <= math.e:
                        continue
                    d = MovingWindow(bandwidth=b, threshold_scale=scale, level=level).fit(X)
                    checks.append((f"MovingWindow(bandwidth={b}, level={level}).threshold_", d.threshold_, scale * doc_mw(n, p, b, level),
                                   scale * py2coq.pyeval(ir("MovingWindow.get_default_threshold"), {"n": n, "p": p, "b": b, "level": level})))
            from skchange.costs import GaussianCovCost as _GCovC
            # k = number of parameters of one segment, counted from the definition of the model: p means; p variances; p mean entries + the p (p + 1) / 2 distinct
            # entries of a symmetric covariance matrix
            for nm, sav, k in [("L2Saving", L2Saving(), p), ("Saving(GaussianVarCost)", Saving(GaussianVarCost((0.0, 1.0))), 2 * p),
                               ("Saving(GaussianCovCost)", Saving(_GCovC((np.zeros(p), np.eye(p)))), p + sum(1 for a_ in range(p) for b_ in range(a_, p)))]:
                d = CAPA(collective_saving=sav, collective_penalty_scale=scale, point_penalty_scale=scale).fit(X)
                checks.append((f"CAPA({nm}).collective_penalty_", d.collective_penalty_, doc_capa(n, k, scale), doc_capa(n, k, scale)))
                checks.append((f"CAPA({nm}).point_penalty_", d.point_penalty_, scale * k * p * math.log(n), scale * k * p * math.log(n)))
            for nm, got, want, tr in checks:
                ctx.case({"attr": nm, **inp}, nontrivial=got != 0)
                ctx.count("attr", nm.split("(")[0].split(".")[0])
                if not (close(got, want, 1e-11) and close(got, tr, 1e-11)):
                    v(f"{nm} after fit on n={n}, p={p} with scale {scale} is {got}; scale x documented default = {want}; translated kernel {tr}",
                      dict(inp, attribute=nm, value=float(got)), {"what": "fitted", "attr": nm.split("(")[0]})

    # ---------------- tuned thresholds (quantile) ----------------
    qcases, fcases, qmeta = [], [], []
    nq = ctx.n(30, 200)
    fixed_rng = np.random.default_rng(20260928)
    for i in range(-3, nq):
        n = rng.randint(8, 40)
        p = rng.choice([1, 1, 2])
        level = rng.choice([0.01, 0.05, 0.1, 0.2, 0.3, 0.5])
        X = pd.DataFrame(np.asarray([[rng.gauss(0, 1) for _ in range(p)] for _ in range(n)]))
        if i < 0:      # corpus: the recorded finding D18, one fixed input per call site
            n, p, level = 12, 1, 0.2
            X = pd.DataFrame(fixed_rng.normal(size=(n, p)))
        which = i % 3
        if which == 0:
            b = rng.choice([1, 2, 3])
            if 2 * b > n:
                continue
            d = MovingWindow(bandwidth=b, threshold_scale=None, level=level).fit(X)
            scores = d.transform_scores(X).to_numpy().ravel()
            name = "MovingWindow"
        elif which == 1:
            d = SeededBinarySegmentation(threshold_scale=None, level=level, min_segment_length=rng.choice([1, 2])).fit(X)
            d.predict(X)
            scores = d.scores["score"].to_numpy()
            name = "SeededBinarySegmentation"
        else:
            d = CircularBinarySegmentation(threshold_scale=None, level=level, min_segment_length=rng.choice([1, 2])).fit(X)
            d.predict(X)
            scores = d.scores["score"].to_numpy()
            name = "CircularBinarySegmentation"
        thr = float(d.threshold_)
        q = Fraction(1 - level)          # exact value of the float the code passes to np.quantile
        sc = [Fraction(float(x)) for x in scores]
        tol = Fraction(1e-9) * (1 + abs(Fraction(thr)))
        cnt = int(np.sum(scores > thr))
        qcases.append(f"({coq_list([qlit(x) for x in sc])}, {qlit(q)}, {qlit(Fraction(thr) - tol)}, {qlit(Fraction(thr) + tol)}, {cnt}%nat)")
        fcases.append(f"({coq_list([qlit(x) for x in sc])}, {qlit(q)}, {qlit(Fraction(level))})")
        qmeta.append({"detector": name, "n": n, "p": p, "level": level, "threshold_": thr, "scores": [float(x) for x in scores],
                      "above": cnt, "X": X.to_numpy().tolist()})
        ctx.case({"tuned": name, "i": i}, nontrivial=cnt > 0,
                 sample={"detector": name, "level": level, "N": len(sc), "threshold_": thr, "scores_above": cnt})
        ctx.count("tuned", name)
    bad = coq_bad_cases(ctx.cid, QHEADER, "qcase", "qcase_ok", qcases, shard=40, tag="q")
    for i in bad:
        m = qmeta[i]
        v(f"{m['detector']}: tuned threshold_ {m['threshold_']} is not the linearly interpolated (1-level) quantile of the training scores, or more than "
          f"N-1-floor((N-1)(1-level)) scores exceed it (N={len(m['scores'])}, level={m['level']}, above={m['above']})", m,
          {"what": "tuned-quantile", "detector": m["detector"]})
    badf = coq_bad_cases(ctx.cid, QHEADER, "list Q * Q * Q", "frac_ok", fcases, shard=40, tag="f")
    for i in badf:
        m = qmeta[i]
        v(f"{m['detector']}: {m['above']} of {len(m['scores'])} training scores exceed the tuned threshold although level = {m['level']} "
          f"(np.quantile interpolates linearly between order statistics)", m,
          {"what": "tuned-threshold-exceed-fraction", "detector": m["detector"]})
    ctx.notes["exceed_fraction_failures"] = len(badf)

    # ---------------- PELT: a larger penalty never gives more changepoints ----------------
    nm = ctx.n(60, 600)
    for i in range(nm):
        n = rng.randint(4, 24)
        m = rng.choice([1, 1, 2, 3])
        if 2 * m > n:
            continue
        K, p = rng.choice([2, 3]), rng.choice([1, 2])
        loss = [[[rng.randint(0, 4) for _ in range(K)] for _ in range(n)] for _ in range(p)]
        tab = [[[min(sum(loss[j][t][th] for t in range(s, e)) for th in range(K)) if e > s else 0 for e in range(n + 1)]
                for s in range(n + 1)] for j in range(p)]
        X = pd.DataFrame(np.zeros((n, p)))
        pens = sorted(rng.sample(range(0, 12), 3))
        counts = []
        for pen in pens:
            d = PELT(cost=ts.TableCost(tab), min_segment_length=m).fit(X)
            d.penalty_ = float(pen)
            counts.append(len(d.predict(X)))
        ctx.case({"mono": i, "n": n, "m": m, "pens": pens, "loss": loss}, nontrivial=counts[0] > 0)
        if any(a < b for a, b in zip(counts, counts[1:])):
            v(f"PELT reports more changepoints for a larger penalty: penalties {pens} -> counts {counts} (n={n}, m={m})",
              {"n": n, "m": m, "penalties": pens, "counts": counts, "loss": loss}, {"what": "pelt-monotone"})
    for rep in range(ctx.n(6, 40)):
        n = rng.randint(30, 80)
        x = np.asarray([rng.gauss(0, 1) for _ in range(n)])
        for c in sorted(rng.sample(range(5, n - 5), 2)):
            x[c:] += rng.choice([-3, 2, 4])
        X = pd.DataFrame(x)
        counts = [len(PELT(cost=L2Cost(), penalty_scale=s).fit(X).predict(X)) for s in [0.2, 1.0, 3.0, 9.0]]
        ctx.case({"mono-real": rep}, nontrivial=counts[0] > 0)
        if any(a < b for a, b in zip(counts, counts[1:])):
            v(f"PELT(L2Cost) reports more changepoints for a larger penalty_scale: scales [0.2,1,3,9] -> counts {counts}",
              {"X": x.tolist(), "counts": counts}, {"what": "pelt-monotone", "real": True})
    # ---- short series with min_segment_length 2..4 and a FINE grid of penalties (81 values): here the delayed pruning matters -- a start dropped one iteration early makes
    # ---- PELT sub-optimal in a penalty-dependent way and the count non-monotone.  A corpus of three series on which that was observed (round 8) runs first.
    def _mono_series(seed_):
        r_ = np.random.default_rng(seed_)
        n_ = int(r_.integers(12, 40))
        ml_ = int(r_.integers(2, 5))
        x_ = r_.normal(size=(n_, 1))
        for c_ in r_.integers(1, n_, size=r_.integers(0, 4)):
            x_[c_:] += r_.normal() * 2
        return x_, ml_
    grid81 = np.linspace(0.0, 8.0, 81)
    for seed_ in [155, 166, 231] + [int(rng.randint(0, 10 ** 6)) for _ in range(ctx.n(12, 120))]:
        x_, ml_ = _mono_series(seed_)
        n_ = len(x_)
        counts = [len(PELT(cost=L2Cost(), penalty_scale=float(pen_ / (2 * math.log(n_))), min_segment_length=ml_).fit(x_).predict(x_)) for pen_ in grid81]
        ctx.case({"mono-fine": seed_}, nontrivial=counts[0] > 0)
        ctx.count("pelt_monotone", "fine grid, short series")
        if any(a < b for a, b in zip(counts, counts[1:])):
            k_ = next(i_ for i_, (a, b) in enumerate(zip(counts, counts[1:])) if a < b)
            v(f"PELT(L2Cost, min_segment_length={ml_}) on a series of {n_} samples reports {counts[k_]} changepoints for penalty {grid81[k_]:.2f} and {counts[k_ + 1]} for the larger "
              f"penalty {grid81[k_ + 1]:.2f}", {"X": x_.tolist(), "min_segment_length": ml_, "penalties": [float(grid81[k_]), float(grid81[k_ + 1])], "counts": counts},
              {"what": "pelt-monotone", "real": True, "fine": True})
    # ---- the same on INTEGER-typed data (small integers, many ties) with a fine grid of penalties, min_segment_length 1 ----
    for rep in range(ctx.n(10, 60)):
        n = rng.randint(15, 30)
        xi = np.asarray([rng.randint(-3, 3) for _ in range(n)], dtype=np.int64)
        Xi = pd.DataFrame(xi)
        grid = [0.05 * k for k in range(2, 40)]
        counts = [len(PELT(cost=L2Cost(), penalty_scale=s_, min_segment_length=1).fit(Xi).predict(Xi)) for s_ in grid]
        cf = [len(PELT(cost=L2Cost(), penalty_scale=s_, min_segment_length=1).fit(Xi.astype(float)).predict(Xi.astype(float))) for s_ in grid]
        ctx.case({"mono-int": rep, "x": xi.tolist()}, nontrivial=counts[0] > 0)
        if any(a < b for a, b in zip(counts, counts[1:])) or counts != cf:
            v(f"PELT(L2Cost) on integer-typed data: the number of changepoints is not non-increasing in the penalty, or differs from the same numbers as float64: "
              f"{counts} vs float64 {cf}", {"x": xi.tolist(), "scales": grid, "counts": counts, "counts_float64": cf}, {"what": "pelt-monotone", "real": True, "dtype": "int64"})
    # ---- update(X2) after fit(X1): the fitted threshold / penalty is the documented value for the COMBINED training data ----
    from skchange.anomaly_detectors import CAPA as _CAPAu, CircularBinarySegmentation as _CBSu
    from skchange.change_detectors import MovingWindow as _MWu, SeededBinarySegmentation as _SBSu
    for rep in range(ctx.n(3, 12)):
        n1, n2, p_ = rng.randint(30, 60), rng.randint(20, 50), rng.choice([1, 2])
        Xa = pd.DataFrame(np.asarray([[rng.gauss(0, 1) for _ in range(p_)] for _ in range(n1 + n2)]))
        X1, X2 = Xa.iloc[:n1], Xa.iloc[n1:]
        for name, mk, attr in [("PELT", lambda: PELT(penalty_scale=1.5), "penalty_"), ("SeededBinarySegmentation", lambda: _SBSu(threshold_scale=1.5), "threshold_"),
                               ("MovingWindow", lambda: _MWu(bandwidth=5, threshold_scale=1.5), "threshold_"), ("CircularBinarySegmentation", lambda: _CBSu(threshold_scale=1.5), "threshold_"),
                               ("CAPA", lambda: _CAPAu(collective_penalty_scale=1.5), "collective_penalty_"),
                               ("SeededBinarySegmentation(tuned)", lambda: _SBSu(threshold_scale=None, level=0.1), "threshold_"),
                               ("MovingWindow(tuned)", lambda: _MWu(bandwidth=5, threshold_scale=None, level=0.1), "threshold_")]:
            try:
                d_up = mk().fit(X1)
                d_up.update(X2)
                want = getattr(mk().fit(Xa), attr)
                got = getattr(d_up, attr)
            except Exception as ex:
                v(f"{name}: fit(X1).update(X2) raised {type(ex).__name__}: {str(ex)[:100]}", {"detector": name, "n1": n1, "n2": n2, "p": p_}, {"what": "update-exception", "detector": name})
                continue
            ctx.case({"update": name, "rep": rep}, nontrivial=True)
            if not np.allclose(np.asarray(got, dtype=float), np.asarray(want, dtype=float), rtol=1e-12, atol=0.0):
                v(f"{name}: after fit on {n1} rows and update with {n2} more, {attr} = {got!r}; the documented value for the {n1 + n2} training rows (a fresh fit on all of them) is {want!r}",
                  {"detector": name, "n1": n1, "n2": n2, "p": p_, "X": Xa.to_numpy().tolist()}, {"what": "update-fitted-value", "detector": name})
    # ---- DEFAULT-configured detectors (no hyper-parameter passed) on long, wide training data: the fitted value is the documented default (scale 2) ----
    for n_, p_ in [(400, 1), (1200, 10), (3000, 3)]:
        Xl = pd.DataFrame(np.asarray([[rng.gauss(0, 1) for _ in range(p_)] for _ in range(n_)]))
        from skchange.anomaly_detectors import CAPA as _CAPAd, CircularBinarySegmentation as _CBSd
        from skchange.change_detectors import MovingWindow as _MWd, SeededBinarySegmentation as _SBSd
        dd = [("PELT().penalty_", PELT().fit(Xl).penalty_, 2.0 * 2 * p_ * math.log(n_)),
              ("SeededBinarySegmentation().threshold_", _SBSd().fit(Xl).threshold_, 2.0 * 2 * p_ * math.sqrt(math.log(n_))),
              ("CircularBinarySegmentation().threshold_", _CBSd().fit(Xl).threshold_, 2.0 * 2 * p_ * math.log(n_ * 1000)),
              ("MovingWindow().threshold_", _MWd().fit(Xl).threshold_, 2.0 * doc_mw(n_, p_, 30, 0.01)),
              ("CAPA().collective_penalty_", _CAPAd().fit(Xl).collective_penalty_, doc_capa(n_, p_, 2.0))]
        for nm, got, want in dd:
            ctx.case({"default_fit": nm, "n": n_, "p": p_}, nontrivial=True)
            if not close(got, want):
                v(f"{nm} fitted on {n_} x {p_} data is {got!r}, the documented default (scale 2.0) gives {want!r}", {"n": n_, "p": p_, "attribute": nm}, {"what": "default-fitted-value", "attr": nm})
    # ---- at scale and with the DEFAULT bandwidth: the tuned threshold is the (1 - level) quantile of ALL training scores; PELT's count is monotone on long series ----
    from skchange.change_detectors import MovingWindow as _MWq, SeededBinarySegmentation as _SBSq
    for n_, p_ in [(400, 1), (1500, 3)]:
        Xq = pd.DataFrame(np.asarray([[rng.gauss(0, 1) for _ in range(p_)] for _ in range(n_)]))
        for lvl in (0.01, 0.1):
            dq = _MWq(threshold_scale=None, level=lvl).fit(Xq)
            sq = dq.transform_scores(Xq).to_numpy().reshape(-1)
            want = float(np.quantile(sq, 1 - lvl))
            ctx.case({"tuned_default_bandwidth": n_, "p": p_, "level": lvl}, nontrivial=True)
            if not close(dq.threshold_, want):
                v(f"MovingWindow(threshold_scale=None, level={lvl}) with the default bandwidth on {n_} x {p_} data: threshold_ = {dq.threshold_!r}, the (1 - level) quantile of the "
                  f"{n_} training scores is {want!r}", {"n": n_, "p": p_, "level": lvl}, {"what": "tuned-threshold-value", "detector": "MovingWindow", "default_bandwidth": True})
    for rep in range(ctx.n(1, 4)):
        n_ = rng.choice([1400, 2250])
        xl = np.asarray([rng.gauss(0, 1) for _ in range(n_)])
        for c_ in range(450, n_, 450):
            xl[c_:] += rng.choice([2.5, -3.0])
        Xl2 = pd.DataFrame(xl)
        scales_ = [1.0, 2.0, 4.0, 8.0, 20.0, 1e4]
        counts = [len(PELT(penalty_scale=s_).fit(Xl2).predict(Xl2)) for s_ in scales_]
        ctx.case({"mono-long": rep, "n": n_}, nontrivial=counts[0] > 0)
        if any(a_ < b_ for a_, b_ in zip(counts, counts[1:])) or counts[-1] != 0:
            v(f"PELT() on a series of {n_} rows: changepoint counts {counts} for penalty scales {scales_} are not non-increasing (a penalty above the cost of the whole series must give none)",
              {"n": n_, "scales": scales_, "counts": counts}, {"what": "pelt-monotone", "real": True, "long": True})
    sys.path.pop(0)
    # ---- the fitted threshold / penalty belongs to the TRAINING data: applying the detector to a series of another length must neither change the attribute
    #      nor make the detector use another value (detections on the new series = detections of a detector whose attribute is pinned to the fitted value) ----
    from skchange.anomaly_detectors import CAPA as _CAPAo, CircularBinarySegmentation as _CBSo
    from skchange.change_detectors import PELT as _PELTo, MovingWindow as _MWo, SeededBinarySegmentation as _SBSo
    _rngo = np.random.default_rng(ctx.seed + 1516)
    for it in range(ctx.n(4, 20)):
        p_ = int(_rngo.integers(1, 3))
        n1 = int(_rngo.integers(40, 90))
        n2 = int(_rngo.choice([n1 // 3 + 8, 3 * n1 + 5]))
        Xa = _rngo.normal(size=(n1, p_))
        Xb = _rngo.normal(size=(n2, p_))
        Xb[n2 // 3: n2 // 3 + 6] += 1.7        # a medium-sized event: detected or not depending on the threshold
        Xb[2 * n2 // 3:] += 4.0
        for name, mk, attrs, doc in [
                ("PELT", lambda: _PELTo(penalty_scale=1.5), ["penalty_"], lambda n, p: [1.5 * 2 * p * math.log(n)]),
                ("MovingWindow", lambda: _MWo(bandwidth=6, threshold_scale=1.5), ["threshold_"], lambda n, p: [1.5 * doc_mw(n, p, 6, 0.01)]),
                ("SeededBinarySegmentation", lambda: _SBSo(threshold_scale=1.5), ["threshold_"], lambda n, p: [1.5 * 2 * p * math.sqrt(math.log(n))]),
                ("CircularBinarySegmentation", lambda: _CBSo(threshold_scale=1.5, max_interval_length=30), ["threshold_"], lambda n, p: [1.5 * 2 * p * math.log(n * 30)]),
                ("CAPA", lambda: _CAPAo(collective_penalty_scale=1.5, point_penalty_scale=1.5), ["collective_penalty_", "point_penalty_"],
                 lambda n, p: [doc_capa(n, p, 1.5), 1.5 * p * p * math.log(n)])]:
            d = mk().fit(Xa.copy())
            before = [float(getattr(d, a)) for a in attrs]
            ctx.case({"other-series": name, "it": it, "n_train": n1, "n_new": n2, "p": p_}, nontrivial=True)
            ctx.count("attr_after_use", name)
            for meth in ["predict", "transform", "transform_scores"]:
                try:
                    getattr(d, meth)(Xb.copy())
                except NotImplementedError:      # seeded / circular binary segmentation publish no dense scores
                    continue
                except Exception as ex:
                    ctx.violation(f"{name}: {meth} on a series of {n2} rows after fit on {n1} rows raised {type(ex).__name__}: {str(ex)[:100]}",
                                  {"detector": name, "n_train": n1, "n_new": n2, "p": p_}, {"what": "other-series-exception", "detector": name})
                    break
                after = [float(getattr(d, a)) for a in attrs]
                want = doc(n1, p_)
                if after != before or not all(close(x, w, 1e-11) for x, w in zip(after, want)):
                    ctx.violation(f"{name}: after fit on {n1} x {p_} and {meth} on a series of {n2} rows {attrs} = {after}; right after fit they were {before}; scale x documented "
                                  f"default for the TRAINING shape = {want}", {"detector": name, "n_train": n1, "n_new": n2, "p": p_, "method": meth, "Xa": Xa.tolist(), "Xb": Xb.tolist()},
                                  {"what": "attr-changed-by-use", "detector": name})
                    break
    # ---- p is the NUMBER OF COLUMNS of the training data, whatever their labels: frames whose columns share a label ----
    import pandas as _pd
    from skchange.anomaly_detectors import CAPA as _CAPA, MVCAPA as _MVCAPA, CircularBinarySegmentation as _CBS
    from skchange.change_detectors import PELT as _PELT, MovingWindow as _MW, SeededBinarySegmentation as _SBS
    _rng = np.random.default_rng(ctx.seed + 1515)
    for it in range(ctx.n(4, 24)):
        p = int(_rng.integers(2, 5))
        n = int(_rng.integers(30, 80))
        Xn = _rng.normal(size=(n, p))
        labels = [["a"] * p, ["a", "b"] * p, [0] * p][it % 3][:p]
        for name, mk, attrs in [("PELT", lambda: _PELT(penalty_scale=1.5), ["penalty_"]), ("MovingWindow", lambda: _MW(bandwidth=5, threshold_scale=1.5), ["threshold_"]),
                                ("SeededBinarySegmentation", lambda: _SBS(threshold_scale=1.5), ["threshold_"]),
                                ("CircularBinarySegmentation", lambda: _CBS(threshold_scale=1.5), ["threshold_"]),
                                ("CAPA", lambda: _CAPA(collective_penalty_scale=1.5), ["collective_penalty_", "point_penalty_"]),
                                ("MVCAPA", lambda: _MVCAPA(collective_penalty_scale=1.5), ["<scores>"])]:
            try:
                d_ref = mk().fit(Xn.copy())
                d_dup = mk().fit(_pd.DataFrame(Xn.copy(), columns=labels))
            except Exception as ex:
                ctx.violation(f"{name}: fit on a frame whose columns share labels {labels} raised {type(ex).__name__}: {str(ex)[:100]}",
                              {"detector": name, "n": n, "p": p, "labels": [str(l) for l in labels]}, {"what": "dup-columns-exception", "detector": name})
                continue
            ctx.case({"dupcols": name, "it": it, "n": n, "p": p}, nontrivial=True)
            for a in attrs:
                if a == "<scores>":          # MVCAPA derives its penalties from the shape of the data at predict time: compare the penalised scores
                    va, vb = d_ref.transform_scores(Xn.copy()).to_numpy(), d_dup.transform_scores(_pd.DataFrame(Xn.copy(), columns=labels)).to_numpy()
                else:
                    va, vb = getattr(d_ref, a), getattr(d_dup, a)
                fa = np.concatenate([np.atleast_1d(np.asarray(x, dtype=float)).ravel() for x in (va if isinstance(va, tuple) else (va,))])
                fb = np.concatenate([np.atleast_1d(np.asarray(x, dtype=float)).ravel() for x in (vb if isinstance(vb, tuple) else (vb,))])
                if fa.shape != fb.shape or not np.allclose(fa, fb, rtol=1e-12, atol=0.0):
                    ctx.violation(f"{name}: {a} fitted on an n x {p} frame whose columns share labels {labels} is {fb.tolist()[:4]}, on the same numbers as an ndarray it is "
                                  f"{fa.tolist()[:4]}: p must be the number of columns", {"detector": name, "n": n, "p": p, "labels": [str(l) for l in labels], "X": Xn.tolist()},
                                  {"what": "dup-columns-p", "detector": name})
