"""./check replay <file>: re-run a stored replay on /repo's current tree and on the model.

A replay file records the property, the seed / tier of the run that produced it, the concrete failing input
(or, for a broken tie, the obligations that stopped checking) and the signature of the violation.  Replaying
re-executes the property's correspondence with the same seed and tier -- the generators are deterministic
functions of the seed, so the stored input is regenerated and run again on the implementation and on the
Coq model -- and reports whether a violation with the same signature is still produced."""
import json

from harness import engine


def main(path):
    rec = json.load(open(path))
    cid = rec["property"]
    print(f"replay of {path}: property {cid}, kind {rec.get('kind')}")
    print("  what :", str(rec.get("what", rec.get("obligations_not_checking", "")))[:1500])
    inp = rec.get("input")
    if inp is not None:
        print("  input:", json.dumps(inp, default=str)[:3000])
    if rec.get("kind") == "broken-tie":
        for ob in rec.get("obligations_not_checking", []):
            print("  obligation not checking:", ob.get("obligation"), "--", str(ob.get("detail"))[:600])
        for mm in rec.get("correspondence_mismatches", [])[:5]:
            print("  mismatch:", str(mm.get("what"))[:600])
    import importlib
    mod = importlib.import_module(f"harness.{cid.lower()}")
    ctx = engine.Ctx(cid, rec.get("tier", "quick"), int(rec.get("seed", 0)))
    gen_ok, gen_msg = engine.regenerate_gen()
    ok, blog = engine.coq_make([f"Properties/{cid}.vo"] + list(mod.INFO.get("extra_targets", [])))
    print(f"  translator: {'ok' if gen_ok else gen_msg};  coq build of Properties/{cid}.vo: {'ok' if ok else 'FAILED'}")
    if not ok:
        print(blog[-1500:])
    try:
        mod.run(ctx)
    except Exception as ex:  # noqa
        print("  correspondence run failed:", type(ex).__name__, str(ex)[:500])
    sig = rec.get("sig")
    same = [v for v in ctx.violations + ctx.mismatches if v.get("sig") == sig]
    print(f"  re-run: {len(ctx.violations)} violations, {len(ctx.mismatches)} mismatches; with the stored signature {sig}: {len(same)}")
    for v in same[:3]:
        print("   ->", v["what"][:800])
    reproduced = bool(same) or (rec.get("kind") == "broken-tie" and (not ok or not gen_ok or ctx.mismatches))
    print("  REPRODUCED" if reproduced else "  not reproduced on the current tree")
    return 1 if reproduced else 0
