"""C13: evaluate either rejects a cuts array or scores exactly the cuts it describes."""
import itertools

import numpy as np

from harness import direct
from harness.engine import coq_bad_cases, coq_list, zlist, zlit

INFO = {
    "extra_targets": ["Check/CutsCheck.vo"],
    "level": "proof",
    "rule": "exhaustive box [-2,n+2]^k per scorer (a case = one scorer x n x data; non-trivial when the box "
            "contains both accepted and rejected rows) plus a malformed stream (float / bool / 3-D / wrong width / "
            "1-D / empty); accepted rows are also compared with the direct definition computed from X[s:e]",
    "trusted_base": ["Coq 8.16.1 kernel + vm_compute", "harness/c13.py (box enumeration, exception classification)",
                     "harness/direct.py (direct definitions, float tolerance 1e-7 relative)",
                     "NumPy / pandas / sktime as the platform"],
    "assumptions": ["scorers are fitted; data are finite floats of moderate range",
                    "model Model/Cuts.v is hand-written; tied to the code by this exhaustive correspondence"],
}

HEADER = ("From Coq Require Import ZArith List Bool.\nFrom SK Require Import Lib.Base Model.Cuts Check.CutsCheck.\n"
          "Import ListNotations.\nOpen Scope Z_scope.")


def scorers(p):
    from skchange.anomaly_scores import L2Saving, LocalAnomalyScore, Saving
    from skchange.change_scores import CUSUM, ChangeScore
    from skchange.costs import GaussianCovCost, GaussianVarCost, L2Cost
    out = [
        ("L2Cost()", L2Cost(), ("Plain", 2, 1), lambda X, r: direct.cost_direct("l2", None, X, *r)),
        ("L2Cost(0.5)", L2Cost(0.5), ("Plain", 2, 1), lambda X, r: direct.cost_direct("l2", 0.5, X, *r)),
        ("GaussianVarCost()", GaussianVarCost(), ("Plain", 2, 2), lambda X, r: direct.cost_direct("gvar", None, X, *r)),
        ("GaussianVarCost((0.5,2))", GaussianVarCost((0.5, 2.0)), ("Plain", 2, 2),
         lambda X, r: direct.cost_direct("gvar", (0.5, 2.0), X, *r)),
        ("GaussianCovCost()", GaussianCovCost(), ("Plain", 2, p + 1), lambda X, r: direct.cost_direct("gcov", None, X, *r)),
        ("GaussianCovCost((0,2))", GaussianCovCost((0.0, 2.0)), ("Plain", 2, p + 1),
         lambda X, r: direct.cost_direct("gcov", (0.0, 2.0), X, *r)),
        ("CUSUM()", CUSUM(), ("Plain", 3, 1), lambda X, r: direct.cusum_direct(X, *r)),
        ("ChangeScore(L2Cost())", ChangeScore(L2Cost()), ("Plain", 3, 1), lambda X, r: direct.change_direct("l2", X, *r)),
        ("ChangeScore(GaussianVarCost())", ChangeScore(GaussianVarCost()), ("Plain", 3, 2),
         lambda X, r: direct.change_direct("gvar", X, *r)),
        ("ChangeScore(GaussianCovCost())", ChangeScore(GaussianCovCost()), ("Plain", 3, p + 1),
         lambda X, r: direct.change_direct("gcov", X, *r)),
        ("L2Saving()", L2Saving(), ("Plain", 2, 1), lambda X, r: direct.l2saving_direct(X, *r)),
        ("Saving(L2Cost(0.0))", Saving(L2Cost(0.0)), ("Plain", 2, 1), lambda X, r: direct.saving_direct("l2", 0.0, X, *r)),
        ("Saving(GaussianVarCost((0,1)))", Saving(GaussianVarCost((0.0, 1.0))), ("Plain", 2, 2),
         lambda X, r: direct.saving_direct("gvar", (0.0, 1.0), X, *r)),
        ("Saving(GaussianCovCost((0,1)))", Saving(GaussianCovCost((0.0, 1.0))), ("Plain", 2, p + 1),
         lambda X, r: direct.saving_direct("gcov", (0.0, 1.0), X, *r)),
        ("LocalAnomalyScore(L2Cost())", LocalAnomalyScore(L2Cost()), ("Local", 1), lambda X, r: direct.local_direct("l2", X, *r)),
        ("LocalAnomalyScore(GaussianVarCost())", LocalAnomalyScore(GaussianVarCost()), ("Local", 2),
         lambda X, r: direct.local_direct("gvar", X, *r)),
        ("LocalAnomalyScore(GaussianCovCost())", LocalAnomalyScore(GaussianCovCost()), ("Local", p + 1),
         lambda X, r: direct.local_direct("gcov", X, *r)),
        ("LocalAnomalyScore(GaussianVarCost((0,1)))", LocalAnomalyScore(GaussianVarCost((0.0, 1.0))), ("Local", 2),
         lambda X, r: (direct.cost_direct("gvar", (0.0, 1.0), X, r[0], r[3]) - direct.cost_direct("gvar", (0.0, 1.0), X, r[1], r[2])
                       - direct.cost_direct("gvar", (0.0, 1.0), np.concatenate((np.asarray(X)[r[0]:r[1]], np.asarray(X)[r[2]:r[3]])), 0, (r[1] - r[0]) + (r[3] - r[2])))),
    ]
    return out


def kind_term(k):
    return f"(Plain {k[1]}%nat {zlit(k[2])})" if k[0] == "Plain" else f"(Local {zlit(k[1])})"


def classify(scorer, arg):
    """-> ('ok', value) | ('ValueError', msg) | ('other:<Class>', msg)"""
    try:
        return "ok", scorer.evaluate(arg)
    except ValueError as ex:
        return "ValueError", str(ex)[:80]
    except Exception as ex:  # noqa
        return "other:" + type(ex).__name__, str(ex)[:80]


def run(ctx):
    rng = np.random.default_rng(ctx.seed + 13)
    ns = [3, 4] if ctx.quick() else [3, 4, 5, 6]
    ps = [1, 2] if ctx.quick() else [1, 2, 3]
    box_cases, box_meta, arg_cases, arg_meta = [], [], [], []
    for n in ns:
        for p in ps:
            if ctx.scale > 1:
                rng = np.random.default_rng(ctx.rng.randrange(10**9))
            X = np.round(rng.normal(size=(n, p)) * 4, 3) + rng.integers(-3, 4, size=(1, p))
            for name, sc, kind, ref in scorers(p):
                k = kind[1] if kind[0] == "Plain" else 4
                if n >= 6 and k == 4:
                    continue
                sc.fit(X)
                acc = []
                lo, cnt = -2, n + 5
                for row in itertools.product(range(lo, lo + cnt), repeat=k):
                    st, val = classify(sc, np.array(row))
                    if st == "ok":
                        acc.append(row)
                        inb = all(0 <= x <= n for x in row) and all(b > a for a, b in zip(row, row[1:]))
                        if inb:
                            try:
                                want = ref(X, row)
                            except RuntimeError:
                                want = None
                            if want is not None and (val.shape[0] != 1 or not direct.close(val[0], want, scale=1.0)):
                                ctx.violation(f"{name}: accepted cut {list(row)} scored {val.tolist()} but the definition gives {np.asarray(want).tolist()}",
                                              {"scorer": name, "n": n, "p": p, "X": X.tolist(), "cut": list(row)},
                                              {"scorer": name, "what": "wrong value"})
                    elif st.startswith("other:"):
                        cls = st.split(":")[1]
                        inb = all(0 <= x <= n for x in row)
                        if cls == "RuntimeError" and "gcov" in name.lower() or (cls == "RuntimeError" and "GaussianCov" in name):
                            acc.append(row)     # documented non-positive-definite error: the cut itself was accepted
                            continue
                        ctx.violation(f"{name}: cut {list(row)} (n={n}) raised {cls} instead of ValueError / a score",
                                      {"scorer": name, "n": n, "p": p, "X": X.tolist(), "cut": list(row), "exception": st},
                                      {"scorer": name, "what": "exception class", "class": cls, "in_range": inb})
                term = f"({kind_term(kind)}, {n}, {lo}, {cnt}%nat, {coq_list([zlist(r) for r in acc])})"
                box_cases.append(term)
                box_meta.append({"scorer": name, "n": n, "p": p, "X": X.tolist(), "accepted": len(acc), "box": cnt ** k})
                ctx.case({"s": name, "n": n, "p": p, "acc": acc}, nontrivial=0 < len(acc) < cnt ** k,
                         sample={"scorer": name, "n": n, "p": p, "box": f"[{lo},{lo + cnt - 1}]^{k}", "accepted_rows": len(acc),
                                 "first_accepted": [list(r) for r in acc[:3]]})
                ctx.count("scorer", name)
                # ---- batches: several rows in one call, an invalid row hidden among valid ones (any position) ----
                accset = set(acc)
                rejected = [r for r in itertools.product(range(lo, lo + cnt), repeat=k) if r not in accset]
                if acc and rejected:
                    import random as _rnd
                    brng = _rnd.Random(hash((name, n, p)) & 0xFFFF)
                    for it_b in range(8 if ctx.quick() else 24):
                        good = [brng.choice(acc) for _ in range(brng.randint(2, 4))]
                        kind_b = brng.choice(["all-valid", "first", "middle", "last", "negative-middle", "past-end-middle"])
                        if it_b < 2:
                            # MANY valid rows of different shapes in one call (a dozen, in random order, one of them twice): validity is a property of each ROW
                            kind_b = "all-valid"
                            good = brng.sample(acc, min(len(acc), 12))
                            good.append(good[0])
                            brng.shuffle(good)
                        rows_b = list(good)
                        if kind_b != "all-valid":
                            pool = rejected
                            if kind_b == "negative-middle":
                                pool = [r for r in rejected if min(r) < 0 and all(b > a for a, b in zip(r, r[1:]))] or rejected
                            if kind_b == "past-end-middle":
                                pool = [r for r in rejected if max(r) > n and all(b > a for a, b in zip(r, r[1:]))] or rejected
                            badrow = brng.choice(pool)
                            pos = {"first": 0, "last": len(rows_b)}.get(kind_b, len(rows_b) // 2)
                            rows_b.insert(pos, badrow)
                        st, val = classify(sc, np.array(rows_b))
                        ctx.count("batch", kind_b + ":" + st.split(":")[0])
                        if st.startswith("other:") and "RuntimeError" not in st:
                            ctx.violation(f"{name}: a batch of cuts {rows_b} (n={n}) raised {st} instead of ValueError / scores",
                                          {"scorer": name, "n": n, "p": p, "X": X.tolist(), "cuts": [list(r) for r in rows_b], "exception": st},
                                          {"scorer": name, "what": "exception class", "class": st.split(":")[1], "batch": kind_b})
                            continue
                        if st == "ok" and kind_b == "all-valid":
                            # "scores exactly the described cuts": row i of the result belongs to row i of the argument, whatever the order of the rows and however often
                            # one of them occurs
                            try:
                                singles = np.vstack([np.asarray(sc.evaluate(np.array([r_])), dtype=float) for r_ in rows_b])
                                if np.asarray(val).shape != singles.shape or not np.allclose(np.asarray(val, dtype=float), singles, rtol=1e-12, atol=1e-12, equal_nan=True):
                                    ctx.violation(f"{name}: a batch of {len(rows_b)} valid cuts (unsorted, one of them twice) is not scored row by row: the rows of the result differ "
                                                  f"from the cuts evaluated one at a time", {"scorer": name, "n": n, "p": p, "X": X.tolist(), "cuts": [list(r) for r in rows_b]},
                                                  {"scorer": name, "what": "batch-rows", "batch": kind_b})
                            except RuntimeError:
                                pass
                        arg_cases.append(f"({kind_term(kind)}, {n}, (IntRows {k}%nat {coq_list([zlist(r) for r in rows_b])}), "
                                         f"{'true' if st != 'ValueError' else 'false'})")
                        arg_meta.append({"scorer": name, "n": n, "p": p, "X": X.tolist(), "arg_kind": "batch:" + kind_b, "cuts": [list(r) for r in rows_b], "impl": st})
                        ctx.case({"s": name, "n": n, "p": p, "batch": rows_b}, nontrivial=True)
                # ---- malformed stream ----
                good = acc[len(acc) // 2] if acc else tuple(range(k))
                mal = [
                    ("float", np.array([good], dtype=float), "NonInt"),
                    ("bool", np.array([good]) > 0, "NonInt"),
                    ("object", np.array([good], dtype=object), "NonInt"),
                    ("emptylist", [], "NonInt"),
                    ("list-of-floats", [[float(v) + 0.5 for v in good]], "NonInt"),
                    ("list-of-integral-floats", [[float(v) for v in good]], "NonInt"),
                    ("tuple-of-floats", tuple([tuple(float(v) + 0.25 for v in good)]), "NonInt"),
                    ("frame-of-floats", __import__("pandas").DataFrame([[float(v) + 0.5 for v in good]]), "NonInt"),
                    ("3d", np.array([[good]]), "Dim3"),
                    ("1d", np.array(good), f"(IntRows {k}%nat {coq_list([zlist(good)])})"),
                    ("list2d", [list(good), list(good)], f"(IntRows {k}%nat {coq_list([zlist(good), zlist(good)])})"),
                    # a FLAT sequence is ONE row, whatever its length: two or three cuts written one after the other are a row of the wrong width, not a batch
                    ("1d-two-cuts-flat", np.array(list(good) + list(good)), f"(IntRows {2 * k}%nat {coq_list([zlist(list(good) + list(good))])})"),
                    ("list-three-cuts-flat", list(good) * 3, f"(IntRows {3 * k}%nat {coq_list([zlist(list(good) * 3)])})"),
                    ("1d-empty-int", np.zeros(0, dtype=int), f"(IntRows 0%nat {coq_list([zlist([])])})"),
                    ("wide", np.array([list(good) + [n]]), f"(IntRows {k + 1}%nat {coq_list([zlist(list(good) + [n])])})"),
                    ("narrow", np.array([list(good)[:-1]]), f"(IntRows {k - 1}%nat {coq_list([zlist(list(good)[:-1])])})"),
                    ("empty2d", np.zeros((0, k), dtype=int), f"(IntRows {k}%nat [])"),
                    ("empty2d_wrong", np.zeros((0, k + 1), dtype=int), f"(IntRows {k + 1}%nat [])"),
                    ("int32", np.array([good], dtype=np.int32), f"(IntRows {k}%nat {coq_list([zlist(good)])})"),
                ]
                # unsigned integer dtypes are integer arrays too: a decreasing row must be rejected (np.diff on unsigned data wraps around)
                if min(good) >= 0:
                    rev = tuple(reversed(good))
                    for udt in (np.uint8, np.uint32, np.uint64):
                        mal.append((f"{np.dtype(udt).name}-valid", np.array([good], dtype=udt), f"(IntRows {k}%nat {coq_list([zlist(good)])})"))
                        mal.append((f"{np.dtype(udt).name}-decreasing", np.array([rev], dtype=udt), f"(IntRows {k}%nat {coq_list([zlist(rev)])})"))
                for tag, arg, term in mal:
                    st, val = classify(sc, arg)
                    ctx.count("malformed", tag + ":" + st.split(":")[0])
                    if st.startswith("other:") and "RuntimeError" not in st:
                        ctx.violation(f"{name}: malformed cuts ({tag}) raised {st} instead of ValueError",
                                      {"scorer": name, "n": n, "p": p, "X": X.tolist(), "arg_kind": tag},
                                      {"scorer": name, "what": "exception class", "class": st.split(':')[1], "arg": tag})
                        continue
                    arg_cases.append(f"({kind_term(kind)}, {n}, {term}, {'true' if st != 'ValueError' else 'false'})")
                    arg_meta.append({"scorer": name, "n": n, "p": p, "X": X.tolist(), "arg_kind": tag, "impl": st})
                    ctx.case({"s": name, "n": n, "p": p, "mal": tag}, nontrivial=True)
    ctx.exhaustive = True
    bad = coq_bad_cases(ctx.cid, HEADER, "box_case", "box_case_ok", box_cases, shard=12, tag="box")
    for i in bad:
        m = box_meta[i]
        # find the first differing row in Python for the replay (same rule as Model/Cuts.row_ok)
        ctx.violation(f"{m['scorer']} (n={m['n']}, p={m['p']}): the set of accepted cuts differs from the documented one "
                      f"(model Model/Cuts.row_ok) somewhere in the box", m,
                      {"scorer": m["scorer"], "what": "accept/reject"})
    bad = coq_bad_cases(ctx.cid, HEADER, "arg_case", "arg_case_ok", arg_cases, shard=400, tag="arg")
    for i in bad:
        m = arg_meta[i]
        ctx.violation(f"{m['scorer']}: malformed cuts argument of kind {m['arg_kind']} -> implementation {m['impl']}, "
                      f"model disagrees", m, {"scorer": m["scorer"], "what": "malformed", "arg": m["arg_kind"]})
    narrow_dtype_stream(ctx)
    refit_stream(ctx)
    local_scores_longer_series_stream(ctx)


def local_scores_longer_series_stream(ctx):
    """The exhaustive boxes above stop at 5 samples for four-point cuts -- too short for a local anomaly score whose cost needs 3 or more samples (multivariate Gaussian
    on two or three columns).  Here: every VALID four-point cut of a series of 10..12 samples (by the definition: increasing, inner interval and the rows around it at least
    min_size long) is accepted alone and in batches of a dozen rows of different shapes, and scored as the definition says; cuts that miss the definition by one are rejected."""
    import itertools
    import random as _rnd
    rng = _rnd.Random(ctx.seed + 1315)
    for rep in range(ctx.n(2, 6)):
        p = rng.choice([2, 2, 3])
        n = rng.randint(10, 12)
        X = np.asarray([[rng.gauss(0, 1) for _ in range(p)] for _ in range(n)])
        for name, sc, kind, ref in scorers(p):
            if kind[0] != "Local":
                continue
            ms = kind[1]
            sc.fit(X)
            valid = [r for r in itertools.combinations(range(n + 1), 4) if r[2] - r[1] >= ms and (r[1] - r[0]) + (r[3] - r[2]) >= ms]
            if not valid:
                continue
            ctx.case({"local-long": name, "rep": rep, "n": n, "p": p}, nontrivial=True)
            ctx.count("local_longer_series", name.split("(")[1].rstrip(")") if "(" in name else name)
            inp = {"scorer": name, "n": n, "p": p, "X": X.tolist()}
            bad = None
            for r in rng.sample(valid, min(len(valid), 40)):
                st, val = classify(sc, np.array([r]))
                if st == "ValueError" or (st.startswith("other:") and "RuntimeError" not in st):
                    bad = (f"the valid cut {list(r)} (min_size {ms}) is not scored: {st}", {"cut": list(r)})
                    break
            for _ in range(6):
                if bad:
                    break
                rows = rng.sample(valid, min(len(valid), 12))
                st, val = classify(sc, np.array(rows))
                if st == "ValueError" or (st.startswith("other:") and "RuntimeError" not in st):
                    bad = (f"a batch of {len(rows)} valid cuts of different shapes is not scored although each of them is valid on its own: {st}", {"cuts": [list(r) for r in rows]})
                elif st == "ok":
                    try:
                        singles = np.vstack([np.asarray(sc.evaluate(np.array([r])), dtype=float) for r in rows])
                        if np.asarray(val).shape != singles.shape or not np.allclose(np.asarray(val, dtype=float), singles, rtol=1e-10, atol=1e-10, equal_nan=True):
                            bad = ("the rows of a batch differ from the cuts evaluated one at a time", {"cuts": [list(r) for r in rows]})
                    except RuntimeError:
                        pass
            near = [r for r in itertools.combinations(range(n + 1), 4) if r not in set(valid)]
            for r in rng.sample(near, min(len(near), 30)):
                if bad:
                    break
                st, _ = classify(sc, np.array([r]))
                if st == "ok":
                    bad = (f"the cut {list(r)} violates the minimum sizes (min_size {ms}) but is scored", {"cut": list(r)})
            if bad:
                ctx.violation(f"{name} on a series of {n} samples, {p} columns: {bad[0]}", dict(inp, **bad[1]), {"scorer": name, "what": "local-longer-series"})


def refit_stream(ctx):
    """"Fitted data" is the LAST fitted series: a scorer fitted on one series and then on another of another length -- directly, or as the wrapped cost of a second wrapper --
    must accept exactly the cuts that are valid for the second series (positions up to ITS length) and score them as a fresh scorer fitted on it does; positions past
    its end stay rejected."""
    rng = np.random.default_rng(ctx.seed + 1314)
    for rep in range(ctx.n(2, 8)):
        p = int(rng.integers(1, 3))
        n1, n2 = (int(rng.integers(8, 14)), int(rng.integers(18, 30))) if rep % 2 == 0 else (int(rng.integers(18, 30)), int(rng.integers(8, 14)))
        X1, X2 = rng.normal(size=(n1, p)) + 3.0, rng.normal(size=(n2, p)) * 2.0
        for (name, sc, kind, _), (_, fresh, _, _) in zip(scorers(p), scorers(p)):
            k = 4 if kind[0] == "Local" else kind[1]
            ms = kind[1] if kind[0] == "Local" else kind[2]
            width = 2 * ms + (k - 2) * ms
            if n2 < width + 2 or n1 < width + 2:
                continue
            def mk_cut(e):                                    # a valid cut that reaches the END of a series of e rows
                s0 = max(0, e - width - 1)
                return [s0, e] if k == 2 else ([s0, s0 + ms, e] if k == 3 else [s0, s0 + ms, e - ms, e])
            cut = mk_cut(n2)
            inp = {"scorer": name, "n_first": n1, "n_second": n2, "p": p, "cut": cut, "X1": X1.tolist(), "X2": X2.tolist()}
            ctx.case({"refit": name, "rep": rep}, nontrivial=True)
            ctx.count("refit", name.split("(")[0])
            try:
                sc.fit(X1)
                sc.evaluate(np.asarray([mk_cut(n1)]))
                sc.fit(X2)
                got = np.asarray(sc.evaluate(np.asarray([cut])), dtype=float)
                want = np.asarray(fresh.fit(X2).evaluate(np.asarray([cut])), dtype=float)
            except Exception as ex:
                ctx.violation(f"{name}: fitted on {n1} rows and then on {n2} rows, evaluate({cut}) -- valid for the second series -- raised {type(ex).__name__}: {str(ex)[:100]}", inp,
                              {"what": "refit-exception", "scorer": name.split("(")[0]})
                continue
            if got.shape != want.shape or not np.allclose(got, want, rtol=1e-9, atol=1e-9, equal_nan=True):
                ctx.violation(f"{name}: fitted on {n1} rows and then on {n2} rows, evaluate({cut}) = {got.tolist()[0][:3]}; a fresh scorer fitted on the second series gives "
                              f"{want.tolist()[0][:3]}", inp, {"what": "refit-value", "scorer": name.split("(")[0]})
                continue
            past = [c_ + (n2 + 1 - cut[-1]) if i_ == len(cut) - 1 else c_ for i_, c_ in enumerate(cut)]
            try:
                sc.evaluate(np.asarray([past]))
                ctx.violation(f"{name}: fitted on {n1} rows and then on {n2} rows, evaluate({past}) -- one position past the end of the second series -- was accepted", inp,
                              {"what": "refit-accepts-out-of-range", "scorer": name.split("(")[0]})
            except ValueError:
                pass
            except Exception as ex:
                ctx.violation(f"{name}: evaluate({past}) past the end raised {type(ex).__name__} instead of ValueError", inp, {"what": "refit-exception-class", "scorer": name.split("(")[0]})


def narrow_dtype_stream(ctx):
    """Cuts held in a NARROW integer dtype (int8 ... uint32) are integer arrays like any other: a valid cut must be scored exactly as the same
    cut held in int64 (position arithmetic inside a kernel must not overflow the cuts' own dtype), an invalid one must still be rejected."""
    rng = np.random.default_rng(ctx.seed + 1313)
    plans = [(np.int8, 120), (np.uint8, 250), (np.int16, 420), (np.uint16, 420), (np.int32, 420)]
    if not ctx.quick():
        plans += [(np.int16, 30000), (np.int32, 70000), (np.uint32, 70000)]
    for dt, n in plans:
        p = 1 if n > 1000 else 2
        X = np.round(rng.normal(size=(n, p)), 3)
        X[n // 3:] += 2.0
        for name, sc, kind, _ref in scorers(p):
            if "Cov" in name and n > 1000:
                continue
            k = kind[1] if kind[0] == "Plain" else 4
            ms = kind[2] if kind[0] == "Plain" else max(kind[1], 1)
            sc.fit(X)
            rows = []
            hi = min(n, int(np.iinfo(dt).max))
            for _ in range(6):
                while True:
                    r = sorted(int(v) for v in rng.choice(np.arange(0, hi + 1), size=k, replace=False))
                    if all(b - a >= ms + 1 for a, b in zip(r, r[1:])):
                        break
                rows.append(r)
            rows.append([0] + [hi - (k - 1 - j) * (ms + 2) for j in range(1, k)])     # the widest cut the dtype can hold
            for r in rows:
                st64, v64 = classify(sc, np.array([r], dtype=np.int64))
                stn, vn = classify(sc, np.array([r], dtype=dt))
                inp = {"scorer": name, "n": n, "p": p, "cut": r, "dtype": np.dtype(dt).name, "data_seed": ctx.seed + 1313}
                ctx.case({"s": name, "n": n, "narrow": np.dtype(dt).name, "cut": r}, nontrivial=True)
                ctx.count("narrow_dtype", np.dtype(dt).name)
                if st64 != "ok":
                    continue      # e.g. a numerically singular covariance: not this stream's subject
                if stn != "ok":
                    ctx.violation(f"{name}: the valid cut {r} (n={n}) held in dtype {np.dtype(dt).name} raised {stn} ({vn}) although the same cut in int64 is scored",
                                  inp, {"scorer": name, "what": "narrow-dtype-rejected", "dtype": np.dtype(dt).name})
                elif not np.allclose(np.asarray(vn, dtype=float), np.asarray(v64, dtype=float), rtol=1e-12, atol=0.0):
                    ctx.violation(f"{name}: the valid cut {r} (n={n}) held in dtype {np.dtype(dt).name} is scored {np.asarray(vn).tolist()} but the definition "
                                  f"(and the same cut in int64) gives {np.asarray(v64).tolist()}: position arithmetic overflowed the cuts' dtype",
                                  inp, {"scorer": name, "what": "narrow-dtype-value", "dtype": np.dtype(dt).name})
            # a decreasing row in the narrow dtype must still be rejected
            bad = list(reversed(rows[0]))
            stb, vb = classify(sc, np.array([bad], dtype=dt))
            if stb != "ValueError":
                ctx.violation(f"{name}: the decreasing cut {bad} in dtype {np.dtype(dt).name} was not rejected with ValueError ({stb})",
                              {"scorer": name, "n": n, "cut": bad, "dtype": np.dtype(dt).name}, {"scorer": name, "what": "narrow-dtype-accepts-invalid", "dtype": np.dtype(dt).name})
