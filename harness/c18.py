"""C18: data generators are reproducible and place segments exactly where requested."""
import numpy as np
import pandas as pd

from harness.engine import coq_bad_cases, coq_bool, coq_list, nlist, pairs_nat

INFO = {
    "extra_targets": ["Check/GenerateCheck.vo"],
    "level": "proof",
    "rule": "random argument sets for generate_changing_data / generate_anomalous_data / generate_alternating_data (n 1..30, p 1..3, seeds, sorted "
            "and unsorted / duplicate positions, scalar / length-1 / per-column means and variances, recycled single means) plus an invalid stream "
            "(wrong counts, positions past the end, negative positions, empty or inverted anomalies, non-pairs, non-broadcastable vectors) and "
            "add_linspace_outliers (n 1..40, k 0..n+2, p 1..3); the standard-normal matrix Z is obtained from the generator itself with zero means / "
            "unit variances and the same seed; the model (binary64 instance) must reproduce the output BIT FOR BIT, an Err of the model must be a "
            "ValueError of the code; each call is repeated to check determinism, shape, index 0..n-1 and column names; non-trivial = at least one "
            "transformed row or a rejected argument set",
    "trusted_base": ["Coq 8.16.1 kernel + vm_compute with primitive floats (PrimFloat: IEEE binary64 add, mul, sqrt)",
                     "harness/c18.py (argument generator, float.hex printing)", "scipy.stats.multivariate_normal.rvs (supplies Z)",
                     "np.linspace's binary64 front end (positions recomputed with the library's own expression, checked by positions_ok)",
                     "np.round for n_affected in generate_alternating_data (recomputed by the harness)"],
    "assumptions": ["finite means, positive variances of moderate size"],
}
HEADER = ("From Coq Require Import PrimFloat List Arith Bool.\nFrom SK Require Import Lib.Base Model.Generate Check.GenerateCheck.\n"
          "Import ListNotations.\nOpen Scope float_scope.")


def fl(x):
    x = float(x)
    h = x.hex()
    return f"({h})" if h.startswith("-") else h


def frow(r):
    return coq_list([fl(v) for v in r])


def fmat(m):
    return coq_list([frow(r) for r in m])


def opt_mat(m):
    return "None" if m is None else f"(Some {fmat(m)})"


def vecs(vs):
    return coq_list([frow(np.asarray(v, dtype=float).reshape(-1)) for v in vs])


def call(fn, *a, **k):
    try:
        return "ok", fn(*a, **k)
    except ValueError as ex:
        return "ValueError", str(ex)[:100]
    except Exception as ex:  # noqa
        return "other:" + type(ex).__name__, str(ex)[:100]


def rand_vec(rng, p, kind):
    if kind == "scalar":
        return float(rng.choice([-2.5, 0.0, 0.5, 1.0, 3.0]))
    if kind == "len1":
        return [float(rng.choice([-1.0, 2.0, 0.25]))]
    if kind == "bad":
        return [1.0] * (p + 1 + rng.randint(0, 1))
    return [float(rng.choice([-3.0, -0.5, 0.0, 1.5, 4.0])) for _ in range(p)]


def rand_var(rng, p, kind):
    if kind == "scalar":
        return float(rng.choice([0.25, 1.0, 2.0, 9.0]))
    if kind == "len1":
        return [float(rng.choice([0.5, 4.0]))]
    if kind == "bad":
        return [1.0] * (p + 1 + rng.randint(0, 1))
    return [float(rng.choice([0.1, 1.0, 3.0, 16.0])) for _ in range(p)]


def std_normal(gen, n, p, seed):
    """the generator's own standard-normal output for this (n, p, seed)"""
    st, z = call(gen, n, [], [np.zeros(p)], [np.ones(p)], seed) if gen.__name__ == "generate_changing_data" else (None, None)
    return st, z


def run(ctx):
    from skchange.datasets import generate as G
    rng = ctx.rng
    cases, meta = [], []

    def frame_ok(df, n, p):
        return (isinstance(df, pd.DataFrame) and df.shape == (n, p) and list(df.index) == list(range(n))
                and list(df.columns) == [f"var{i}" for i in range(p)])

    def base_Z(n, p, seed, inp, fname):
        st, z = call(G.generate_changing_data, n, [], [np.zeros(p)], [np.ones(p)], seed)
        if st != "ok" or not frame_ok(z, n, p):
            ctx.violation(f"{fname}: the standard-normal reference call generate_changing_data(n={n}, [], zeros({p}), ones({p}), seed) "
                          f"{'raised ' + st + ': ' + str(z) if st != 'ok' else 'returned a frame of shape ' + str(z.shape)}", inp,
                          {"what": "reference-call", "n1": n == 1})
            return None
        return z.to_numpy().tolist()

    def finish(kind, term_fn, st, out, out2, n, p, inp, model_expect_err):
        """common post-processing: exception class, determinism, frame structure; returns impl matrix / None"""
        if st.startswith("other:"):
            ctx.violation(f"{kind} raised {st.split(':')[1]} instead of ValueError / a result: {out}", inp,
                          {"what": "exception-class", "fn": kind, "cls": st.split(":")[1]})
            return "skip"
        if st == "ValueError":
            return None
        if not frame_ok(out, n, p):
            ctx.violation(f"{kind}: output is not an n x p frame with index 0..n-1 and columns var0..: shape {getattr(out, 'shape', None)}", inp,
                          {"what": "frame", "fn": kind})
            return "skip"
        if out2 is None or not out.equals(out2):
            ctx.violation(f"{kind}: two calls with identical arguments and seed differ", inp, {"what": "determinism", "fn": kind})
        return out.to_numpy().tolist()

    N = ctx.n(260, 3000)
    for i in range(N):
        which = rng.choice(["changing", "changing", "anomalous", "anomalous", "alternating"])
        n = rng.choice([1, 2, 3, 5, 8, 13, 20, 30]) if i % 5 else rng.randint(1, 30)
        p = rng.choice([1, 1, 2, 3])
        seed = rng.randint(0, 10 ** 6) if i % 6 else [0, 1, 2 ** 32 - 1, 0][(i // 6) % 4]    # boundary seeds: 0 is a seed, not "no seed"
        invalid = rng.random() < 0.3
        if which == "changing":
            k = rng.choice([0, 1, 1, 2, 3])
            cp = sorted(rng.sample(range(0, n), min(k, n))) if n > 0 else []
            if rng.random() < 0.15 and cp:
                rng.shuffle(cp)                                   # unsorted: sequential slices, not a property case
            if rng.random() < 0.1 and cp:
                cp = cp + [cp[0]]                                 # duplicate
            bad = None
            if invalid:
                bad = rng.choice(["count", "past-end", "negative", "broadcast"])
            nseg = len(cp) + 1
            kinds = ["percol"] + [rng.choice(["percol", "scalar", "len1"]) for _ in range(nseg - 1)]
            means = [rand_vec(rng, p, kd) for kd in kinds]
            vars_ = [rand_var(rng, p, rng.choice(["percol", "scalar", "len1"]) if j else "percol") for j in range(nseg)]
            if rng.random() < 0.25:
                means = [means[0]]                                # recycled single mean
            if rng.random() < 0.25:
                vars_ = [vars_[0]]
            neg = False
            if bad == "count":
                means = means + [means[0]] if len(means) != 1 else means + [means[0]] * (nseg + 1)
            elif bad == "past-end":
                cp = cp + [n + rng.randint(0, 2)]
                if len(means) != 1:
                    means = means + [means[0]]
                if len(vars_) != 1:
                    vars_ = vars_ + [vars_[0]]
            elif bad == "negative":
                cp = [-rng.randint(1, 2)] + cp
                neg = True
                if len(means) != 1:
                    means = [means[0]] + means
                if len(vars_) != 1:
                    vars_ = [vars_[0]] + vars_
            elif bad == "broadcast" and len(means) > 1:
                means = list(means)
                means[-1] = rand_vec(rng, p, "bad")     # never the first mean: it defines p
            inp = {"fn": "generate_changing_data", "n": n, "changepoints": cp, "means": means, "variances": vars_, "seed": seed, "p": p}
            Zm = base_Z(n, p, seed, inp, "generate_changing_data")
            if Zm is None:
                continue
            cp_arg, means_arg, vars_arg = list(cp), list(means), list(vars_)
            st, out = call(G.generate_changing_data, n, cp_arg, means_arg, vars_arg, seed)
            st2, out2 = call(G.generate_changing_data, n, cp_arg, means_arg, vars_arg, seed)
            if cp_arg != list(cp) or len(means_arg) != len(means) or len(vars_arg) != len(vars_) or (st == "ok") != (st2 == "ok"):
                ctx.violation(f"generate_changing_data modified its arguments (changepoints {cp} -> {cp_arg}) or a second call with the same argument "
                              f"objects behaved differently ({st} then {st2})", inp, {"what": "argument-mutated", "fn": "generate_changing_data"})
                continue
            impl = finish("generate_changing_data", None, st, out, out2 if st2 == "ok" else None, n, p, inp, bad)
            if impl == "skip":
                continue
            term = (f"GChanging {n} {coq_bool(neg)} {nlist([c for c in cp if c >= 0])} {vecs(means)} {vecs(vars_)} {fmat(Zm)} {opt_mat(impl)}")
            nontriv = impl is None or (len(cp) > 0 or any(np.any(np.asarray(m, dtype=float) != 0) for m in means))
        elif which == "anomalous":
            k = rng.choice([1, 1, 2, 3])      # no anomalies at all: p cannot be derived from the arguments, outside the domain
            an, pos = [], 0
            for _ in range(k):
                if pos >= n:
                    break
                s = rng.randint(pos, max(pos, n - 1))
                e = rng.randint(s + 1, max(s + 1, min(n, s + 6)))
                an.append((s, min(e, n)) if min(e, n) > s else (s, s + 1))
                pos = an[-1][1] + rng.choice([0, 0, 1, 3])
            an = [a for a in an if a[1] <= n]
            if not an:
                an = [(0, 1)]
            if rng.random() < 0.1 and len(an) >= 2:
                an = [an[1], an[0]]                               # any order is fine when disjoint
            if rng.random() < 0.08 and an:
                an = an + [(an[0][0], min(n, an[0][1] + 1))]      # overlapping: sequential application, not a property case
            bad = rng.choice(["count", "past-end", "negative", "empty", "inverted", "non-pair", "broadcast"]) if invalid else None
            kinds = ["percol"] + [rng.choice(["percol", "scalar", "len1"]) for _ in range(max(0, len(an) - 1))]
            means = [rand_vec(rng, p, kd) for kd in kinds[:max(1, len(an))]]
            vars_ = [rand_var(rng, p, "percol" if j == 0 else rng.choice(["percol", "scalar", "len1"])) for j in range(max(1, len(an)))]
            if rng.random() < 0.3:
                means = [means[0]]
            if rng.random() < 0.3:
                vars_ = [vars_[0]]
            neg = badshape = False
            call_an = [tuple(a) for a in an]
            if bad == "count":
                means = list(means) + [means[0], means[0]] if len(means) != 1 or len(an) == 1 else [means[0]] * (len(an) + 1)
                if len(means) == len(an) or len(means) == 1:
                    means = [means[0]] * (len(an) + 2)
            elif bad == "past-end":
                call_an = call_an + [(max(0, n - 1), n + rng.randint(1, 2))]
            elif bad == "negative":
                call_an = call_an + [(-rng.randint(1, 2), rng.randint(1, max(1, n)))]
                neg = True
            elif bad == "empty":
                s = rng.randint(0, n)
                call_an = call_an + [(s, s)]
            elif bad == "inverted":
                call_an = call_an + [(min(n, 3), 1)]
            elif bad == "non-pair":
                call_an = call_an + [(0, 1, 2)]
                badshape = True
            elif bad == "broadcast" and len(means) > 1:
                means = list(means)
                means[-1] = rand_vec(rng, p, "bad")
            if bad in ("past-end", "negative", "empty", "inverted", "non-pair"):
                if len(means) != 1:
                    means = list(means) + [means[0]]
                if len(vars_) != 1:
                    vars_ = list(vars_) + [vars_[0]]
            inp = {"fn": "generate_anomalous_data", "n": n, "anomalies": [list(a) for a in call_an], "means": means, "variances": vars_,
                   "seed": seed, "p": p}
            Zm = base_Z(n, p, seed, inp, "generate_anomalous_data")
            if Zm is None:
                continue
            an_arg, means_arg, vars_arg = list(call_an), list(means), list(vars_)
            st, out = call(G.generate_anomalous_data, n, an_arg, means_arg, vars_arg, seed)
            st2, out2 = call(G.generate_anomalous_data, n, an_arg, means_arg, vars_arg, seed)
            if an_arg != list(call_an) or len(means_arg) != len(means) or len(vars_arg) != len(vars_) or (st == "ok") != (st2 == "ok"):
                ctx.violation(f"generate_anomalous_data modified its arguments or a second call with the same argument objects behaved differently "
                              f"({st} then {st2})", inp, {"what": "argument-mutated", "fn": "generate_anomalous_data"})
                continue
            impl = finish("generate_anomalous_data", None, st, out, out2 if st2 == "ok" else None, n, p, inp, bad)
            if impl == "skip":
                continue
            pairs = [(max(a[0], 0), a[1]) for a in call_an if len(a) == 2]
            term = (f"GAnomalous {n} {coq_bool(badshape)} {coq_bool(neg)} {pairs_nat(pairs)} {vecs(means)} {vecs(vars_)} {fmat(Zm)} {opt_mat(impl)}")
            nontriv = impl is None or len(an) > 0
        else:
            nseg, seglen = rng.randint(1, 5), rng.randint(1, 6)
            n = nseg * seglen
            mean, var = float(rng.choice([0.0, 2.0, -3.5])), float(rng.choice([1.0, 4.0, 0.25]))
            prop = rng.choice([1.0, 0.5, 0.3, 0.0, 0.75])
            n_aff = int(np.round(p * prop))
            inp = {"fn": "generate_alternating_data", "n_segments": nseg, "segment_length": seglen, "p": p, "mean": mean, "variance": var,
                   "affected_proportion": prop, "seed": seed}
            Zm = base_Z(n, p, seed, inp, "generate_alternating_data")
            if Zm is None:
                continue
            st, out = call(G.generate_alternating_data, nseg, seglen, p, mean, var, prop, seed)
            st2, out2 = call(G.generate_alternating_data, nseg, seglen, p, mean, var, prop, seed)
            impl = finish("generate_alternating_data", None, st, out, out2 if st2 == "ok" else None, n, p, inp, None)
            if impl == "skip":
                continue
            term = f"GAlternating {nseg} {seglen} {p} {n_aff} {fl(mean)} {fl(var)} {fmat(Zm)} {opt_mat(impl)}"
            nontriv = nseg > 1
            which = "alternating"
        inp["impl"] = "ValueError" if impl is None else impl
        cases.append("(" + term + ")")
        meta.append(inp)
        ctx.case({k: v for k, v in inp.items() if k != "impl"}, nontrivial=bool(nontriv),
                 sample={k: v for k, v in inp.items() if k != "impl"} | {"outcome": "ValueError" if impl is None else "frame"})
        ctx.count("fn", which)
        ctx.count("outcome", "ValueError" if impl is None else "ok")
        ctx.count("n", n if n <= 3 else ">3")
        ctx.count("p", p)

    # ---- add_linspace_outliers ----
    for i in range(ctx.n(120, 1200)):
        n = rng.randint(1, 40) if i % 3 else rng.choice([1, 2, 31, 46, 61])
        p = rng.choice([1, 2, 3])
        k = rng.choice([0, 1, 2, 3, n, n + 1, rng.randint(0, n + 2)]) if i % 2 else rng.randint(0, n)
        size = float(rng.choice([10.0, -4.5, 0.125]))
        x = np.asarray([[rng.gauss(0, 1) for _ in range(p)] for _ in range(n)])
        df = pd.DataFrame(x.copy(), columns=[f"var{j}" for j in range(p)])
        layout = "single-block"
        if p >= 2 and i % 3 == 1:
            # the same values in a frame that pandas stores in several blocks (columns joined / appended afterwards)
            df = pd.concat([pd.DataFrame(x[:, :1].copy(), columns=["var0"]), pd.DataFrame(x[:, 1:].copy(), columns=[f"var{j}" for j in range(1, p)])], axis=1)
            layout = "concat"
        elif p >= 2 and i % 3 == 2:
            df = pd.DataFrame(x[:, :-1].copy(), columns=[f"var{j}" for j in range(p - 1)])
            df[f"var{p - 1}"] = x[:, -1].copy()
            layout = "column-appended"
        ctx.count("outlier_frame_layout", layout)
        # "rows" are POSITIONS, whatever the row labels of the frame: offset / reversed / permuted integer labels, time stamps, the tail of a longer frame
        index_kind = ["default", "offset", "reversed", "datetime", "tail-slice", "permuted"][(i // 3) % 6]
        if index_kind == "offset":
            df.index = pd.RangeIndex(7, 7 + n)
        elif index_kind == "reversed":
            df.index = pd.Index(list(range(n - 1, -1, -1)))
        elif index_kind == "datetime":
            df.index = pd.date_range("2021-03-04", periods=n, freq="h")
        elif index_kind == "tail-slice":
            df = pd.concat([pd.DataFrame(np.zeros((3, p)), columns=df.columns), df], ignore_index=True).iloc[3:]
        elif index_kind == "permuted":
            df.index = pd.Index([int(v) for v in np.random.default_rng(i).permutation(n)])
        ctx.count("outlier_frame_index", index_kind)
        labels_before = [str(v) for v in df.index]
        inp = {"fn": "add_linspace_outliers", "n": n, "p": p, "n_outliers": k, "outlier_size": size, "x": x.tolist(), "frame_layout": layout, "frame_index": index_kind}
        st, out = call(G.add_linspace_outliers, df, k, size)
        if st != "ok":
            ctx.violation(f"add_linspace_outliers(n={n}, p={p}, n_outliers={k}) raised {st}: {out}", inp,
                          {"what": "outliers-exception", "cls": st.split(':')[-1], "p_gt_1": p > 1})
            continue
        pos = [int(v) for v in np.linspace(0, n - 1, k, dtype=int)]     # the library's own front-end expression on the ROW count
        if out.shape != (n, p) or [str(v) for v in out.index] != labels_before:
            ctx.violation(f"add_linspace_outliers(n={n}, p={p}, n_outliers={k}) on a frame with a {index_kind} index returned a frame of shape {out.shape} / other row labels",
                          inp, {"what": "outliers-frame", "index": index_kind})
            continue
        impl = out.to_numpy().tolist()
        inp.update({"positions": pos, "impl": impl})
        cases.append(f"(GOutliers {fmat(x.tolist())} {k} {nlist(pos)} {fl(size)} {fmat(impl)})")
        meta.append(inp)
        ctx.case({k_: v for k_, v in inp.items() if k_ not in ("impl",)}, nontrivial=k > 0)
        ctx.count("fn", "outliers")
    bad = coq_bad_cases(ctx.cid, HEADER, "gen_case", "gen_case_ok", cases, shard=60)
    for i in bad[:30]:
        m = meta[i]
        ctx.violation(f"{m['fn']}: the output differs from the model (mean + sqrt(variance) * Z on exactly the requested rows, Z elsewhere; "
                      f"invalid arguments -> ValueError): arguments {({k: v for k, v in m.items() if k not in ('impl', 'x')})} -> "
                      f"{'ValueError' if m['impl'] == 'ValueError' else 'a frame'}", m,
                      {"what": "placement/validation", "fn": m["fn"], "impl_raises": m["impl"] == "ValueError"})
